package main

import (
	"go/token"
	"strings"

	"golang.org/x/tools/go/ssa"
)

func init() {
	register(&Property{
		ID:    "C13",
		Title: "parallel.Do/DoContext/Map(Context): exactly once, bounded, barrier, first error",
		Rules: []*Rule{
			{ID: "C13.barrier", Floor: 4, Clause: "Do waits on the WaitGroup on every path from a spawn to a return, each worker defers wg.Done() first and wg.Add's argument is the spawn loop's bound; DoContext returns eg.Wait()",
				Run: ruleDoBarrier},
			{ID: "C13.unique-index", Floor: 6, Clause: "the index given to f in a worker is atomic.AddInt32(&x,1) (x initialised to -1) through conversions only, under i < n; the sequential path passes the loop variable of for i := 0; i < n; i++",
				Run: ruleDoUniqueIndex},
			{ID: "C13.bounded", Floor: 2, Clause: "the number of workers is the clamped parallelism: the spawn bound's reaching definitions are the parameter, GOMAXPROCS(-1) under <= 0, and n under > n; each worker runs f sequentially (no go inside the worker loop)",
				Run: ruleDoBounded},
			{ID: "C13.error-contract", Floor: 7, Clause: "DoContext's worker re-checks ctx.Err() before each call and returns that error; f receives the errgroup's context, not the caller's; the worker returns f's error unchanged; the sequential path returns f's error; MapContext/Map callbacks pass their own context parameter and return the error unchanged; MapContext returns nil, err",
				Run: ruleDoErrorContract},
			{ID: "C13.positional", Floor: 2, Clause: "in Map/MapContext's callbacks the same parameter i indexes in and out; out has len(in) elements",
				Run: ruleMapPositional},
		},
		NotCovered: []string{"the dynamic number of concurrently running calls (equals the number of workers because each runs f sequentially, which is what C13.bounded checks)", "which of several errors errgroup reports (errgroup semantics trusted)"},
		Trusted:    []string{"sync.WaitGroup, errgroup and sync/atomic semantics"},
	})
}

func doFns(c *Ctx) []*ssa.Function {
	var out []*ssa.Function
	for _, n := range []string{"parallel.Do", "parallel.DoContext"} {
		if f := c.fn(n); f != nil {
			out = append(out, f)
		}
	}
	return out
}

func ruleDoBarrier(c *Ctx, r *R) {
	do := c.fn("parallel.Do")
	if do == nil {
		r.undecided("parallel.Do|missing", token.NoPos, "anchor not found")
		return
	}
	// typestate: 0 = no goroutine started, 1 = started and not waited, 2 = waited
	pf := &PF{N: 3}
	pf.Instr = func(fn *ssa.Function, in ssa.Instruction, q int) (StateSet, bool) {
		switch x := in.(type) {
		case *ssa.Go:
			return ss(1), true
		case *ssa.Call:
			if cal := x.Call.StaticCallee(); cal != nil && cal.Name() == "Wait" && cal.Signature.Recv() != nil && isNamedType(cal.Signature.Recv().Type(), "sync", "WaitGroup") {
				return ss(2), true
			}
		}
		return 0, false
	}
	k := 0
	for _, e := range pf.Exits(do, ss(0)) {
		k++
		r.ok(!e.States.has(1), "parallel.Do|return#"+itoa(k), retPos(e.Ret), "a path returns after starting workers without wg.Wait(): Do would return while calls of f are still running")
	}
	bi := bgAnalyse(c, "parallel.Do")
	// wg.Add(parallelism) with the spawn loop's bound
	var add *ssa.Call
	instrs(do, func(b *ssa.BasicBlock, i int, in ssa.Instruction) {
		if call, ok := in.(*ssa.Call); ok {
			if cal := call.Call.StaticCallee(); cal != nil && cal.Name() == "Add" && cal.Signature.Recv() != nil && isNamedType(cal.Signature.Recv().Type(), "sync", "WaitGroup") {
				add = call
			}
		}
	})
	okAdd := false
	if add != nil && len(bi.spawned) == 1 {
		site := bi.spawnAt[bi.spawned[0]]
		for _, b := range do.Blocks {
			if iff, ok := b.Instrs[len(b.Instrs)-1].(*ssa.If); ok {
				if bin, ok := iff.Cond.(*ssa.BinOp); ok && bin.Op == token.LSS && b.Succs[0].Dominates(site.Block()) && reaches(site.Block(), b) {
					if sameVar(bin.Y, add.Call.Args[1]) && add.Block().Dominates(b) {
						okAdd = true
					}
				}
			}
		}
	}
	r.ok(okAdd, "parallel.Do|wg-add-is-spawn-bound", do.Pos(), "wg.Add must be given the same value that bounds the spawn loop, before the loop")
	for _, g := range bi.spawned {
		first := false
		for _, in := range g.Blocks[0].Instrs {
			if d, ok := in.(*ssa.Defer); ok {
				if cal := d.Call.StaticCallee(); cal != nil && cal.Name() == "Done" {
					first = true
				}
				break
			}
		}
		r.ok(first, "parallel.Do|worker-defers-done", g.Pos(), "each worker must defer wg.Done() before anything else so a panic or early return still releases the barrier")
	}
	dc := c.fn("parallel.DoContext")
	if dc == nil {
		r.undecided("parallel.DoContext|missing", token.NoPos, "anchor not found")
		return
	}
	// every return reachable after an eg.Go returns eg.Wait()
	pf2 := &PF{N: 2}
	pf2.Instr = func(fn *ssa.Function, in ssa.Instruction, q int) (StateSet, bool) {
		if call, ok := in.(*ssa.Call); ok {
			if cal := call.Call.StaticCallee(); cal != nil && cal.Name() == "Go" {
				return ss(1), true
			}
		}
		return 0, false
	}
	k = 0
	for _, e := range pf2.Exits(dc, ss(0)) {
		if !e.States.has(1) {
			continue
		}
		k++
		okW := false
		if call, ok := e.Ret.Results[0].(*ssa.Call); ok {
			if cal := call.Call.StaticCallee(); cal != nil && cal.Name() == "Wait" {
				okW = true
			}
		}
		r.ok(okW, "parallel.DoContext|return-wait#"+itoa(k), retPos(e.Ret), "after starting workers DoContext must return eg.Wait() (barrier + first error)")
	}
	if k == 0 {
		r.violated("parallel.DoContext|return-wait", dc.Pos(), "no return after the spawn loop found")
	}
}

// sameVar: two SSA values denote the same variable at nearby points (same value, or loads of the same cell).
func sameVar(a, b ssa.Value) bool {
	if a == b {
		return true
	}
	ca, cb := loadCell(a), loadCell(b)
	return ca != nil && ca == cb
}

func ruleDoUniqueIndex(c *Ctx, r *R) {
	for _, fn := range doFns(c) {
		name := c.nameOf(fn)
		bi := bgAnalyse(c, name)
		// the shared counter: the variable whose address reaches atomic.AddInt32 (directly, or through a worker helper)
		var counter *ssa.Alloc
		isClaim := func(v ssa.Value, chain []*ssa.Call) bool {
			for {
				if cv, ok := v.(*ssa.Convert); ok {
					v = cv.X
					continue
				}
				break
			}
			ac, ok := v.(*ssa.Call)
			if !ok {
				return false
			}
			cal := ac.Call.StaticCallee()
			if cal == nil || cal.Name() != "AddInt32" || !isConstInt(ac.Call.Args[1], 1) {
				return false
			}
			if cell := cellOf(argOf(ac.Call.Args[0], chain)); cell != nil && cell.Parent() == fn {
				counter = cell
				return true
			}
			return false
		}
		for _, g := range bi.spawned {
			nf := 0
			for _, di := range deepInstrs(g, 2) {
				call, ok := di.in.(*ssa.Call)
				if !ok || call.Call.IsInvoke() {
					continue
				}
				if _, isFn := call.Call.Value.(*ssa.Function); isFn {
					continue
				}
				if _, isB := call.Call.Value.(*ssa.Builtin); isB {
					continue
				}
				if path(call.Call.Value) != "f" {
					continue
				}
				nf++
				idx := call.Call.Args[len(call.Call.Args)-1]
				fromAdd := isClaim(idx, di.calls)
				if phi, ok := idx.(*ssa.Phi); ok && !fromAdd {
					// for i := claim(); i < n; i = claim()
					all := len(phi.Edges) > 0
					for _, e := range phi.Edges {
						if !isClaim(e, di.calls) {
							all = false
						}
					}
					fromAdd = all
				}
				r.ok(fromAdd, name+"|worker-index-from-atomic-add", call.Pos(), "the index handed to f must be the result of atomic.AddInt32(&x, 1) itself (through conversions only): any other derivation can hand the same index to two workers or skip one")
				bounded := false
				for _, gd := range guardsOf(call.Block()) {
					if cf, ok := gd.asCmp(); ok && cf.x == idx && cf.op == token.LSS && strings.HasSuffix(path(cf.y), "n") {
						bounded = true
					}
				}
				r.ok(bounded, name+"|worker-index-below-n", call.Pos(), "f must be called only under i < n for the claimed index")
			}
			if nf != 1 {
				r.violated(name+"|worker-calls-f-once-per-claim", g.Pos(), "the worker loop must contain exactly one call of f per claimed index, found "+itoa(nf))
			}
		}
		okInit := false
		if counter != nil {
			for _, st := range storesTo(counter) {
				if st.Parent() == fn && isConstInt(st.Val, -1) {
					okInit = true
				}
			}
		}
		r.ok(okInit, name+"|x-starts-at-minus-one", fn.Pos(), "the shared counter must start at -1 so the first AddInt32(&x,1) yields index 0")
		// sequential path: f(i) with i the induction variable 0..n-1
		okSeq := false
		instrs(fn, func(b *ssa.BasicBlock, i int, in ssa.Instruction) {
			call, ok := in.(*ssa.Call)
			if !ok || call.Call.IsInvoke() {
				return
			}
			if _, isFn := call.Call.Value.(*ssa.Function); isFn {
				return
			}
			if path(call.Call.Value) != "f" {
				return
			}
			idx := call.Call.Args[len(call.Call.Args)-1]
			phi, ok := idx.(*ssa.Phi)
			if !ok {
				return
			}
			zero, step := false, false
			for _, e := range phi.Edges {
				if isConstInt(e, 0) {
					zero = true
				}
				if add, ok := e.(*ssa.BinOp); ok && add.Op == token.ADD && add.X == ssa.Value(phi) && isConstInt(add.Y, 1) {
					step = true
				}
			}
			bounded := false
			for _, gd := range guardsOf(b) {
				if cf, ok := gd.asCmp(); ok && cf.x == ssa.Value(phi) && cf.op == token.LSS && strings.HasSuffix(path(cf.y), "n") {
					bounded = true
				}
			}
			one := false
			for _, gd := range guardsOf(b) {
				if cf, ok := gd.asCmp(); ok && cf.op == token.EQL && isConstInt(cf.y, 1) && strings.Contains(path(cf.x), "parallelism") {
					one = true
				}
			}
			if zero && step && bounded && one {
				okSeq = true
			}
		})
		r.ok(okSeq, name+"|sequential-path", fn.Pos(), "the parallelism == 1 path must call f(i) for i = 0..n-1 in a plain counting loop")
	}
}

func ruleDoBounded(c *Ctx, r *R) {
	for _, fn := range doFns(c) {
		name := c.nameOf(fn)
		bi := bgAnalyse(c, name)
		if len(bi.spawned) != 1 {
			r.violated(name+"|one-spawn-site", fn.Pos(), "expected exactly one spawn site")
			continue
		}
		site := bi.spawnAt[bi.spawned[0]]
		var bound ssa.Value
		for _, b := range fn.Blocks {
			if iff, ok := b.Instrs[len(b.Instrs)-1].(*ssa.If); ok {
				if bin, ok := iff.Cond.(*ssa.BinOp); ok && bin.Op == token.LSS && b.Succs[0].Dominates(site.Block()) && reaches(site.Block(), b) {
					bound = bin.Y
				}
			}
		}
		good := false
		why := "spawn loop bound not found"
		if bound != nil {
			// reaching definitions of parallelism
			var defs []ssa.Value
			if cell := loadCell(bound); cell != nil {
				for _, st := range storesTo(cell) {
					defs = append(defs, st.Val)
				}
			} else {
				seen := map[ssa.Value]bool{}
				var walk func(v ssa.Value)
				walk = func(v ssa.Value) {
					if seen[v] {
						return
					}
					seen[v] = true
					if phi, ok := v.(*ssa.Phi); ok {
						for _, e := range phi.Edges {
							walk(e)
						}
						return
					}
					defs = append(defs, v)
				}
				walk(bound)
			}
			good = true
			hasParam, hasClampN, hasMaxprocs := false, false, false
			for _, d := range defs {
				switch x := d.(type) {
				case *ssa.Parameter:
					if x.Name() == "parallelism" {
						hasParam = true
					} else if x.Name() == "n" {
						hasClampN = true
					} else {
						good = false
						why = "spawn bound may be parameter " + x.Name()
					}
				case *ssa.Call:
					if cal := x.Call.StaticCallee(); cal != nil && cal.Name() == "GOMAXPROCS" && isConstInt(x.Call.Args[0], -1) {
						hasMaxprocs = true
					} else {
						good = false
						why = "spawn bound may be " + path(d)
					}
				default:
					if strings.HasSuffix(path(d), "n") {
						hasClampN = true
					} else {
						good = false
						why = "spawn bound may be " + path(d)
					}
				}
			}
			if !(hasParam && hasClampN && hasMaxprocs) {
				good = false
				why = "spawn bound must come from {parallelism, GOMAXPROCS(-1), n}"
			}
			// the clamp: a store/phi edge of n under parallelism > n
			clamp, dflt := false, false
			instrs(fn, func(b *ssa.BasicBlock, i int, in ssa.Instruction) {
				iff, ok := in.(*ssa.If)
				if !ok {
					return
				}
				if bin, ok := iff.Cond.(*ssa.BinOp); ok && strings.Contains(path(bin.X), "parallelism") {
					if bin.Op == token.GTR && strings.HasSuffix(path(bin.Y), "n") && b.Dominates(site.Block()) {
						clamp = true
					}
					if bin.Op == token.LEQ && isConstInt(bin.Y, 0) {
						dflt = true
					}
				}
			})
			if !clamp || !dflt {
				good = false
				why = "missing `parallelism <= 0 → GOMAXPROCS` default or `parallelism > n → n` clamp before the spawn loop"
			}
		}
		r.ok(good, name+"|spawn-bound", posOf(site), why)
		// no go statement inside the worker
		nested := false
		for _, g := range bi.all {
			instrs(g, func(b *ssa.BasicBlock, i int, in ssa.Instruction) {
				if _, ok := in.(*ssa.Go); ok {
					nested = true
				}
			})
		}
		r.ok(!nested, name+"|worker-sequential", fn.Pos(), "a worker must run f sequentially; a nested go would exceed the requested parallelism")
	}
}

func ruleDoErrorContract(c *Ctx, r *R) {
	dc := c.fn("parallel.DoContext")
	if dc == nil {
		r.undecided("parallel.DoContext|missing", token.NoPos, "anchor not found")
		return
	}
	bi := bgAnalyse(c, "parallel.DoContext")
	var egCtx ssa.Value
	instrs(dc, func(b *ssa.BasicBlock, i int, in ssa.Instruction) {
		if call, ok := in.(*ssa.Call); ok {
			if cal := call.Call.StaticCallee(); cal != nil && cal.Name() == "WithContext" && strings.HasSuffix(cal.Pkg.Pkg.Path(), "errgroup") {
				for _, ref := range *call.Referrers() {
					if ex, ok := ref.(*ssa.Extract); ok && ex.Index == 1 {
						egCtx = ex
					}
				}
			}
		}
	})
	for _, g := range bi.spawned {
		instrs(g, func(b *ssa.BasicBlock, i int, in ssa.Instruction) {
			call, ok := in.(*ssa.Call)
			if !ok || call.Call.IsInvoke() || len(call.Call.Args) != 2 || !isContextType(call.Call.Args[0].Type()) {
				return
			}
			// f(ctx, i)
			os := ctxOrigins(call.Call.Args[0], map[ssa.Value]bool{})
			okCtx := len(os) == 1 && os[0] == egCtx
			r.ok(okCtx, "parallel.DoContext|f-gets-group-ctx", call.Pos(), "f must receive the errgroup's context (cancelled on the first error), not the caller's")
			// pre-check dominates in the same iteration
			pre := false
			for _, gd := range guardsOf(b) {
				if cf, ok := gd.asCmp(); ok && cf.op == token.EQL && isNilConst(cf.y) {
					if ec, ok := cf.x.(*ssa.Call); ok && ec.Call.IsInvoke() && ec.Call.Method.Name() == "Err" && reaches(b, gd.blk) {
						if eo := ctxOrigins(ec.Call.Value, map[ssa.Value]bool{}); len(eo) == 1 && eo[0] == egCtx {
							pre = true
						}
					}
				}
			}
			r.ok(pre, "parallel.DoContext|recheck-before-call", call.Pos(), "each iteration must re-check ctx.Err() on the group context before calling f: otherwise calls keep starting after a failure")
			// error returned unchanged
			unchanged := false
			if call.Referrers() != nil {
				for _, ref := range *call.Referrers() {
					if ret, ok := ref.(*ssa.Return); ok && ret.Results[0] == ssa.Value(call) {
						for _, gd := range guardsOf(ret.Block()) {
							if cf, ok := gd.asCmp(); ok && cf.x == ssa.Value(call) && cf.op == token.NEQ && isNilConst(cf.y) {
								unchanged = true
							}
						}
					}
				}
			}
			r.ok(unchanged, "parallel.DoContext|worker-returns-f-error", call.Pos(), "the worker must return f's non-nil error itself")
		})
		// the branch taken when ctx.Err() != nil returns ctx.Err(), not nil
		nb := 0
		instrs(g, func(b *ssa.BasicBlock, i int, in ssa.Instruction) {
			ret, ok := in.(*ssa.Return)
			if !ok {
				return
			}
			for _, gd := range guardsOf(b) {
				if gd.blk.Succs[0] != b && gd.blk.Succs[1] != b {
					continue
				}
				if cf, ok := gd.asCmp(); ok && cf.op == token.NEQ && isNilConst(cf.y) {
					if ec, ok := cf.x.(*ssa.Call); ok && ec.Call.IsInvoke() && ec.Call.Method.Name() == "Err" {
						nb++
						good := false
						if rc, ok := ret.Results[0].(*ssa.Call); ok && rc.Call.IsInvoke() && rc.Call.Method.Name() == "Err" {
							good = true
						}
						r.ok(good, "parallel.DoContext|cancelled-worker-reports", retPos(ret), "a worker that stops because the context is done must return ctx.Err(): returning nil turns a caller-side cancellation into a successful result with indices never processed")
					}
				}
			}
		})
		if nb == 0 {
			r.violated("parallel.DoContext|cancelled-worker-reports", g.Pos(), "no ctx.Err() != nil exit in the worker")
		}
	}
	// sequential path: returns f's error
	seq := false
	instrs(dc, func(b *ssa.BasicBlock, i int, in ssa.Instruction) {
		ret, ok := in.(*ssa.Return)
		if !ok {
			return
		}
		if call, ok := ret.Results[0].(*ssa.Call); ok && !call.Call.IsInvoke() && len(call.Call.Args) == 2 {
			if _, isFn := call.Call.Value.(*ssa.Function); !isFn && path(call.Call.Value) == "f" {
				seq = true
			}
		}
	})
	r.ok(seq, "parallel.DoContext|sequential-returns-f-error", dc.Pos(), "the sequential path must return f's error as soon as it occurs")
	// Map / MapContext callbacks
	mc := c.fn("parallel.MapContext")
	if mc == nil || len(mc.AnonFuncs) != 1 {
		r.undecided("parallel.MapContext|callback", token.NoPos, "callback not found")
		return
	}
	cb := mc.AnonFuncs[0]
	instrs(cb, func(b *ssa.BasicBlock, i int, in ssa.Instruction) {
		call, ok := in.(*ssa.Call)
		if !ok || call.Call.IsInvoke() || len(call.Call.Args) != 2 || !isContextType(call.Call.Args[0].Type()) {
			return
		}
		r.ok(call.Call.Args[0] == ssa.Value(cb.Params[0]), "parallel.MapContext|callback-passes-own-ctx", call.Pos(), "the callback must hand f the context it was given by DoContext (the one that is cancelled on the first error), not the captured outer context")
		// error returned unchanged
		okErr := false
		for _, ref := range *call.Referrers() {
			if ex, ok := ref.(*ssa.Extract); ok && ex.Index == 1 {
				for _, r2 := range *ex.Referrers() {
					if ret, ok := r2.(*ssa.Return); ok && ret.Results[0] == ssa.Value(ex) {
						okErr = true
					}
					if st, ok := r2.(*ssa.Store); ok {
						// var err error; out[i], err = f(...); return err
						if cell, ok := st.Addr.(*ssa.Alloc); ok {
							for _, r3 := range *cell.Referrers() {
								if ld, ok := r3.(*ssa.UnOp); ok && ld.Referrers() != nil {
									for _, r4 := range *ld.Referrers() {
										if _, ok := r4.(*ssa.Return); ok {
											okErr = true
										}
									}
								}
							}
						}
					}
				}
			}
		}
		r.ok(okErr, "parallel.MapContext|callback-returns-f-error", call.Pos(), "the callback must return f's error unchanged")
	})
	// MapContext returns (nil, err) on error, (out, nil) otherwise
	okRet := false
	instrs(mc, func(b *ssa.BasicBlock, i int, in ssa.Instruction) {
		ret, ok := in.(*ssa.Return)
		if !ok || len(ret.Results) != 2 {
			return
		}
		if call, ok := ret.Results[1].(*ssa.Call); ok {
			if cal := staticCallee(&call.Call); cal != nil && cal.Name() == "DoContext" && isNilConst(ret.Results[0]) {
				for _, gd := range guardsOf(b) {
					if cf, ok := gd.asCmp(); ok && cf.x == ssa.Value(call) && cf.op == token.NEQ {
						okRet = true
					}
				}
			}
		}
	})
	r.ok(okRet, "parallel.MapContext|returns-nil-err", mc.Pos(), "MapContext must return (nil, err) with DoContext's error")
}

func ruleMapPositional(c *Ctx, r *R) {
	for _, name := range []string{"parallel.Map", "parallel.MapContext"} {
		fn := c.fn(name)
		if fn == nil || len(fn.AnonFuncs) != 1 {
			r.undecided(name+"|callback", token.NoPos, "callback not found")
			continue
		}
		cb := fn.AnonFuncs[0]
		iP := cb.Params[len(cb.Params)-1]
		inIdx, outIdx := false, false
		bad := ""
		instrs(cb, func(b *ssa.BasicBlock, i int, in ssa.Instruction) {
			ia, ok := in.(*ssa.IndexAddr)
			if !ok {
				return
			}
			base := path(ia.X)
			if ia.Index != ssa.Value(iP) {
				bad = base + " is indexed by " + path(ia.Index) + " instead of " + iP.Name()
				return
			}
			if strings.HasSuffix(base, "in") {
				inIdx = true
			}
			if strings.HasSuffix(base, "out") {
				// must be stored to
				for _, ref := range *ia.Referrers() {
					if _, ok := ref.(*ssa.Store); ok {
						outIdx = true
					}
				}
			}
		})
		r.ok(inIdx && outIdx && bad == "", name+"|positional", cb.Pos(), "result i must be f(in[i]) stored at out[i] with the callback's own index parameter: "+bad)
		// out := make([]U, len(in)) and n = len(in)
		okLen := false
		instrs(fn, func(b *ssa.BasicBlock, i int, in ssa.Instruction) {
			if ms, ok := in.(*ssa.MakeSlice); ok && strings.HasPrefix(path(ms.Len), "len(") && strings.Contains(path(ms.Len), "in") {
				okLen = true
			}
		})
		r.ok(okLen, name+"|out-len", fn.Pos(), "out must have len(in) elements")
	}
}
