package main

import (
	"go/token"
	"go/types"
	"sort"
	"strings"

	"golang.org/x/tools/go/ssa"
)

func init() {
	register(&Property{
		ID:    "C14",
		Title: "parallel.MapIterator/MapStream keep order, bound the buffer, never deadlock",
		Rules: []*Rule{
			{ID: "C14.lockset", Floor: 6, Clause: "mapIterator.inFlight is read and written only with iter.m held, including in the dispatcher goroutine",
				Run: func(c *Ctx, r *R) {
					// the mutex by role: the struct's own mutex field, or - when there is none - the Locker of its sync.Cond
					// (cond.L), which is what cond.Wait releases and re-acquires
					mu := "m"
					if tn := c.lookupType("parallel", "mapIterator"); tn != nil {
						if st, ok := tn.Type().Underlying().(*types.Struct); ok {
							hasMu, condF := false, ""
							for i := 0; i < st.NumFields(); i++ {
								ft := st.Field(i).Type()
								if isNamedType(ft, "sync", "Mutex") || isNamedType(ft, "sync", "RWMutex") {
									hasMu = true
									mu = canonField(tn.Type(), st.Field(i).Name())
								}
								if pt, ok := ft.(*types.Pointer); ok && isNamedType(pt.Elem(), "sync", "Cond") {
									condF = canonField(tn.Type(), st.Field(i).Name())
								}
							}
							if !hasMu && condF != "" {
								mu = condF + ".L"
							}
						}
					}
					guardedAccesses(c, r, "inFlight", "parallel", "mapIterator", "inFlight", mu)
				}},
			{ID: "C14.cond-protocol", Floor: 3, Clause: "cond.Wait() sits in a loop that re-tests inFlight >= bufferSize; the consumer's Signal condition is implied by inFlight == bufferSize-1 after its decrement (covers the predicate flip); the field bufferSize is the dispatcher's bound",
				Run: ruleMapIterCond},
			{ID: "C14.slot-accounting", Floor: 6, Clause: "the dispatcher takes exactly one slot before each hand-over; the consumer returns exactly one slot on every yielding path and none on any other; ready's capacity and pre-fill use the same bound",
				Run: ruleSlotAccounting},
			{ID: "C14.order", Floor: 8, Clause: "the reorder heap orders by idx; an item is yielded only under Peek().idx == i and i is incremented exactly once on that path; the dispatcher numbers items with a counter incremented once per hand-over",
				Run: ruleMapOrder},
			{ID: "C14.bg-cancellable", Floor: 4, Clause: "every blocking channel operation in MapStream's goroutines is interruptible by the context Close cancels or by a peer's deferred close",
				Run: func(c *Ctx, r *R) { ruleBgCancellable(c, r, "parallel.MapStream") }},
			{ID: "C14.bg-ctx", Floor: 3, Clause: "mapStream.Close cancels then waits; the source's Next and f receive only the context that Close and the errgroup cancel",
				Run: func(c *Ctx, r *R) { ruleBgCtx(c, r, "parallel.MapStream") }},
			{ID: "C14.close-out", Floor: 4, Clause: "the output channel is closed by the last worker out (atomic count compared with the same parallelism that bounds the spawn loop), in a defer for MapStream; the dispatcher closes the input channel on every exit",
				Run: ruleMapCloseOut},
			{ID: "C14.error-identity", Floor: 3, Clause: "mapStream.Next reports eg.Wait()'s error unchanged, only after the output channel was seen closed, End only when it is nil; the ctx arm consumes nothing",
				Run: ruleMapStreamError},
		},
		NotCovered: []string{"reordering under latency and back-pressure dynamics (runtime schedules)", "errgroup's first-error semantics (trusted)", "the numeric bound bufferSize+parallelism+1 itself: only the token discipline behind it is decided"},
		Trusted:    []string{"sync.Cond, errgroup.Group semantics"},
	})
}

func ruleMapIterCond(c *Ctx, r *R) {
	mi := c.fn("parallel.MapIterator")
	nx := c.fn("parallel.mapIterator.Next")
	if mi == nil || nx == nil {
		r.undecided("parallel.MapIterator|missing", token.NoPos, "anchor not found")
		return
	}
	// dispatcher: Wait inside a loop guarded by inFlight >= bufferSize
	var bufCell *ssa.Alloc
	boundIsField := false
	nWait := 0
	var waitFns []*ssa.Function
	seenW := map[*ssa.Function]bool{}
	for _, g := range withAnon(mi) {
		for _, fr := range deepFrames(g, 2) {
			if !seenW[fr.f] {
				seenW[fr.f] = true
				waitFns = append(waitFns, fr.f)
			}
		}
	}
	for _, g := range waitFns {
		instrs(g, func(b *ssa.BasicBlock, i int, in ssa.Instruction) {
			call, ok := in.(*ssa.Call)
			if !ok {
				return
			}
			cal := call.Call.StaticCallee()
			if cal == nil || fname(cal) != "Wait" || cal.Signature.Recv() == nil || !isNamedType(cal.Signature.Recv().Type(), "sync", "Cond") {
				return
			}
			nWait++
			okLoop := reaches(b, b)
			okGuard := false
			for _, gd := range guardsOf(b) {
				if cf, ok := gd.asCmp(); ok && strings.HasSuffix(path(cf.x), ".inFlight") && (cf.op == token.GEQ || cf.op == token.GTR) {
					// the loop head re-tests: the guard's block is reachable from the Wait block
					if reaches(b, gd.blk) {
						okGuard = true
						bufCell = loadCell(cf.y)
						if strings.HasSuffix(path(cf.y), ".bufferSize") {
							boundIsField = true // compares with the struct's own bound: the same value by construction
						}
						if cf.op == token.GTR {
							okGuard = false
						}
					}
				}
			}
			r.ok(okLoop && okGuard, "parallel.MapIterator|wait-in-loop", call.Pos(), "cond.Wait() must be inside a loop that re-tests inFlight >= bufferSize after every wake-up")
		})
	}
	if nWait == 0 {
		r.violated("parallel.MapIterator|wait-in-loop", mi.Pos(), "the dispatcher never waits: the buffer is unbounded")
	}
	// the struct's bufferSize field holds the same (clamped) value
	okField := false
	for _, d := range deepInstrs(mi, 2) { // the literal may be built by a constructor helper (newMapIterator(bufferSize))
		if st, ok := d.in.(*ssa.Store); ok {
			if _, f, ok := storedField(st.Addr); ok && f == "bufferSize" && bufCell != nil && loadCell(argOf(st.Val, d.calls)) == bufCell {
				okField = true
			}
		}
	}
	if boundIsField {
		// the field must be initialised from the (clamped) bufferSize parameter
		for _, d := range deepInstrs(mi, 2) {
			if st, ok := d.in.(*ssa.Store); ok {
				if _, f, ok := storedField(st.Addr); ok && f == "bufferSize" {
					for _, lf := range valueLeaves(st.Val, d.calls, 0) {
						if p, ok := lf.v.(*ssa.Parameter); ok && p.Parent() == mi && isIntType(p.Type()) {
							okField = true
						}
					}
				}
			}
		}
	}
	r.ok(okField, "parallel.MapIterator|same-bound", mi.Pos(), "mapIterator.bufferSize must be initialised from the same variable the dispatcher compares inFlight with")
	// consumer: Signal condition
	nSig := 0
	for _, dd := range deepInstrs(nx, 2) {
		b := dd.in.Block()
		call, ok := dd.in.(*ssa.Call)
		if !ok {
			continue
		}
		cal := call.Call.StaticCallee()
		if cal == nil || (fname(cal) != "Signal" && fname(cal) != "Broadcast") || cal.Signature.Recv() == nil || !isNamedType(cal.Signature.Recv().Type(), "sync", "Cond") {
			continue
		}
		nSig++
		covers := true
		why := ""
		preReads, preOK := map[ssa.Value]bool{}, map[ssa.Value]bool{}
		for _, gd := range guardsOf(b) {
			cf, ok := gd.asCmp()
			if !ok {
				continue
			}
			xs, ys := path(cf.x), path(cf.y)
			if strings.HasSuffix(ys, ".inFlight") {
				xs, ys = ys, xs
				cf.op = flip(cf.op)
			}
			if !strings.HasSuffix(xs, ".inFlight") {
				continue
			}
			// must be implied by inFlight == bufferSize-1
			bs := strings.HasSuffix(ys, ".bufferSize")
			bsm1 := strings.HasSuffix(ys, ".bufferSize-1)")
			// a test on the value read BEFORE this call's decrement (wasFull := inFlight == bufferSize; inFlight--; if wasFull)
			// speaks about new+1: the same conditions, shifted by one
			if inFlightReadBeforeDec(cf.x) || inFlightReadBeforeDec(cf.y) {
				preReads[gd.cond] = true
				switch {
				case cf.op == token.EQL && bs, cf.op == token.LEQ && bs, cf.op == token.GEQ && bs:
					preOK[gd.cond] = true
					continue
				}
				covers = false
				why = "Signal is conditional on the count before the decrement being " + cf.op.String() + " " + ys + ", which does not hold when inFlight drops from bufferSize to bufferSize-1: the dispatcher waiting on inFlight >= bufferSize is never woken"
				continue
			}
			switch {
			case cf.op == token.EQL && bsm1, cf.op == token.LSS && bs, cf.op == token.LEQ && bsm1, cf.op == token.LEQ && bs, cf.op == token.NEQ && bs, cf.op == token.GEQ && bsm1:
			default:
				covers = false
				why = "Signal is conditional on inFlight " + cf.op.String() + " " + ys + ", which does not hold when inFlight has just dropped to bufferSize-1: the dispatcher waiting on inFlight >= bufferSize is never woken (deadlock once the buffer first fills)"
			}
		}
		r.ok(covers, "parallel.mapIterator.Next|signal-covers-flip", call.Pos(), why)
		// ... and the value tested is the count AFTER this consumer gave its slot back: the decrement precedes the read of
		// inFlight that the test uses (a test on the old value never sees bufferSize-1 when there is only one slot)
		tested := false
		afterDec := true
		for _, gd := range guardsOf(b) {
			cf, ok := gd.asCmp()
			if !ok {
				continue
			}
			for _, side := range []ssa.Value{cf.x, cf.y} {
				ld, ok := resolveVal(side).(*ssa.UnOp)
				if !ok || ld.Op != token.MUL {
					continue
				}
				if _, f, ok := storedField(ld.X); !ok || f != "inFlight" {
					continue
				}
				tested = true
				dec := false
				instrs(ld.Parent(), func(sb *ssa.BasicBlock, si int, sin ssa.Instruction) {
					if isFieldIncDec(sin, "inFlight", -1) && ((sb == ld.Block() && si < idxIn(ld)) || (sb != ld.Block() && sb.Dominates(ld.Block()))) {
						dec = true
					}
				})
				if !dec && !(preReads[gd.cond] && preOK[gd.cond]) {
					afterDec = false
				}
			}
		}
		if tested {
			r.ok(afterDec, "parallel.mapIterator.Next|signal-tests-new-count", call.Pos(), "the Signal test reads inFlight before this call's own decrement: with a single slot the old value is never bufferSize-1, the dispatcher is never woken and the iterator stalls after its first result")
		}
	}
	if nSig == 0 {
		r.violated("parallel.mapIterator.Next|signal-covers-flip", nx.Pos(), "the consumer never signals the dispatcher")
	}
}

// countPF: counts events saturating at 2 (states 0,1,2).
func countExits(fn *ssa.Function, isEvent func(in ssa.Instruction) bool, reset func(in ssa.Instruction) (bool, func(count StateSet))) []pfExit {
	pkg := rootFn(fn).Pkg
	pf := &PF{N: 3, InScope: func(f *ssa.Function) bool {
		return rootFn(f).Pkg == pkg && f.Blocks != nil && f != fn && f.Parent() == nil
	}}
	pf.Instr = func(f *ssa.Function, in ssa.Instruction, q int) (StateSet, bool) {
		if isEvent(in) {
			if q < 2 {
				return ss(q + 1), true
			}
			return ss(2), true
		}
		if reset != nil {
			if ok, _ := reset(in); ok {
				return ss(0), true
			}
		}
		return 0, false
	}
	if reset != nil {
		pf.Visit = func(f *ssa.Function, in ssa.Instruction, before StateSet) {
			if ok, cb := reset(in); ok && cb != nil {
				cb(before)
			}
		}
	}
	return pf.Exits(fn, ss(0))
}

func isFieldIncDec(in ssa.Instruction, field string, delta int64) bool {
	st, ok := in.(*ssa.Store)
	if !ok {
		return false
	}
	_, f, ok := storedField(st.Addr)
	if !ok || f != field {
		return false
	}
	bin, ok := resolveVal(st.Val).(*ssa.BinOp) // also `n := t.f + 1; t.f = n`
	if !ok || !strings.HasSuffix(path(resolveVal(bin.X)), "."+field) {
		return false
	}
	if delta > 0 {
		return bin.Op == token.ADD && isConstInt(bin.Y, delta)
	}
	return bin.Op == token.SUB && isConstInt(bin.Y, -delta)
}

func ruleSlotAccounting(c *Ctx, r *R) {
	// consumers
	type cons struct {
		name    string
		release func(in ssa.Instruction) bool
		yields  func(ret *ssa.Return) bool
	}
	for _, cs := range []cons{
		{"parallel.mapIterator.Next", func(in ssa.Instruction) bool { return isFieldIncDec(in, "inFlight", -1) },
			func(ret *ssa.Return) bool {
				k, ok := returnedValue(ret, 1).(*ssa.Const)
				return ok && k.Value != nil && k.Value.String() == "true"
			}},
		{"parallel.mapStream.Next", func(in ssa.Instruction) bool {
			snd, ok := in.(*ssa.Send)
			rf := mapChansOf(c, "parallel.MapStream").readyField
			return ok && rf != "" && fieldOfChan(snd.Chan) == rf
		}, func(ret *ssa.Return) bool { return isNilConst(returnedValue(ret, 1)) }},
	} {
		fn := c.fn(cs.name)
		if fn == nil {
			r.undecided(cs.name+"|missing", token.NoPos, "anchor not found")
			continue
		}
		ny, nn := 0, 0
		unbindCh := bindChanParams(fn) // (s.ready.release(): the helper's channel parameter is this function's s.ready)
		exits := countExits(fn, cs.release, nil)
		unbindCh()
		for _, e := range exits {
			if cs.yields(e.Ret) {
				ny++
				r.ok(e.States == ss(1), cs.name+"|yield-return#"+itoa(ny), retPos(e.Ret), "a path that yields an item must return exactly one buffer slot (reachable counts: "+countDesc(e.States)+"); freeing slots at any other moment breaks the bound on items taken but not yet yielded")
			} else {
				nn++
				r.ok(e.States == ss(0), cs.name+"|other-return#"+itoa(nn), retPos(e.Ret), "a path that yields nothing must not return a buffer slot (reachable counts: "+countDesc(e.States)+")")
			}
		}
		if ny == 0 {
			r.violated(cs.name+"|yield-return", fn.Pos(), "no yielding return found")
		}
	}
	// dispatchers: exactly one acquire before each hand-over on `in`
	for _, name := range []string{"parallel.MapIterator", "parallel.MapStream"} {
		root := c.fn(name)
		if root == nil {
			continue
		}
		mcs := mapChansOf(c, name)
		for _, g := range withAnon(root) {
			// the dispatcher is the closure that sends on the work channel (the one the workers range over)
			var handovers []ssa.Instruction
			for _, op := range chanOpsOf(g) {
				for _, a := range op.arms {
					if a.send && mcs.work != nil && loadCell(a.ch) == mcs.work {
						handovers = append(handovers, op.in)
					}
				}
			}
			if len(handovers) == 0 {
				continue
			}
			acquire := func(in ssa.Instruction) bool {
				if isFieldIncDec(in, "inFlight", +1) {
					return true
				}
				if sel, ok := in.(*ssa.Select); ok {
					for _, st := range sel.States {
						ch := st.Chan
						// ready.acquire(ctx): the select lives in a method of the token channel's type; its receiver is the
						// dispatcher's channel
						if prm, isP := ch.(*ssa.Parameter); isP {
							if b, bound := chanParamBinding[prm]; bound {
								ch = b
							}
						}
						if st.Dir == types.RecvOnly && mcs.ready != nil {
							if loadCell(stripChange(ch)) == mcs.ready {
								return true
							}
							for _, s2 := range storesTo(mcs.ready) {
								if stripChange(s2.Val) == stripChange(ch) {
									return true // (the binding resolved the variable to the value it holds)
								}
							}
						}
					}
				}
				return false
			}
			unbindG := bindChanParams(g)
			defer unbindG()
			k := 0
			isHandover := func(in ssa.Instruction) (bool, func(StateSet)) {
				for _, h := range handovers {
					if h == in {
						return true, func(before StateSet) {
							k++
							r.ok(before == ss(1), name+"|dispatcher-handover#"+itoa(k), posOf(in), "exactly one buffer slot must have been taken since the previous hand-over (reachable counts: "+countDesc(before)+")")
						}
					}
				}
				return false, nil
			}
			// acquire via select arm: only the path through the ready arm counts; approximate by counting the select and
			// requiring the hand-over to be dominated by the ready arm's body
			countExits(g, acquire, isHandover)
			for _, h := range handovers {
				for _, op := range chanOpsOf(g) {
					if sel, ok := op.in.(*ssa.Select); ok {
						for idx, st := range sel.States {
							if st.Dir == types.RecvOnly && mcs.ready != nil && loadCell(st.Chan) == mcs.ready {
								body := selectArmBody(sel, idx)
								r.ok(body != nil && body.Dominates(h.Block()), name+"|handover-after-ready-arm", posOf(h), "the hand-over must be reachable only through the arm that actually received a slot token")
							}
						}
					}
				}
			}
		}
	}
}

func countDesc(s StateSet) string {
	var p []string
	s.each(func(q int) {
		if q == 2 {
			p = append(p, "2+")
		} else {
			p = append(p, itoa(q))
		}
	})
	return "{" + strings.Join(p, ",") + "}"
}

func ruleMapOrder(c *Ctx, r *R) {
	for _, root := range []string{"parallel.MapIterator", "parallel.MapStream"} {
		fn := c.fn(root)
		if fn == nil {
			r.undecided(root+"|missing", token.NoPos, "anchor not found")
			continue
		}
		// less closure passed to xheap.New (possibly inside a helper shared by both constructors): return a.idx < b.idx
		okLess := false
		nNew := 0
		for _, pf := range c.funcsOfPkg("parallel") {
			instrs(pf, func(b *ssa.BasicBlock, i int, in ssa.Instruction) {
				call, ok := in.(*ssa.Call)
				if !ok {
					return
				}
				cal := staticCallee(&call.Call)
				if cal == nil || fname(cal) != "New" || cal.Pkg == nil || !strings.HasSuffix(cal.Pkg.Pkg.Path(), "container/xheap") {
					return
				}
				// this call must be reachable from the constructor: in it, or in a function it calls
				if rootFn(pf) != fn {
					reach := false
					for _, site := range callSitesOf(c, rootFn(pf)) {
						if rootFn(site.Parent()) == fn {
							reach = true
						}
					}
					if !reach {
						return
					}
				}
				nNew++
				g := resolveFuncValue(call.Call.Args[0], 0)
				if g != nil && strings.HasSuffix(g.Name(), "$thunk") && len(g.Blocks) == 1 {
					// a method expression (valueAndIndex[U].before): the method the thunk forwards its parameters to, in order
					for _, tin := range g.Blocks[0].Instrs {
						if tc, ok := tin.(*ssa.Call); ok && len(tc.Call.Args) == len(g.Params) {
							inOrder := true
							for k, a := range tc.Call.Args {
								if a != ssa.Value(g.Params[k]) {
									inOrder = false
								}
							}
							if t := origin(tc.Call.StaticCallee()); t != nil && t.Blocks != nil && inOrder {
								g = t
								break
							}
						}
					}
				}
				if g == nil || len(g.Params) != 2 {
					return
				}
				instrs(g, func(b *ssa.BasicBlock, i int, in ssa.Instruction) {
					if ret, ok := in.(*ssa.Return); ok {
						if bin, ok := returnedValue(ret, 0).(*ssa.BinOp); ok && bin.Op == token.LSS && path(bin.X) == pname(g.Params[0])+".idx" && path(bin.Y) == pname(g.Params[1])+".idx" {
							okLess = true
						}
					}
				})
			})
		}
		r.ok(okLess && nNew == 1, root+"|heap-less-by-idx", fn.Pos(), "the reorder heap must order results by a.idx < b.idx (min-heap on the source index)")
		// dispatcher numbering: the idx field of the value handed over is a counter starting at 0 incremented by 1 per iteration
		okNum := false
		numFns := withAnon(fn)
		if bi := bgAnalyse(c, root); bi != nil {
			for _, g := range bi.all { // the dispatcher's loop may live in a named function (feedMapStream)
				if g.Parent() == nil {
					numFns = append(numFns, g)
				}
			}
		}
		for _, g := range numFns {
			// (the tagged value may be built by a small constructor: withIndex(item, i) - its idx parameter stands for the
			// argument)
			for _, dI := range deepInstrs(g, 1) {
				in := dI.in
				st, ok := in.(*ssa.Store)
				if !ok {
					continue
				}
				if _, f, ok := storedField(st.Addr); !ok || f != "idx" {
					continue
				}
				stVal := argOf(st.Val, dI.calls)
				if phi, ok := stVal.(*ssa.Phi); ok {
					zero, step := false, false
					for _, e := range phi.Edges {
						if isConstInt(e, 0) {
							zero = true
						}
						if add, ok := e.(*ssa.BinOp); ok && add.Op == token.ADD && add.X == ssa.Value(phi) && isConstInt(add.Y, 1) {
							// the increment is in the same block as the hand-over (once per hand-over)
							step = true
						}
					}
					okNum = zero && step && len(phi.Edges) == 2
				}
				// the counter is a captured variable of a tagging function (iterator.Map(iter, func(item T) valueAndIndex[T]
				// { tagged := …{idx: nextIdx}; nextIdx++; return tagged })): set to 0 once, outside, and incremented by one
				// exactly once, in the block that tags, after the tag was taken
				if ld, ok := stVal.(*ssa.UnOp); ok && ld.Op == token.MUL {
					if cell := cellOf(ld.X); cell != nil && isIntType(ld.Type()) {
						zero, incs, other := 0, 0, 0
						for _, s2 := range storesTo(cell) {
							if isConstInt(s2.Val, 0) && s2.Parent() == cell.Parent() {
								zero++
								continue
							}
							add, ok := s2.Val.(*ssa.BinOp)
							if ok && add.Op == token.ADD && isConstInt(add.Y, 1) && s2.Block() == st.Block() && idxIn(s2) > idxIn(st) {
								if l2, ok := add.X.(*ssa.UnOp); ok && l2.Op == token.MUL && cellOf(l2.X) == cell {
									incs++
									continue
								}
							}
							other++
						}
						if zero == 1 && incs == 1 && other == 0 && st.Block() == st.Parent().Blocks[0] {
							okNum = true
						}
					}
				}
			}
		}
		r.ok(okNum, root+"|dispatcher-numbering", fn.Pos(), "items must be numbered 0,1,2,... in source order: idx is a counter that starts at 0 and is incremented exactly once per hand-over")
		// workers propagate idx unchanged: every store to field idx in a worker is item.idx
		okProp := false
		var propFns []*ssa.Function
		seenP := map[*ssa.Function]bool{}
		for _, g := range withAnon(fn) {
			for _, fr := range deepFrames(g, 2) {
				if !seenP[fr.f] {
					seenP[fr.f] = true
					propFns = append(propFns, fr.f)
				}
			}
		}
		for _, g := range propFns {
			for _, dI := range deepInstrs(g, 1) {
				if st, ok := dI.in.(*ssa.Store); ok {
					if _, f, ok := storedField(st.Addr); ok && f == "idx" {
						v := argOf(st.Val, dI.calls)
						if strings.HasSuffix(path(v), ".idx") || strings.HasSuffix(path(v), "#0.idx") {
							okProp = true
						}
					}
				}
			}
		}
		r.ok(okProp, root+"|worker-keeps-idx", fn.Pos(), "a worker must tag its result with the idx of the item it was given")
	}
	for _, name := range []string{"parallel.mapIterator.Next", "parallel.mapStream.Next"} {
		fn := c.fn(name)
		if fn == nil {
			r.undecided(name+"|missing", token.NoPos, "anchor not found")
			continue
		}
		// the expected-index field, by role: the field the heap's minimum idx is compared with (s.i, or queue.next once the
		// reorder state lives in a helper type)
		expF := "i"
		for _, dd := range deepInstrs(fn, 2) {
			call, ok := dd.in.(*ssa.Call)
			if !ok {
				continue
			}
			if cal := staticCallee(&call.Call); cal == nil || fname(cal) != "Pop" {
				continue
			}
			for _, fs := range deepFactStrings(dd) {
				parts := strings.SplitN(fs, " ", 3)
				if len(parts) != 3 || parts[1] != "==" {
					continue
				}
				for _, pr := range [][2]string{{parts[0], parts[2]}, {parts[2], parts[0]}} {
					if strings.Contains(pr[0], "Peek") && strings.HasSuffix(pr[0], ".idx") && strings.Contains(pr[1], ".") && !strings.Contains(pr[1], "(") && !strings.Contains(pr[1], ":") {
						expF = pr[1][strings.LastIndex(pr[1], ".")+1:]
					}
				}
			}
		}
		// Pop only under Peek().idx == s.i
		nPop := 0
		for _, dd := range deepInstrs(fn, 2) {
			call, ok := dd.in.(*ssa.Call)
			if !ok {
				continue
			}
			cal := staticCallee(&call.Call)
			if cal == nil || fname(cal) != "Pop" || cal.Signature.Recv() == nil || !(isNamedTypeDeep(cal.Signature.Recv().Type(), "internal/heap", "Heap") || isNamedTypeDeep(cal.Signature.Recv().Type(), "container/xheap", "Heap")) {
				continue
			}
			nPop++
			guarded, nonEmpty := false, false
			for _, fs := range deepFactStrings(dd) {
				parts := strings.SplitN(fs, " ", 3)
				if len(parts) != 3 {
					continue
				}
				xs, op, ys := parts[0], parts[1], parts[2]
				if op == "==" && strings.Contains(xs, "Peek") && strings.HasSuffix(xs, ".idx") && strings.HasSuffix(ys, "."+expF) {
					guarded = true
				}
				if op == "==" && strings.Contains(ys, "Peek") && strings.HasSuffix(ys, ".idx") && strings.HasSuffix(xs, "."+expF) {
					guarded = true
				}
				if strings.Contains(xs, "Len") && ((op == ">" && strings.HasPrefix(ys, "0:")) || (op == "!=" && strings.HasPrefix(ys, "0:")) || (op == ">=" && strings.HasPrefix(ys, "1:"))) {
					nonEmpty = true
				}
			}
			r.ok(guarded && nonEmpty, name+"|pop-guard", call.Pos(), "a result may be popped (yielded) only when the heap is non-empty and its minimum carries exactly the next expected index")
		}
		if nPop == 0 {
			r.violated(name+"|pop-guard", fn.Pos(), "no Pop of the reorder heap found")
		}
		// i incremented exactly once on yielding paths, never otherwise
		yields := func(ret *ssa.Return) bool {
			if k, ok := returnedValue(ret, 1).(*ssa.Const); ok {
				if k.Value == nil {
					return isNilConst(returnedValue(ret, 1)) && strings.Contains(name, "mapStream")
				}
				return k.Value.String() == "true"
			}
			return false
		}
		ny := 0
		for _, e := range countExits(fn, func(in ssa.Instruction) bool { return isFieldIncDec(in, expF, +1) }, nil) {
			if yields(e.Ret) {
				ny++
				r.ok(e.States == ss(1), name+"|i-once-per-yield#"+itoa(ny), retPos(e.Ret), "the expected index must advance exactly once per yielded item (reachable counts "+countDesc(e.States)+")")
			} else {
				r.ok(e.States == ss(0), name+"|i-unchanged-otherwise@"+itoa(int(e.Ret.Block().Index)), retPos(e.Ret), "the expected index must not advance on a path that yields nothing")
			}
		}
		// ... and the expected index is never set in any other way: jumping it to the heap minimum's idx ("hand out what is
		// finished") skips the gap left by a failed item and yields results beyond it
		nSet := 0
		for _, dd := range deepInstrs(fn, 2) {
			st, ok := dd.in.(*ssa.Store)
			if !ok {
				continue
			}
			if _, f, ok := storedField(st.Addr); !ok || f != expF {
				continue
			}
			nSet++
			r.ok(isFieldIncDec(st, expF, +1), name+"|i-only-incremented#"+itoa(nSet), st.Pos(), "the expected index may only advance by one per yielded item; this store sets it to "+path(st.Val)+": results after a gap (a failed or missing item) would be yielded")
		}
		// everything received is pushed: the ok branch of the receive pushes the received item
		okPush := false
		for _, dd := range deepInstrs(fn, 2) { // (the push may sit in a method of a reorder-buffer type: s.done.add(item))
			if call, ok := dd.in.(*ssa.Call); ok {
				if cal := staticCallee(&call.Call); cal != nil && fname(cal) == "Push" && len(call.Call.Args) == 2 {
					if ex, ok := argOf(call.Call.Args[1], dd.calls).(*ssa.Extract); ok {
						switch t := ex.Tuple.(type) {
						case *ssa.UnOp:
							okPush = okPush || t.Op == token.ARROW
						case *ssa.Select:
							okPush = true
						}
					}
				}
			}
		}
		r.ok(okPush, name+"|push-received", fn.Pos(), "every result received from the workers must be pushed onto the reorder heap")
	}
}

func ruleMapCloseOut(c *Ctx, r *R) {
	for _, root := range []string{"parallel.MapIterator", "parallel.MapStream"} {
		fn := c.fn(root)
		if fn == nil {
			r.undecided(root+"|missing", token.NoPos, "anchor not found")
			continue
		}
		// the spawn loop bound
		var parCell *ssa.Alloc
		var parVal ssa.Value
		instrs(fn, func(b *ssa.BasicBlock, i int, in ssa.Instruction) {
			iff, ok := in.(*ssa.If)
			if !ok {
				return
			}
			bin, ok := iff.Cond.(*ssa.BinOp)
			if !ok || bin.Op != token.LSS {
				return
			}
			// loop that contains a spawn
			spawn := false
			for _, bb := range fn.Blocks {
				if b.Succs[0].Dominates(bb) && reaches(bb, b) {
					for _, x := range bb.Instrs {
						switch y := x.(type) {
						case *ssa.Go:
							spawn = true
						case *ssa.Call:
							if cal := y.Call.StaticCallee(); cal != nil && fname(cal) == "Go" {
								spawn = true
							}
						}
					}
				}
			}
			if spawn {
				parVal = bin.Y
				parCell = loadCell(bin.Y)
			}
		})
		nClose := 0
		for _, g := range withAnon(fn) {
			if g == fn {
				continue
			}
			instrs(g, func(b *ssa.BasicBlock, i int, in ssa.Instruction) {
				call, ok := in.(*ssa.Call)
				if !ok {
					return
				}
				bi, ok := call.Call.Value.(*ssa.Builtin)
				if !ok || bi.Name() != "close" {
					return
				}
				if wc := mapChansOf(c, root).work; wc != nil && loadCell(call.Call.Args[0]) == wc {
					// dispatcher closes the work channel: for MapStream must be deferred (error exits), for MapIterator after the loop
					return
				}
				nClose++
				okGuard := false
				for _, gd := range guardsOf(b) {
					if cf, ok := gd.asCmp(); ok && cf.op == token.EQL && strings.Contains(path(cf.x), "AddUint32") && strings.Contains(path(cf.x), "nDone") {
						// compared with the spawn bound
						y := cf.y
						if cv, ok := y.(*ssa.Convert); ok {
							y = cv.X
						}
						// the count-down lives in a small type (workers.finishOne(): AddUint32(&c.nDone, 1) == c.total, with
						// total set by newWorkerCountdown(parallelism)): the bound is what the constructor was given
						if cf.via != nil {
							if v := fieldSetByCtor(y, cf.env()); v != nil {
								y = v
								if cv, ok := y.(*ssa.Convert); ok {
									y = cv.X
								}
							}
						}
						if (parCell != nil && loadCell(y) == parCell) || (parVal != nil && y == parVal) || (parCell != nil && cellOf(freeVarAddr(y)) == parCell) || (parVal != nil && sameRootVar(y, parVal)) {
							okGuard = true
						}
					}
					// the same protocol counting down, whatever the counter is called: it starts at the spawn bound, every worker
					// takes one off (AddUint32(&remaining, ^uint32(0))) and the one that reaches 0 closes
					if cf, ok := gd.asCmp(); ok && cf.op == token.EQL && cf.via == nil {
						add, isCall := cf.x.(*ssa.Call)
						if !isCall || len(add.Call.Args) != 2 {
							continue
						}
						if cal := add.Call.StaticCallee(); cal == nil || cal.Name() != "AddUint32" || cal.Pkg == nil || cal.Pkg.Pkg.Path() != "sync/atomic" {
							continue
						}
						cell := cellOf(add.Call.Args[0])
						delta, isK := add.Call.Args[1].(*ssa.Const)
						if cell == nil || !isK || delta.Value == nil {
							continue
						}
						sts := storesTo(cell)
						if len(sts) != 1 {
							continue
						}
						isBound := func(y ssa.Value) bool {
							if cv, ok := y.(*ssa.Convert); ok {
								y = cv.X
							}
							return (parCell != nil && loadCell(y) == parCell) || (parVal != nil && y == parVal) || (parCell != nil && cellOf(freeVarAddr(y)) == parCell) || (parVal != nil && sameRootVar(y, parVal))
						}
						if delta.Uint64() == 0xFFFFFFFF && isConstInt(cf.y, 0) && isBound(sts[0].Val) {
							okGuard = true
						}
						if delta.Uint64() == 1 && isConstInt(sts[0].Val, 0) && isBound(cf.y) {
							okGuard = true
						}
					}
				}
				r.ok(okGuard, root+"|close-output#"+itoa(nClose), call.Pos(), "the output channel must be closed by exactly the last worker out: atomic.AddUint32(&nDone,1) compared with the same parallelism value that bounds the spawn loop")
				if root == "parallel.MapStream" {
					r.ok(isDeferredClosure(g), root+"|close-output-deferred", call.Pos(), "MapStream workers can exit early with an error, so the last-one-out close must run in a defer")
				}
			})
		}
		if nClose == 0 {
			r.violated(root+"|close-output", fn.Pos(), "nobody closes the output channel: the consumer never sees the end")
		}
		// dispatcher closes `in` on every exit
		okIn := false
		for _, g := range withAnon(fn) {
			instrs(g, func(b *ssa.BasicBlock, i int, in ssa.Instruction) {
				switch x := in.(type) {
				case *ssa.Defer:
					if bi, ok := x.Call.Value.(*ssa.Builtin); ok && bi.Name() == "close" && loadCell(x.Call.Args[0]) == mapChansOf(c, root).work && mapChansOf(c, root).work != nil && b == g.Blocks[0] {
						okIn = true
					}
					// a deferred function literal whose first block closes the work channel
					if f := staticCallee(&x.Call); f != nil && f.Blocks != nil && f.Parent() != nil && b == g.Blocks[0] && mapChansOf(c, root).work != nil {
						for _, y := range f.Blocks[0].Instrs {
							if call, ok := y.(*ssa.Call); ok {
								if bi, ok := call.Call.Value.(*ssa.Builtin); ok && bi.Name() == "close" && loadCell(call.Call.Args[0]) == mapChansOf(c, root).work {
									okIn = true
								}
							}
						}
					}
				case *ssa.Call:
					if bi, ok := x.Call.Value.(*ssa.Builtin); ok && bi.Name() == "close" && loadCell(x.Call.Args[0]) == mapChansOf(c, root).work && mapChansOf(c, root).work != nil && root == "parallel.MapIterator" {
						// every return of the dispatcher must be preceded by it: single return after the loop
						rets := 0
						instrs(g, func(_ *ssa.BasicBlock, _ int, y ssa.Instruction) {
							if _, ok := y.(*ssa.Return); ok {
								rets++
							}
						})
						if rets == 1 {
							okIn = true
						}
					}
				}
			})
		}
		// … or the dispatcher's body is a named function that is handed the work channel and defers its close in its entry block
		if !okIn && mapChansOf(c, root).work != nil {
			var workMk *ssa.MakeChan
			for _, st := range storesTo(mapChansOf(c, root).work) {
				if mk, ok := st.Val.(*ssa.MakeChan); ok {
					workMk = mk
				}
			}
			if bi := bgAnalyse(c, root); bi != nil && workMk != nil {
				for _, g := range bi.all {
					if g.Parent() != nil || len(g.Blocks) == 0 {
						continue
					}
					for _, in := range g.Blocks[0].Instrs {
						if d, ok := in.(*ssa.Defer); ok {
							if b2, ok := d.Call.Value.(*ssa.Builtin); ok && b2.Name() == "close" {
								if mks := madeChans(d.Call.Args[0]); len(mks) == 1 && mks[workMk] {
									okIn = true
								}
							}
						}
					}
				}
			}
		}
		r.ok(okIn, root+"|dispatcher-closes-in", fn.Pos(), "the dispatcher must close the work channel on every exit (the workers range over it)")
	}
}

func freeVarAddr(v ssa.Value) ssa.Value {
	if ld, ok := v.(*ssa.UnOp); ok && ld.Op == token.MUL {
		return ld.X
	}
	return v
}

func ruleMapStreamError(c *Ctx, r *R) {
	fn := c.fn("parallel.mapStream.Next")
	if fn == nil {
		r.undecided("parallel.mapStream.Next|missing", token.NoPos, "anchor not found")
		return
	}
	var wait *ssa.Call
	var waitAt deepInstr
	for _, dd := range deepInstrs(fn, 2) {
		if call, ok := dd.in.(*ssa.Call); ok {
			if cal := staticCallee(&call.Call); cal != nil && fname(cal) == "Wait" && cal.Pkg != nil && strings.HasSuffix(cal.Pkg.Pkg.Path(), "errgroup") {
				wait = call
				waitAt = dd
			}
		}
	}
	if wait == nil {
		r.violated("parallel.mapStream.Next|wait", fn.Pos(), "Next never collects the group's error")
		return
	}
	// Wait only after c was seen closed (the !ok edge of the receive, in Next or at the call site of the helper that waits)
	closedSeen := false
	blocks := []*ssa.BasicBlock{wait.Block()}
	for _, cc := range waitAt.calls {
		blocks = append(blocks, cc.Block())
	}
	for _, wb := range blocks {
		for _, gd := range guardsOf(wb) {
			if v, val := gd.boolVal(); !val {
				if ex, ok := v.(*ssa.Extract); ok && ex.Index == 1 {
					closedSeen = true
				}
			}
		}
	}
	r.ok(closedSeen, "parallel.mapStream.Next|wait-after-close", wait.Pos(), "eg.Wait() must be consulted only after the output channel was observed closed (all results delivered first)")
	retErr, retEnd := false, false
	wf := wait.Parent()
	handsOn := wf == fn
	if wf != fn {
		// Next must return the helper's result as its error
		instrs(fn, func(b *ssa.BasicBlock, i int, in ssa.Instruction) {
			if ret, ok := in.(*ssa.Return); ok && len(ret.Results) == 2 {
				rv := returnedValue(ret, 1)
				if call, ok := rv.(*ssa.Call); ok && staticCallee(&call.Call) == wf {
					handsOn = true
				}
				// return s.finish(): the helper's (value, error) pair handed on as it is
				if ex, ok := rv.(*ssa.Extract); ok {
					if call, ok := ex.Tuple.(*ssa.Call); ok && staticCallee(&call.Call) == origin(wf) && ex.Index == origin(wf).Signature.Results().Len()-1 {
						handsOn = true
					}
				}
			}
		})
	}
	instrs(wf, func(b *ssa.BasicBlock, i int, in ssa.Instruction) {
		ret, ok := in.(*ssa.Return)
		if !ok || !wait.Block().Dominates(b) || !handsOn {
			return
		}
		if returnedValue(ret, len(ret.Results)-1) == ssa.Value(wait) {
			for _, gd := range guardsOf(b) {
				if cf, ok := gd.asCmp(); ok && cf.x == ssa.Value(wait) && cf.op == token.NEQ && isNilConst(cf.y) {
					retErr = true
				}
			}
		}
		if strings.HasSuffix(path(returnedValue(ret, len(ret.Results)-1)), "End") {
			for _, gd := range guardsOf(b) {
				if cf, ok := gd.asCmp(); ok && cf.x == ssa.Value(wait) && cf.op == token.EQL && isNilConst(cf.y) {
					retEnd = true
				}
			}
		}
		// err := s.eg.Wait(); if err == nil { err = stream.End }; return zero, err: one return of a merge - each alternative is
		// judged on the edge it arrives over
		if phi, isPhi := returnedValue(ret, len(ret.Results)-1).(*ssa.Phi); isPhi && len(phi.Edges) == 2 {
			pe, pn := false, false
			clean := true
			for ei, e := range phi.Edges {
				pb := phi.Block().Preds[ei]
				gs := append(append([]guard{}, guardsOf(pb)...), edgeGuard(pb, phi.Block())...)
				test := func(op token.Token) bool {
					for _, gd := range gs {
						if cf, ok := gd.asCmp(); ok && cf.x == ssa.Value(wait) && cf.op == op && isNilConst(cf.y) {
							return true
						}
					}
					return false
				}
				switch {
				case e == ssa.Value(wait) && test(token.NEQ):
					pe = true
				case strings.HasSuffix(path(e), "End") && test(token.EQL):
					pn = true
				default:
					clean = false
				}
			}
			if pe && pn && clean {
				retErr, retEnd = true, true
			}
		}
	})
	r.ok(retErr, "parallel.mapStream.Next|error-unchanged", wait.Pos(), "a non-nil eg.Wait() error must be returned as is")
	r.ok(retEnd, "parallel.mapStream.Next|end-iff-nil", wait.Pos(), "End must be reported only when eg.Wait() returned nil")
	// ctx arm consumes nothing: its body is a return with ctx.Err()
	for _, op := range chanOpsOf(fn) {
		for _, a := range op.arms {
			if a.kind == "ctx-done" && a.body != nil {
				_, isRet := a.body.Instrs[len(a.body.Instrs)-1].(*ssa.Return)
				pure := true
				for _, x := range a.body.Instrs {
					switch y := x.(type) {
					case *ssa.Store, *ssa.Send:
						pure = false
					case *ssa.Call:
						if !y.Call.IsInvoke() || y.Call.Method.Name() != "Err" {
							pure = false
						}
					}
				}
				r.ok(isRet && pure, "parallel.mapStream.Next|ctx-arm-pure", posOf(op.in), "the ctx.Done() arm must return ctx.Err() without consuming a result or touching the heap, so that a retry continues where it left off")
			}
		}
	}
}

// mapChans identifies, for MapIterator / MapStream, the work channel (the one the spawned workers range over) and,
// for MapStream, the slot-token channel (the buffered chan struct{}) together with the mapStream field holding it.
type mapChans struct {
	work       *ssa.Alloc
	ready      *ssa.Alloc
	readyField string
}

func mapChansOf(c *Ctx, root string) mapChans {
	var mc mapChans
	fn := c.fn(root)
	if fn == nil {
		return mc
	}
	for _, g := range withAnon(fn) {
		if g == fn {
			continue
		}
		for _, fr := range deepFrames(g, 2) {
			for _, op := range fr.chanOps() {
				if op.kind == "range" || (op.kind == "recv" && len(op.arms) == 1 && !op.arms[0].send && !chanElemIsEmptyStruct(op.arms[0].ch.Type())) {
					// the ranged-over channel (or the channel of the explicit `item, ok := <-in` loop), seen through the
					// helper's parameter
					for _, lf := range cellLeaves(op.arms[0].ch, fr.chain, 0) {
						if cell := loadCell(lf.v); cell != nil && rootFn(cell.Parent()) == fn {
							mc.work = cell
						}
					}
				}
			}
		}
	}
	instrs(fn, func(b *ssa.BasicBlock, i int, in ssa.Instruction) {
		mk, ok := in.(*ssa.MakeChan)
		if !ok || !chanElemIsEmptyStruct(mk.Type()) {
			return
		}
		for _, ref := range refsOf(mk) {
			if st, ok := ref.(*ssa.Store); ok {
				if cell, ok := st.Addr.(*ssa.Alloc); ok {
					mc.ready = cell
				}
			}
		}
	})
	if mc.ready == nil {
		// the token channel is built (and pre-filled) by a constructor helper: ready := filledTokenChan(bufferSize)
		instrs(fn, func(b *ssa.BasicBlock, i int, in ssa.Instruction) {
			st, ok := in.(*ssa.Store)
			if !ok {
				return
			}
			cell, ok := st.Addr.(*ssa.Alloc)
			if !ok || !chanElemIsEmptyStruct(st.Val.Type()) {
				return
			}
			if call, isCall := st.Val.(*ssa.Call); isCall {
				if cal := staticCallee(&call.Call); cal != nil && cal.Blocks != nil && c.inModule(cal) {
					made := false
					for _, rv := range returnedBy(origin(cal), 0) {
						if _, ok := resolveVal(rv).(*ssa.MakeChan); ok {
							made = true
						}
					}
					if made {
						mc.ready = cell
					}
				}
			}
		})
	}
	if mc.ready != nil {
		instrs(fn, func(b *ssa.BasicBlock, i int, in ssa.Instruction) {
			if st, ok := in.(*ssa.Store); ok && loadCell(stripChange(st.Val)) == mc.ready { // (the field may be directional)
				if _, f, ok := storedField(st.Addr); ok {
					mc.readyField = f
				}
			}
		})
	}
	return mc
}

// fieldSetByCtor: v (read in the frame described by env) is a field of an object that a constructor helper of the package
// built; the result is the value - in the constructor's CALLER - that the constructor stored into that field, or nil.
func fieldSetByCtor(v ssa.Value, env provEnv) ssa.Value {
	pv := valueProv(v, env)
	if len(pv.fields) != 1 {
		return nil
	}
	var ctor *ssa.Call
	for _, lf := range valueLeaves(pv.root, nil, 0) {
		if cc, ok := lf.v.(*ssa.Call); ok {
			ctor = cc
		}
	}
	if cc, ok := resolveVal(pv.root).(*ssa.Call); ok {
		ctor = cc
	}
	if ctor == nil {
		return nil
	}
	cal := staticCallee(&ctor.Call)
	if cal == nil || cal.Blocks == nil {
		return nil
	}
	var out ssa.Value
	instrs(origin(cal), func(_ *ssa.BasicBlock, _ int, in ssa.Instruction) {
		st, ok := in.(*ssa.Store)
		if !ok {
			return
		}
		fa, ok := st.Addr.(*ssa.FieldAddr)
		if !ok || fieldName(fa.X.Type(), fa.Field) != pv.fields[0] {
			return
		}
		if _, isAl := fa.X.(*ssa.Alloc); !isAl {
			return
		}
		val := st.Val
		for {
			if cv, ok := val.(*ssa.Convert); ok {
				val = cv.X
				continue
			}
			break
		}
		out = argOf(val, []*ssa.Call{ctor})
	})
	return out
}

// C14.no-foreign-call-under-lock: the mutex of mapIterator protects the slot accounting only. Code the library does not control -
// the source iterator's Next, the user's f - is never called while it is held: mapIterator.Next needs the same mutex to give a
// slot back, so a source that yields its next item only after the consumer has seen an earlier result (a work queue fed from the
// results) would block the producer inside iter.Next() with the lock held, and the consumer on the lock: deadlock.
var _ = late(func() {
	p := properties["C14"]
	p.Rules = append(p.Rules, &Rule{ID: "C14.no-foreign-call-under-lock", Floor: 2, Clause: "in parallel.MapIterator and mapIterator's methods no call of foreign code (the source's Next, the callback f) is made with the iterator's mutex held: the consumer needs that mutex to return a slot, so a source or callback that waits for the consumer would deadlock",
		Run: func(c *Ctx, r *R) {
			var fns []*ssa.Function
			if root := c.fn("parallel.MapIterator"); root != nil {
				fns = append(fns, withAnon(root)...)
			}
			for _, m := range c.methodsOf("parallel", "mapIterator") {
				fns = append(fns, withAnon(m)...)
			}
			sort.Slice(fns, func(i, j int) bool { return c.nameOf(fns[i]) < c.nameOf(fns[j]) })
			if len(fns) == 0 {
				r.undecided("parallel.MapIterator|missing", token.NoPos, "anchor not found")
				return
			}
			for _, fn := range fns {
				name := c.nameOf(fn)
				held := locksIn(fn, entryLocks(c, fn, 0))
				n := 0
				instrs(fn, func(_ *ssa.BasicBlock, _ int, in ssa.Instruction) {
					call, ok := in.(*ssa.Call)
					if !ok {
						return
					}
					what := ""
					switch {
					case call.Call.IsInvoke() && (call.Call.Method.Name() == "Next" || call.Call.Method.Name() == "Peek"):
						what = "the source's " + call.Call.Method.Name()
					case !call.Call.IsInvoke():
						switch call.Call.Value.(type) {
						case *ssa.Function, *ssa.Builtin, *ssa.MakeClosure:
						default:
							if _, isSig := call.Call.Value.Type().Underlying().(*types.Signature); isSig && call.Call.Signature().Recv() == nil {
								if nt, isNamed := call.Call.Value.Type().(*types.Named); !isNamed || nt.Obj().Name() != "CancelFunc" {
									what = "the callback " + path(call.Call.Value)
								}
							}
						}
					}
					if what == "" {
						return
					}
					n++
					locked := ""
					for lk := range held[call] {
						locked = lk
					}
					r.ok(locked == "", name+"|foreign-call#"+itoa(n), call.Pos(), what+" is called while "+locked+" is held: mapIterator.Next needs that mutex to hand a slot back, so a source / callback that waits for the consumer deadlocks the iterator")
				})
			}
		}})
})

// inFlightReadBeforeDec: v is a load of the inFlight field that no decrement of the field precedes in its function.
func inFlightReadBeforeDec(v ssa.Value) bool {
	ld, ok := resolveVal(v).(*ssa.UnOp)
	if !ok || ld.Op != token.MUL {
		return false
	}
	if _, f, ok := storedField(ld.X); !ok || f != "inFlight" {
		return false
	}
	dec := false
	instrs(ld.Parent(), func(sb *ssa.BasicBlock, si int, sin ssa.Instruction) {
		if isFieldIncDec(sin, "inFlight", -1) && ((sb == ld.Block() && si < idxIn(ld)) || (sb != ld.Block() && sb.Dominates(ld.Block()))) {
			dec = true
		}
	})
	return !dec
}
