package main

import (
	"go/token"
	"go/types"
	"sort"
	"strings"

	"golang.org/x/tools/go/ssa"
)

var listDuality = newDuality(false, "prev", "next", "front", "back", "before", "after", "pred", "succ", "first", "last", "head", "tail", "predecessor", "successor", "forward", "backward", "fwd", "bwd", "left", "right")

func init() {
	register(&Property{
		ID:    "C06",
		Title: "xlist.List equals an ideal sequence of node handles for every history",
		Rules: []*Rule{
			{ID: "C06.size-count", Floor: 11, Clause: "PushFront/PushBack/InsertBefore/InsertAfter increment size exactly once on every path, Remove decrements exactly once, no other method touches it; Clear stores nil, nil, 0",
				Run: ruleListSize},
			{ID: "C06.value-untouched", Floor: 3, Clause: "Node.Value is stored only in the composite literal of the four constructors (with the value parameter); no other function allocates a Node",
				Run: ruleListValue},
			{ID: "C06.removed-node-isolated", Floor: 2, Clause: "every path through Remove unlinks the node and then stores nil to node.prev and node.next",
				Run: ruleListRemove},
			{ID: "C06.noop-guard", Floor: 2, Clause: "in MoveBefore/MoveAfter the node == mark return dominates l.remove(node)",
				Run: ruleListNoop},
			{ID: "C06.mirror", Floor: 5, Clause: "PushFront/PushBack, InsertBefore/InsertAfter, MoveBefore/MoveAfter, MoveToFront/MoveToBack are mirror images under prev↔next, front↔back, before↔after; remove is self-dual",
				Run: ruleListMirror},
			{ID: "C06.link-pairing", Floor: 8, Clause: "local pointer-surgery facts: every store X.next = Y in a constructor/move is paired on the same path with Y.prev = X or guarded by Y == nil (and vice versa), with the list end updated under the end test",
				Run: ruleListLinkPairing},
		},
		NotCovered: []string{"that a symmetric pair is also correct for every relative position of node and mark (a shape property of the heap; a TVLA-style shape analysis is the static technique and is not available for Go here)"},
	})
}

func ruleListSize(c *Ctx, r *R) {
	meths := c.methodsOf("container/xlist", "List")
	var names []string
	for n := range meths {
		names = append(names, n)
	}
	sort.Strings(names)
	want := map[string]int{"PushFront": +1, "PushBack": +1, "InsertBefore": +1, "InsertAfter": +1, "Remove": -1}
	for _, n := range names {
		fn := meths[n]
		key := "xlist.List." + n
		if n == "Clear" {
			z := map[string]bool{}
			instrs(fn, func(b *ssa.BasicBlock, i int, in ssa.Instruction) {
				if st, ok := in.(*ssa.Store); ok {
					if _, f, ok := storedField(st.Addr); ok {
						if (f == "size" && isConstInt(st.Val, 0)) || ((f == "front" || f == "back") && isNilConst(st.Val)) {
							z[f] = true
						}
					}
				}
			})
			// `l.ends = ends[T]{}`: a group of the list's fields (a struct held by value) replaced by its zero value
			instrs(fn, func(b *ssa.BasicBlock, i int, in ssa.Instruction) {
				st, ok := in.(*ssa.Store)
				if !ok || !isZeroStruct(st.Val) {
					return
				}
				fa, ok := st.Addr.(*ssa.FieldAddr)
				if !ok || len(fn.Params) == 0 || fa.X != ssa.Value(fn.Params[0]) {
					return
				}
				if sub, ok := derefType(fa.Type()).Underlying().(*types.Struct); ok {
					for k := 0; k < sub.NumFields(); k++ {
						z[canonField(derefType(fa.Type()), sub.Field(k).Name())] = true
					}
				}
			})
			// `*l = List[T]{}`: the whole struct is replaced by its zero value
			instrs(fn, func(b *ssa.BasicBlock, i int, in ssa.Instruction) {
				if st, ok := in.(*ssa.Store); ok && len(fn.Params) > 0 && st.Addr == ssa.Value(fn.Params[0]) && isZeroStruct(st.Val) {
					z["size"], z["front"], z["back"] = true, true, true
				}
			})
			r.ok(z["size"] && z["front"] && z["back"], key, fn.Pos(), "Clear must reset front, back and size together")
			continue
		}
		delta := want[n]
		// counting: +1 events and -1 events separately, any other store to size is a violation
		other := false
		inc := func(in ssa.Instruction) bool { return isFieldIncDec(in, "size", +1) }
		dec := func(in ssa.Instruction) bool { return isFieldIncDec(in, "size", -1) }
		instrs(fn, func(b *ssa.BasicBlock, i int, in ssa.Instruction) {
			if st, ok := in.(*ssa.Store); ok {
				if _, f, ok := storedField(st.Addr); ok && f == "size" && !inc(in) && !dec(in) {
					other = true
				}
			}
		})
		good := !other
		for _, e := range countExits(fn, inc, nil) {
			w := ss(0)
			if delta == +1 {
				w = ss(1)
			}
			if e.States != w {
				good = false
			}
		}
		for _, e := range countExits(fn, dec, nil) {
			w := ss(0)
			if delta == -1 {
				w = ss(1)
			}
			if e.States != w {
				good = false
			}
		}
		// methods that must not touch size must also not call ones that do, except Move→remove (which does not)
		if !good && !token.IsExported(n) {
			// an unexported helper that moves size (added(node): `l.size++; return node`): its effect is counted, through the
			// call, on every path of each method that calls it - decided there, provided only List's methods call it
			sites := callCommonsOf(c, fn)
			viaCallers := len(sites) > 0
			callers := map[*ssa.Function]bool{}
			for _, f := range c.Funcs {
				instrs(f, func(_ *ssa.BasicBlock, _ int, in ssa.Instruction) {
					if cc := callCommon(in); cc != nil {
						if cal := staticCallee(cc); cal != nil && origin(cal) == origin(fn) {
							callers[rootFn(f)] = true
						}
					}
				})
			}
			for cf := range callers {
				isMeth := false
				for _, m := range meths {
					if origin(m) == origin(cf) {
						isMeth = true
					}
				}
				if !isMeth {
					viaCallers = false
				}
			}
			if viaCallers {
				r.discharged(key, fn.Pos(), "helper that moves size; counted on the paths of the List methods that call it")
				continue
			}
		}
		r.ok(good, key, fn.Pos(), "size must change by exactly "+itoa(delta)+" on every path of "+n+" (Len counts the nodes)")
	}
}

func ruleListValue(c *Ctx, r *R) {
	ctors := map[string]bool{"PushFront": true, "PushBack": true, "InsertBefore": true, "InsertAfter": true}
	// an unexported helper all of whose call sites are in the four constructors (newNode)
	ctorHelper := func(fn *ssa.Function) bool {
		if token.IsExported(fn.Name()) || fn.Parent() != nil {
			return false
		}
		sites := callSitesOf(c, fn)
		if len(sites) == 0 {
			return false
		}
		for _, s := range sites {
			if !ctors[s.Parent().Name()] {
				return false
			}
		}
		return true
	}
	for _, fn := range c.funcsOfPkg("container/xlist") {
		name := c.nameOf(fn)
		short := fn.Name()
		instrs(fn, func(b *ssa.BasicBlock, i int, in ssa.Instruction) {
			switch x := in.(type) {
			case *ssa.Alloc:
				if isNamedType(x.Type(), "container/xlist", "Node") {
					r.ok(ctors[short] || ctorHelper(fn), name+"|allocates-node", x.Pos(), "only the four constructors (or a helper only they call) may create nodes (handles keep their identity)")
				}
			case *ssa.Store:
				if fa, ok := x.Addr.(*ssa.FieldAddr); ok && fieldName(fa.X.Type(), fa.Field) == "Value" && isNamedType(fa.X.Type(), "container/xlist", "Node") {
					_, fresh := fa.X.(*ssa.Alloc)
					isParam := false
					for _, p := range fn.Params {
						if x.Val == ssa.Value(p) {
							isParam = true
						}
					}
					r.ok((ctors[short] || ctorHelper(fn)) && fresh && isParam, name+"|stores-value", x.Pos(), "Node.Value is user-controlled: it may be written only when a constructor initialises a fresh node with the caller's value")
				}
			}
		})
	}
}

func (c *Ctx) funcsOfPkg(rel string) []*ssa.Function {
	var out []*ssa.Function
	for _, fn := range c.Funcs {
		if rootFn(fn).Pkg == c.SSA[rel] {
			out = append(out, fn)
		}
	}
	return out
}

func ruleListRemove(c *Ctx, r *R) {
	fn := c.fn("container/xlist.List.Remove")
	if fn == nil {
		r.undecided("xlist.List.Remove|missing", token.NoPos, "anchor not found")
		return
	}
	node := fn.Params[1]
	// typestate bits: 1 = unlinked (remove called), 2 = prev nil'ed, 4 = next nil'ed; where the unlinking is written out in
	// Remove itself, 8 = predecessor side repaired, 16 = successor side repaired, and both together are "unlinked"
	pf := &PF{N: 32}
	inlineUnlink := c.fn("container/xlist.List.remove") == nil
	pf.Instr = func(f *ssa.Function, in ssa.Instruction, q int) (StateSet, bool) {
		if st, ok := in.(*ssa.Store); ok && inlineUnlink && f == fn {
			if side := unlinkRepairSide(fn, f, st); side != 0 {
				nq := q | side<<3
				if nq&24 == 24 {
					nq |= 1
				}
				return ss(nq), true
			}
		}
		switch x := in.(type) {
		case *ssa.Call:
			if cal := staticCallee(&x.Call); cal != nil && fname(cal) == "remove" && len(x.Call.Args) == 2 && (x.Call.Args[1] == ssa.Value(node) || x.Call.Args[0] == ssa.Value(node)) {
				return ss(q | 1), true
			}
			// a helper that clears the links of the node it is handed (node.detach()): stores of nil, in its entry block, to
			// prev / next of the parameter bound to node
			if cal := staticCallee(&x.Call); cal != nil && cal.Blocks != nil && fname(cal) != "remove" && rootFn(cal).Pkg == fn.Pkg && q&1 != 0 {
				nq := q
				for k, a := range x.Call.Args {
					if a != ssa.Value(node) || k >= len(cal.Params) {
						continue
					}
					for _, in2 := range cal.Blocks[0].Instrs {
						if st, ok := in2.(*ssa.Store); ok && isNilConst(st.Val) {
							if fa, ok := st.Addr.(*ssa.FieldAddr); ok && fa.X == ssa.Value(cal.Params[k]) {
								switch fieldName(fa.X.Type(), fa.Field) {
								case "prev":
									nq |= 2
								case "next":
									nq |= 4
								}
							}
						}
					}
				}
				if nq != q {
					return ss(nq), true
				}
			}
		case *ssa.Store:
			if fa, ok := x.Addr.(*ssa.FieldAddr); ok && fa.X == ssa.Value(node) && isNilConst(x.Val) && q&1 != 0 {
				switch fieldName(fa.X.Type(), fa.Field) {
				case "prev":
					return ss(q | 2), true
				case "next":
					return ss(q | 4), true
				}
			}
		}
		return 0, false
	}
	good := true
	early := false
	if inlineUnlink {
		// the splice needs the node's own links: they are written only once both sides are repaired
		pf.Visit = func(f *ssa.Function, in ssa.Instruction, before StateSet) {
			if st, ok := in.(*ssa.Store); ok && f == fn {
				if fa, ok := st.Addr.(*ssa.FieldAddr); ok && fa.X == ssa.Value(node) {
					before.each(func(q int) {
						if q&1 == 0 {
							early = true
						}
					})
				}
			}
		}
	}
	for _, e := range pf.Exits(fn, ss(0)) {
		e.States.each(func(q int) {
			if q&7 != 7 {
				good = false
			}
		})
		if e.States == 0 {
			good = false
		}
	}
	r.ok(good, "xlist.List.Remove|isolates-node", fn.Pos(), "Remove must unlink the node and then clear both its prev and next on every path")
	// remove() itself never writes node.prev/node.next of the removed node (it needs them to splice)
	rm := c.fn("container/xlist.List.remove")
	if inlineUnlink {
		r.ok(!early, "xlist.List.Remove|keeps-node-links", fn.Pos(), "the node's own links are modified before both its neighbours are repaired (the splice reads them)")
	}
	if rm != nil {
		touches := false
		instrs(rm, func(b *ssa.BasicBlock, i int, in ssa.Instruction) {
			if st, ok := in.(*ssa.Store); ok {
				_, rmNode := listAndNode(rm)
				if fa, ok := st.Addr.(*ssa.FieldAddr); ok && rmNode != nil && fa.X == ssa.Value(rmNode) {
					touches = true
				}
			}
		})
		r.ok(!touches, "xlist.List.remove|keeps-node-links", rm.Pos(), "the shared unlink helper must not modify the unlinked node's own links (Move* re-link it afterwards)")
	}
}

func ruleListNoop(c *Ctx, r *R) {
	for _, n := range []string{"MoveBefore", "MoveAfter"} {
		fn := c.fn("container/xlist.List." + n)
		if fn == nil {
			r.undecided("xlist.List."+n+"|missing", token.NoPos, "anchor not found")
			continue
		}
		// typestate: 0 = nothing known, 1 = node != mark established on this path. The test may live in a helper that reports it
		// through its boolean result (unlinkForMove); helper frames compare their own two node parameters.
		isNodePtr := func(v ssa.Value) bool {
			p, ok := v.(*ssa.Parameter)
			return ok && isNamedTypeDeep(p.Type(), "container/xlist", "Node")
		}
		pkgN := fn.Pkg
		pfn := &PF{N: 2, DeepVisit: true, InScope: func(f *ssa.Function) bool {
			return rootFn(origin(f)).Pkg == pkgN && f.Blocks != nil && origin(f) != fn && fname(origin(f)) != "remove"
		}}
		pfn.Edge = func(f *ssa.Function, g guard, q int) (StateSet, bool) {
			cf, ok := g.asCmp()
			if !ok || !isNodePtr(cf.x) || !isNodePtr(cf.y) || cf.x == cf.y {
				return 0, false
			}
			if cf.op == token.NEQ {
				return ss(1), true
			}
			return 0, false
		}
		all, any := true, false
		pfn.Visit = func(f *ssa.Function, in ssa.Instruction, before StateSet) {
			isMut := false
			if st, ok := in.(*ssa.Store); ok {
				if _, isLocal := st.Addr.(*ssa.Alloc); !isLocal {
					isMut = true
				}
			}
			if call, ok := in.(*ssa.Call); ok {
				if cal := staticCallee(&call.Call); cal != nil && fname(cal) == "remove" {
					isMut = true
				}
			}
			if !isMut {
				return
			}
			any = true
			if before.has(0) {
				all = false
			}
		}
		pfn.Exits(fn, ss(0))
		r.ok(all && any, "xlist.List."+n+"|noop-when-node-is-mark", fn.Pos(), "moving a node next to itself must be a no-op: every mutation must be under node != mark (remove(node) would otherwise unlink mark itself)")
	}
}

func ruleListMirror(c *Ctx, r *R) {
	p := "container/xlist.List."
	// every method whose name has a dual under prev<->next / front<->back / before<->after is paired with it;
	// a method whose name is its own dual and that touches links must be self-dual
	meths := c.methodsOf("container/xlist", "List")
	var names []string
	for n := range meths {
		names = append(names, n)
	}
	sort.Strings(names)
	done := map[string]bool{}
	for _, n := range names {
		dn := listDuality.ident(n)
		if dn == n {
			if n == "remove" || touchesLinks(meths[n]) && n != "Clear" && n != "Remove" && n != "Len" {
				selfDual(c, r, "xlist|"+n+"-self-dual", p+n, listDuality)
			}
			continue
		}
		if done[n] || meths[dn] == nil {
			continue
		}
		done[n], done[dn] = true, true
		a, b := n, dn
		// keep the historical key order: Front/Before first
		if strings.Contains(b, "Front") || strings.Contains(b, "Before") || strings.HasSuffix(b, "Prev") {
			a, b = b, a
		}
		mirrorPair(c, r, "xlist|"+a+"~"+b, p+a, p+b, listDuality)
	}
	// Node.Next / Node.Prev
	mirrorPair(c, r, "xlist|Node.Next~Node.Prev", "container/xlist.Node.Next", "container/xlist.Node.Prev", listDuality)
}

// ruleListLinkPairing: in the functions that splice nodes, every link store has its counterpart.
func ruleListLinkPairing(c *Ctx, r *R) {
	meths := c.methodsOf("container/xlist", "List")
	var mnames []string
	for n := range meths {
		mnames = append(mnames, n)
	}
	sort.Strings(mnames)
	for _, n := range mnames {
		fn := meths[n]
		touches := false
		instrs(fn, func(b *ssa.BasicBlock, i int, in ssa.Instruction) {
			if st, ok := in.(*ssa.Store); ok {
				if fa, ok := st.Addr.(*ssa.FieldAddr); ok {
					f := fieldName(fa.X.Type(), fa.Field)
					if f == "prev" || f == "next" || f == "front" || f == "back" {
						touches = true
					}
				}
			}
		})
		if !touches || n == "Clear" {
			continue
		}
		// collect link facts established by stores: X.next = Y  /  X.prev = Y  (paths as strings)
		type link struct{ x, f, y string }
		var links []link
		instrs(fn, func(b *ssa.BasicBlock, i int, in ssa.Instruction) {
			st, ok := in.(*ssa.Store)
			if !ok {
				return
			}
			fa, ok := st.Addr.(*ssa.FieldAddr)
			if !ok || !isNamedType(fa.X.Type(), "container/xlist", "Node") {
				return
			}
			f := fieldName(fa.X.Type(), fa.Field)
			if f != "prev" && f != "next" {
				return
			}
			links = append(links, link{path(fa.X), f, path(st.Val)})
		})
		// a node must never be linked to itself
		self := false
		for _, l := range links {
			if l.x == l.y {
				self = true
			}
		}
		r.ok(!self, "xlist.List."+n+"|no-self-link", fn.Pos(), "a node must never become its own neighbour")
		// end maintenance: a store to l.front / l.back is legitimate only (a) under a fresh test of that same end
		// (l.front == x, l.back == nil, ...) evaluated with nothing mutating the list in between, or (b) as the
		// unconditional store of the pushed end in PushFront / PushBack.
		k := 0
		instrs(fn, func(b *ssa.BasicBlock, i int, in ssa.Instruction) {
			st, ok := in.(*ssa.Store)
			if !ok {
				return
			}
			fa, ok := st.Addr.(*ssa.FieldAddr)
			if !ok || !isNamedType(fa.X.Type(), "container/xlist", "List") {
				return
			}
			f := fieldName(fa.X.Type(), fa.Field)
			if f != "front" && f != "back" {
				return
			}
			k++
			key := "xlist.List." + n + "|end-store:" + f + "#" + itoa(k)
			if (n == "PushFront" && f == "front") || (n == "PushBack" && f == "back") {
				r.discharged(key, st.Pos(), "the pushed end always becomes the new node")
				return
			}
			good := false
			why := "the store is not under a test of l." + f
			gs := guardsOf(b)
			// the ends worked on in locals and written back once (front, back := l.front, l.back; ...; if back == nil { back =
			// node }; l.front, l.back = front, back): the store writes the old value back except on the edges that bring another
			// one - the tests that lead to those edges are the tests the change is made under
			if phi, isPhi := st.Val.(*ssa.Phi); isPhi {
				unchanged := false
				var changing []int
				for ei, e := range phi.Edges {
					if ld, isLd := e.(*ssa.UnOp); isLd && ld.Op == token.MUL && path(ld) == "l."+f {
						unchanged = true
					} else {
						changing = append(changing, ei)
					}
				}
				if unchanged && len(changing) == 1 {
					pb := phi.Block().Preds[changing[0]]
					gs = append(append([]guard{}, guardsOf(pb)...), edgeGuard(pb, phi.Block())...)
					if len(pb.Instrs) > 0 {
						if _, isJump := pb.Instrs[len(pb.Instrs)-1].(*ssa.Jump); isJump {
							gs = append(gs, guardsOfSelf(pb)...)
						}
					}
				}
			}
			for _, g := range gs {
				cf, ok := g.asCmp()
				if !ok || cf.op != token.EQL {
					continue
				}
				var ld ssa.Value
				if path(cf.x) == "l."+f {
					ld = cf.x
				} else if path(cf.y) == "l."+f {
					ld = cf.y
				} else {
					continue
				}
				// the test must be fresh: the load of l.<end> sits in the branching block with no call or store to
				// the list after it
				li, ok := ld.(ssa.Instruction)
				if !ok {
					why = "the end test was evaluated before the list was modified (stale)"
					continue
				}
				// the test is fresh as long as nothing between the load of l.<end> and this store can have changed l.<end>: no
				// store to that same field and no call into the package on any path from the one to the other (stores to the
				// other end or to node links do not touch it; the value compared with is immutable)
				after := func(a, b ssa.Instruction) bool { // can b execute after a?
					if a.Block() == b.Block() {
						return idxIn(a) < idxIn(b)
					}
					return reaches(a.Block(), b.Block())
				}
				stale := false
				instrs(fn, func(_ *ssa.BasicBlock, _ int, x ssa.Instruction) {
					if x == ssa.Instruction(st) || !after(li, x) || !after(x, st) {
						return
					}
					switch y := x.(type) {
					case *ssa.Call:
						if cal := staticCallee(&y.Call); cal != nil && cal.Pkg == fn.Pkg {
							stale = true
						}
					case *ssa.Store:
						if fa2, ok := y.Addr.(*ssa.FieldAddr); ok && isNamedType(fa2.X.Type(), "container/xlist", "List") && fieldName(fa2.X.Type(), fa2.Field) == f {
							stale = true
						}
					}
				})
				if stale {
					why = "the end test was evaluated before the list was modified (stale)"
					continue
				}
				good = true
			}
			r.ok(good, key, st.Pos(), "an end pointer may change only under a fresh test that the affected node is at that end: "+why+" (otherwise the first node keeps a Prev / the last a Next, or an end points into the middle)")
		})
	}
}

var _ = late(func() {
	p := properties["C06"]
	p.Rules = append(p.Rules, &Rule{ID: "C06.unlink-both-sides", Floor: 1, Clause: "on every path through remove the predecessor side is repaired (l.front moved on, or node.prev.next = node.next) and the successor side is repaired (l.back moved back, or node.next.prev = node.prev)",
		Run: ruleListUnlinkBothSides})
})

func ruleListUnlinkBothSides(c *Ctx, r *R) {
	fn := c.fn("container/xlist.List.remove")
	if fn == nil {
		// the unlinking written out in the methods that need it (Remove, MoveBefore, MoveAfter): each of them is judged like
		// remove - a path on which one side is repaired has the other repaired too - and a path through Remove repairs both
		found := false
		for _, n := range []string{"Remove", "MoveBefore", "MoveAfter"} {
			host := c.fn("container/xlist.List." + n)
			if host == nil {
				continue
			}
			pkgL := host.Pkg
			pf := &PF{N: 4, InScope: func(f *ssa.Function) bool { return unlinkHelperOf(host, f, pkgL) }}
			any := false
			pf.Instr = func(f *ssa.Function, in ssa.Instruction, q int) (StateSet, bool) {
				if st, ok := in.(*ssa.Store); ok {
					if side := unlinkRepairSide(host, f, st); side != 0 {
						any = true
						return ss(q | side), true
					}
				}
				return 0, false
			}
			good, some := true, false
			pos := host.Pos()
			for _, e := range pf.Exits(host, ss(0)) {
				if e.States.has(1) || e.States.has(2) || (n == "Remove" && e.States != ss(3)) {
					good = false
					pos = retPos(e.Ret)
				}
				if e.States.has(3) {
					some = true
				}
			}
			if !any {
				continue
			}
			found = true
			r.ok(good && some, "xlist.List."+n+"|both-sides", pos, "a path through "+n+" leaves one side of the unlinked node un-repaired: the surviving neighbour (or the list end) still points at the node, so one of the two walks visits it where it was")
		}
		if !found {
			r.undecided("xlist.List.remove|missing", token.NoPos, "anchor not found")
		}
		return
	}
	pkgL := fn.Pkg
	// helpers of the same shape (receiver, node) that remove is split into are followed (bypassForward / bypassBackward)
	pf := &PF{N: 4, InScope: func(f *ssa.Function) bool { return unlinkHelperOf(fn, f, pkgL) }} // bit0 = predecessor side repaired, bit1 = successor side repaired
	pf.Instr = func(f *ssa.Function, in ssa.Instruction, q int) (StateSet, bool) {
		st, ok := in.(*ssa.Store)
		if !ok {
			return 0, false
		}
		if side := unlinkRepairSide(fn, f, st); side != 0 {
			return ss(q | side), true
		}
		return 0, false
	}
	good := true
	var bad *ssa.Return
	for _, e := range pf.Exits(fn, ss(0)) {
		if e.States != ss(3) {
			good = false
			bad = e.Ret
		}
	}
	pos := fn.Pos()
	if bad != nil {
		pos = retPos(bad)
	}
	r.ok(good, "xlist.List.remove|both-sides", pos, "a path through remove leaves one side of the removed node un-repaired: the surviving neighbour (or the list end) still points at the removed node, so one of the two walks visits it")
}

// unlinkHelperOf: f is a helper of the same shape (list, node) in the list's package that host's unlinking is split into.
func unlinkHelperOf(host, f *ssa.Function, pkgL *ssa.Package) bool {
	sameT := func(a, b types.Type) bool {
		return types.Identical(origType(derefType(a)), origType(derefType(b)))
	}
	if !(rootFn(origin(f)).Pkg == pkgL && f.Blocks != nil && origin(f) != host && len(f.Params) == 2) {
		return false
	}
	l0, n0 := listAndNode(host)
	l1, n1 := listAndNode(f)
	return l0 != nil && n0 != nil && l1 != nil && n1 != nil && sameT(l0.Type(), l1.Type()) && sameT(n0.Type(), n1.Type())
}

// unlinkRepairSide: the store st in f repairs the predecessor side (1: l.front moved on, or node.prev.next = node.next) or
// the successor side (2: l.back moved back, or node.next.prev = node.prev) of the node f unlinks; 0 otherwise. host is the
// function the walk started in (helpers in its package that hand out the address written to are looked through).
func unlinkRepairSide(host, f *ssa.Function, st *ssa.Store) int {
	// the places a store can write to: the address itself, or - `*l.forwardLink(node) = …` - each address the in-package helper
	// can return (in the caller's terms)
	alternatives := func(addr ssa.Value) []string {
		if call, ok := addr.(*ssa.Call); ok {
			if cal := staticCallee(&call.Call); cal != nil && cal.Blocks != nil && rootFn(cal).Pkg == rootFn(host).Pkg {
				var out []string
				for _, rv := range returnedBy(cal, 0) {
					out = append(out, addrProv(rv, provEnv{chain: []*ssa.Call{call}}).String())
				}
				return out
			}
		}
		return []string{addrProv(addr, provEnv{}).String()}
	}
	lp, np := listAndNode(f)
	if lp == nil || np == nil {
		return 0
	}
	l, node := "param:"+pname(lp), "param:"+pname(np)
	alts := alternatives(st.Addr)
	vp := valueProv(st.Val, provEnv{}).String()
	allIn := func(set ...string) bool {
		for _, a := range alts {
			found := false
			for _, s := range set {
				if a == s {
					found = true
				}
			}
			if !found {
				return false
			}
		}
		return len(alts) > 0
	}
	switch {
	case allIn(l+".front", node+".prev.next") && (vp == node+".next" || (vp == l+".front.next" && allIn(l+".front"))):
		return 1
	case allIn(l+".back", node+".next.prev") && (vp == node+".prev" || (vp == l+".back.prev" && allIn(l+".back"))):
		return 2
	}
	return 0
}

func touchesLinks(fn *ssa.Function) bool {
	res := false
	instrs(fn, func(b *ssa.BasicBlock, i int, in ssa.Instruction) {
		if st, ok := in.(*ssa.Store); ok {
			if fa, ok := st.Addr.(*ssa.FieldAddr); ok {
				switch fieldName(fa.X.Type(), fa.Field) {
				case "prev", "next", "front", "back":
					res = true
				}
			}
		}
	})
	return res
}

// isZeroStruct: v is the zero value of a struct type: a zero constant, or the load of a fresh composite literal no field of
// which was ever assigned.
func isZeroStruct(v ssa.Value) bool {
	if k, ok := v.(*ssa.Const); ok && k.Value == nil {
		_, isSt := k.Type().Underlying().(*types.Struct)
		return isSt
	}
	ld, ok := v.(*ssa.UnOp)
	if !ok || ld.Op != token.MUL {
		return false
	}
	al, ok := ld.X.(*ssa.Alloc)
	if !ok {
		return false
	}
	if _, isSt := al.Type().Underlying().(*types.Pointer).Elem().Underlying().(*types.Struct); !isSt {
		return false
	}
	for _, ref := range refsOf(al) {
		switch x := ref.(type) {
		case *ssa.UnOp, *ssa.DebugRef:
		case *ssa.Store:
			if x.Addr == ssa.Value(al) {
				return false
			}
		default:
			return false // a field address (assignment) or an escape
		}
	}
	return true
}

// listAndNode: the list and the node a helper works on, by type (the unlink helper may be a method of either:
// l.remove(node) / node.unlinkFrom(l)).
func listAndNode(f *ssa.Function) (l, node *ssa.Parameter) {
	for _, p := range f.Params {
		if isNamedTypeDeep(p.Type(), "container/xlist", "List") && l == nil {
			l = p
		}
		if isNamedTypeDeep(p.Type(), "container/xlist", "Node") && node == nil {
			node = p
		}
	}
	return
}
