package main

import (
	"go/token"
	"go/types"
	"sort"
	"strings"

	"golang.org/x/tools/go/ssa"
)

// E-LS: must-held lockset. A lock is named by the access path of its mutex ("t.m", "iter.m"); the
// mode is 'W' or 'R'.
type lockset map[string]byte

func (l lockset) clone() lockset {
	o := lockset{}
	for k, v := range l {
		o[k] = v
	}
	return o
}

func meetLocks(a, b lockset) lockset {
	if a == nil {
		return b.clone()
	}
	o := lockset{}
	for k, v := range a {
		if w, ok := b[k]; ok {
			if v == 'R' || w == 'R' {
				if v == w {
					o[k] = v
				} else {
					o[k] = 'R'
				}
			} else {
				o[k] = 'W'
			}
		}
	}
	return o
}

func (l lockset) String() string {
	var ks []string
	for k, v := range l {
		ks = append(ks, k+":"+string(v))
	}
	sort.Strings(ks)
	return "{" + strings.Join(ks, ",") + "}"
}

// lockEvent: is this call a Lock/Unlock/RLock/RUnlock of a sync mutex (or sync.Locker)? Returns the mutex path.
func lockEvent(cc *ssa.CallCommon) (mutex string, op string) {
	if cc.IsInvoke() {
		// sync.Locker interface: c.L.Lock()
		switch cc.Method.Name() {
		case "Lock", "Unlock":
			// shared := c.m.RLocker(); shared.Lock(): the read side of c.m
			if rc, ok := resolveVal(cc.Value).(*ssa.Call); ok {
				if cal := rc.Call.StaticCallee(); cal != nil && cal.Name() == "RLocker" && cal.Signature.Recv() != nil && isNamedType(cal.Signature.Recv().Type(), "sync", "RWMutex") && len(rc.Call.Args) == 1 {
					return path(rc.Call.Args[0]), "R" + cc.Method.Name()
				}
			}
			return path(cc.Value), cc.Method.Name()
		}
		return "", ""
	}
	f := cc.StaticCallee()
	if f == nil || f.Signature.Recv() == nil {
		return "", ""
	}
	rt := f.Signature.Recv().Type()
	if !(isNamedType(rt, "sync", "Mutex") || isNamedType(rt, "sync", "RWMutex")) {
		return "", ""
	}
	switch f.Name() {
	case "Lock", "Unlock", "RLock", "RUnlock":
		return path(cc.Args[0]), f.Name()
	}
	return "", ""
}

// locksIn computes the lockset held before every instruction of fn, given the entry lockset.
func locksIn(fn *ssa.Function, entry lockset) map[ssa.Instruction]lockset {
	in := make([]lockset, len(fn.Blocks))
	in[0] = entry.clone()
	if in[0] == nil {
		in[0] = lockset{}
	}
	out := map[ssa.Instruction]lockset{}
	work := []*ssa.BasicBlock{fn.Blocks[0]}
	for iter := 0; len(work) > 0 && iter < 10000; iter++ {
		b := work[0]
		work = work[1:]
		cur := in[b.Index].clone()
		for _, ins := range b.Instrs {
			out[ins] = cur.clone()
			if call, ok := ins.(*ssa.Call); ok {
				if m, op := lockEvent(&call.Call); m != "" {
					switch op {
					case "Lock":
						cur[m] = 'W'
					case "RLock":
						cur[m] = 'R'
					case "Unlock", "RUnlock":
						delete(cur, m)
					}
				} else if m, op := boundLockEvent(call); m != "" {
					// release() where release is the method value c.m.RUnlock handed back by an acquiring helper
					switch op {
					case "Lock":
						cur[m] = 'W'
					case "RLock":
						cur[m] = 'R'
					case "Unlock", "RUnlock":
						delete(cur, m)
					}
				} else {
					// a helper that returns with a lock held on every path (ch, release := c.acquireCurrent())
					for m, mode := range acquiredByCallee(call) {
						cur[m] = mode
					}
					// ... and its counterpart that only lets a lock go (c.unpinChan(): c.m.RUnlock())
					for _, m := range releasedByCallee(call) {
						delete(cur, m)
					}
				}
			}
		}
		for _, s := range b.Succs {
			var nw lockset
			if in[s.Index] == nil {
				nw = cur.clone()
			} else {
				nw = meetLocks(in[s.Index], cur)
				if len(nw) == len(in[s.Index]) {
					same := true
					for k, v := range nw {
						if in[s.Index][k] != v {
							same = false
						}
					}
					if same {
						continue
					}
				}
			}
			in[s.Index] = nw
			work = append(work, s)
		}
	}
	return out
}

// entryLocks: for an unexported method/function, the intersection over all static call sites of the
// caller's lockset translated to the callee's parameter names. Closures and exported functions start empty.
func entryLocks(c *Ctx, fn *ssa.Function, depth int) lockset {
	if depth > 3 {
		return lockset{}
	}
	if fn.Parent() != nil {
		// a function literal handed to a lock wrapper (t.locked(func() { … })): it runs with what the wrapper holds around the
		// call of its parameter
		if ls := wrapperLocks(c, fn, depth); len(ls) > 0 {
			return ls
		}
		// a literal that its maker hands back to be called later (current := t.newGeneration(); ...; if current() {...}): what
		// every one of its call sites holds (by access path: the literal and its callers name the same object alike)
		return returnedLiteralLocks(c, fn, depth)
	}
	if exportedName(fn.Name()) {
		return lockset{}
	}
	var res lockset
	found := false
	// a bound method handed to a lock wrapper (t.locked(t.schedule)) is a call site too
	for _, caller := range c.Funcs {
		instrs(caller, func(b *ssa.BasicBlock, i int, in ssa.Instruction) {
			call, ok := in.(*ssa.Call)
			if !ok {
				return
			}
			for ai, a := range call.Call.Args {
				mc, ok := a.(*ssa.MakeClosure)
				if !ok || len(mc.Bindings) != 1 {
					continue
				}
				bf, ok := mc.Fn.(*ssa.Function)
				if !ok || !strings.HasSuffix(bf.Name(), "$bound") || bf.Object() == nil || bf.Object() != fn.Object() {
					continue
				}
				found = true
				tr := lockset{}
				rp := path(mc.Bindings[0])
				for lk, mode := range heldAroundParam(c, call, ai, depth) {
					if strings.HasPrefix(lk, rp+".") && len(fn.Params) > 0 {
						tr[pname(fn.Params[0])+lk[len(rp):]] = mode
					}
				}
				if res == nil {
					res = tr
				} else {
					res = meetLocks(res, tr)
				}
			}
		})
	}
	for _, caller := range c.Funcs {
		if caller == fn {
			continue
		}
		var sites []*ssa.Call
		instrs(caller, func(b *ssa.BasicBlock, i int, in ssa.Instruction) {
			if call, ok := in.(*ssa.Call); ok {
				if cal := staticCallee(&call.Call); cal == fn {
					sites = append(sites, call)
				}
			}
		})
		if len(sites) == 0 {
			continue
		}
		held := locksIn(caller, entryLocks(c, caller, depth+1))
		for _, call := range sites {
			found = true
			tr := lockset{}
			for lk, mode := range held[call] {
				for i, a := range call.Call.Args {
					ap := path(a)
					if strings.HasPrefix(lk, ap+".") && i < len(fn.Params) {
						tr[pname(fn.Params[i])+lk[len(ap):]] = mode
					}
				}
			}
			if res == nil {
				res = tr
			} else {
				res = meetLocks(res, tr)
			}
		}
	}
	if !found || res == nil {
		return lockset{}
	}
	return res
}

// guardedAccesses checks that every access to field `field` of struct type (pkgSuffix, typ) happens with the
// mutex field `mu` of the same base held (W for stores, R or W for loads). Accesses through a freshly
// allocated object (base is an Alloc of this function) are exempt.
func guardedAccesses(c *Ctx, r *R, prefix, pkgSuffix, typ, field, mu string) {
	for _, fn := range c.Funcs {
		n := 0
		var held map[ssa.Instruction]lockset
		instrs(fn, func(b *ssa.BasicBlock, i int, in ssa.Instruction) {
			var fa *ssa.FieldAddr
			write := false
			switch x := in.(type) {
			case *ssa.Store:
				if f, ok := x.Addr.(*ssa.FieldAddr); ok {
					fa = f
					write = true
				}
			case *ssa.UnOp:
				if f, ok := x.X.(*ssa.FieldAddr); ok {
					fa = f
				}
			}
			if fa == nil || fieldName(fa.X.Type(), fa.Field) != field {
				return
			}
			owner := fa.X
			if !isNamedType(owner.Type(), pkgSuffix, typ) {
				// the field lives in a struct that the type holds by value (t.armed.gen): the guarding mutex is the outer one
				inner, ok := owner.(*ssa.FieldAddr)
				if !ok || !isNamedType(inner.X.Type(), pkgSuffix, typ) {
					return
				}
				owner = inner.X
			}
			base := fa.X
			for {
				if inner, ok := base.(*ssa.FieldAddr); ok {
					base = inner.X
					continue
				}
				break
			}
			if _, fresh := base.(*ssa.Alloc); fresh {
				return // initialisation of an object nobody else can see yet (possibly of a struct nested in it)
			}
			// ... also through an initialiser method that is only ever called on such an object (c := new(ContextCond);
			// c.initialize(l))
			if p, isP := base.(*ssa.Parameter); isP && p.Parent() == fn && fn.Parent() == nil && !token.IsExported(fn.Name()) {
				pi := -1
				for k, q := range fn.Params {
					if q == p {
						pi = k
					}
				}
				sites := callSitesOf(c, fn)
				allFresh := pi >= 0 && len(sites) > 0
				for _, site := range sites {
					if pi >= len(site.Call.Args) {
						allFresh = false
						break
					}
					// the object was allocated in the very block that makes the call, and has not been handed to anything
					// before it (no closure captured it, it was not stored or passed on)
					al, isAlloc := site.Call.Args[pi].(*ssa.Alloc)
					if !isAlloc || al.Block() != site.Block() {
						allFresh = false
						break
					}
					for _, ref := range refsOf(al) {
						if ref == ssa.Instruction(site) || ref.Block() != site.Block() || idxIn(ref) > idxIn(site) {
							continue
						}
						switch y := ref.(type) {
						case *ssa.FieldAddr, *ssa.DebugRef:
						case *ssa.Store:
							if y.Val == ssa.Value(al) {
								allFresh = false
							}
						default:
							allFresh = false
						}
					}
				}
				if allFresh {
					return
				}
			}
			if held == nil {
				held = locksIn(fn, entryLocks(c, fn, 0))
			}
			n++
			kind := "read"
			if write {
				kind = "write"
			}
			key := prefix + "|" + c.nameOf(fn) + "|" + kind + ":" + path(fa) + "#" + itoa(n)
			want := path(owner) + "." + mu
			mode, ok := held[in][want]
			good := ok && (!write || mode == 'W')
			r.ok(good, key, in.Pos(), kind+" of "+typ+"."+field+" without holding "+want+" (held: "+held[in].String()+")")
		})
	}
}

// deepLocks: the locks certainly held at a deep instruction (deep.go) of root: the lockset is carried along the call chain -
// locks named through an argument are renamed to the callee's parameter, locks the callee cannot name are kept (it cannot
// release what it cannot reach) under the key "outer:<caller path>".
func deepLocks(root *ssa.Function, d deepInstr) lockset {
	cur := root
	entry := lockset{}
	outer := lockset{}
	outerByFrame := map[int]lockset{} // locks a frame holds that the next callee cannot name, in that frame's own terms
	var entered []*ssa.Call
	for _, call := range d.calls {
		if call.Parent() != cur {
			break
		}
		held := locksIn(cur, entry)[call]
		cal := staticCallee(&call.Call)
		if cal == nil {
			break
		}
		entered = append(entered, call)
		next := lockset{}
		for lk, mode := range held {
			translated := false
			for i, a := range call.Call.Args {
				ap := path(a)
				if strings.HasPrefix(lk, ap+".") && i < len(cal.Params) {
					next[pname(cal.Params[i])+lk[len(ap):]] = mode
					translated = true
				}
			}
			if !translated {
				fi := len(entered) - 1 // (this call has been appended: the frame is the one it sits in)
				if outerByFrame[fi] == nil {
					outerByFrame[fi] = lockset{}
				}
				outerByFrame[fi][lk] = mode
			}
		}
		entry = next
		cur = cal
	}
	out := lockset{}
	if d.in.Parent() == cur {
		for k, v := range locksIn(cur, entry)[d.in] {
			out[k] = v
		}
	} else {
		// a deferred closure of the frame: it runs at the frame's exits; only the outer locks are certain
		entry2 := lockset{}
		if curCtx != nil && d.in.Parent().Parent() != nil {
			entry2 = entryLocks(curCtx, d.in.Parent(), 0) // a literal handed to a lock wrapper runs under the wrapper's locks
		}
		for k, v := range locksIn(d.in.Parent(), entry2)[d.in] {
			out[k] = v
		}
	}
	// a lock the helper takes on one of its parameters (withLock(&g.m, f): l.Lock(); f(); l.Unlock()) is, in the root's terms,
	// the lock named by the argument
	backRename := func(set lockset, through *ssa.Call) lockset {
		cal := staticCallee(&through.Call)
		ren := lockset{}
		for lk, mode := range set {
			done := false
			for k, a := range through.Call.Args {
				if cal == nil || k >= len(cal.Params) {
					continue
				}
				pn := pname(cal.Params[k])
				if mi, ok := a.(*ssa.MakeInterface); ok {
					a = mi.X
				}
				m2 := mode
				// c.m.RLocker() handed over as the Locker: its Lock is a read lock of c.m
				if rc, ok := a.(*ssa.Call); ok {
					if rcal := rc.Call.StaticCallee(); rcal != nil && rcal.Name() == "RLocker" && len(rc.Call.Args) == 1 {
						a, m2 = rc.Call.Args[0], 'R'
					}
				}
				if lk == pn || strings.HasPrefix(lk, pn+".") {
					ren[path(a)+lk[len(pn):]] = m2
					done = true
				}
			}
			if !done {
				ren[lk] = mode
			}
		}
		return ren
	}
	for i := len(entered) - 1; i >= 0; i-- {
		out = backRename(out, entered[i])
	}
	// what an intermediate frame held in its own terms (holding(l, f): l is held around f()), named in the root's terms
	for fi, set := range outerByFrame {
		for i := fi - 1; i >= 0; i-- {
			set = backRename(set, entered[i])
		}
		for lk, mode := range set {
			outer["outer:"+lk] = mode
		}
	}
	for k, v := range outer {
		out[k] = v
	}
	return out
}

// heldSuffix: is a mutex whose path ends in .field held (mode 'W' required when write)?
func (l lockset) heldSuffix(field string, write bool) bool {
	for lk, m := range l {
		if strings.HasSuffix(lk, "."+field) && (!write || m == 'W') {
			return true
		}
	}
	return false
}

// heldAroundParam: call hands a function value as argument #ai to a static in-module callee H; the locks H certainly holds
// whenever it calls that parameter, named in the CALLER's terms (H's parameter names replaced by the paths of the arguments).
// Empty when H does anything with the parameter other than calling it (it may then run later, without the locks).
func heldAroundParam(c *Ctx, call *ssa.Call, ai int, depth int) lockset {
	h := staticCallee(&call.Call)
	if h == nil || h.Blocks == nil || !c.inModule(h) || ai >= len(h.Params) {
		return lockset{}
	}
	h = origin(h)
	prm := h.Params[ai]
	if prm.Referrers() == nil {
		return lockset{}
	}
	held := locksIn(h, entryLocks(c, h, depth+1))
	var res lockset
	for _, ref := range *prm.Referrers() {
		if _, isDbg := ref.(*ssa.DebugRef); isDbg {
			continue
		}
		pc, ok := ref.(*ssa.Call)
		if !ok || pc.Call.Value != ssa.Value(prm) {
			return lockset{} // stored, passed on, deferred or started as a goroutine
		}
		if res == nil {
			res = held[pc].clone()
		} else {
			res = meetLocks(res, held[pc])
		}
	}
	out := lockset{}
	for lk, mode := range res {
		for i, a := range call.Call.Args {
			if i < len(h.Params) {
				pn := pname(h.Params[i])
				if strings.HasPrefix(lk, pn+".") {
					out[path(a)+lk[len(pn):]] = mode
				}
				// the lock IS the parameter (holding(l sync.Locker, f func())): the caller's &c.m, or c.m.RLocker() - a read lock
				if lk == pn {
					av := stripChange(a)
					m2 := mode
					if rc, ok := av.(*ssa.Call); ok {
						if cal := rc.Call.StaticCallee(); cal != nil && cal.Name() == "RLocker" && len(rc.Call.Args) == 1 {
							av, m2 = rc.Call.Args[0], 'R'
						}
					}
					out[path(av)] = m2
				}
			}
		}
	}
	return out
}

// wrapperLocks: the entry lockset of a function literal: when its only use is as an argument of a lock wrapper, what the
// wrapper holds around the call.
func wrapperLocks(c *Ctx, fn *ssa.Function, depth int) lockset {
	parent := fn.Parent()
	var res lockset
	okAll := true
	n := 0
	instrs(parent, func(b *ssa.BasicBlock, i int, in ssa.Instruction) {
		var val ssa.Value
		if mc, ok := in.(*ssa.MakeClosure); ok && mc.Fn == ssa.Value(fn) {
			val = mc
		}
		if val == nil {
			return
		}
		refs := val.(*ssa.MakeClosure).Referrers()
		if refs == nil {
			return
		}
		for _, ref := range *refs {
			if _, isDbg := ref.(*ssa.DebugRef); isDbg {
				continue
			}
			call, ok := ref.(*ssa.Call)
			if !ok {
				okAll = false
				continue
			}
			ai := -1
			for k, a := range call.Call.Args {
				if a == val {
					ai = k
				}
			}
			if ai < 0 {
				okAll = false
				continue
			}
			n++
			l := heldAroundParam(c, call, ai, depth)
			if res == nil {
				res = l
			} else {
				res = meetLocks(res, l)
			}
		}
	})
	// capture-free literals are used as plain function values
	if n == 0 {
		instrs(parent, func(b *ssa.BasicBlock, i int, in ssa.Instruction) {
			call, ok := in.(*ssa.Call)
			if !ok {
				return
			}
			for k, a := range call.Call.Args {
				if a == ssa.Value(fn) {
					n++
					l := heldAroundParam(c, call, k, depth)
					if res == nil {
						res = l
					} else {
						res = meetLocks(res, l)
					}
				}
			}
		})
	}
	if !okAll || n == 0 || res == nil {
		return lockset{}
	}
	return res
}

var acquiredMemo = map[*ssa.Function]lockset{}
var acquiredBusy = map[*ssa.Function]bool{}

// acquiredByCallee: the locks an in-package helper holds at EVERY return although it did not hold them on entry, renamed from
// the helper's parameters to the call's arguments.
func acquiredByCallee(call *ssa.Call) lockset {
	cal := staticCallee(&call.Call)
	if cal == nil || cal.Blocks == nil || call.Parent() == nil || rootFn(origin(cal)).Pkg != rootFn(call.Parent()).Pkg || cal.Parent() != nil {
		return nil
	}
	o := origin(cal)
	sum, ok := acquiredMemo[o]
	if !ok {
		if acquiredBusy[o] {
			return nil
		}
		acquiredBusy[o] = true
		held := locksIn(o, lockset{})
		var at lockset
		n := 0
		for _, b := range o.Blocks {
			if ret, ok := b.Instrs[len(b.Instrs)-1].(*ssa.Return); ok {
				n++
				if at == nil {
					at = held[ret].clone()
				} else {
					at = meetLocks(at, held[ret])
				}
			}
		}
		// deferred unlocks run at the return: a helper that defers its Unlock holds nothing afterwards
		hasDeferredUnlock := false
		instrs(o, func(_ *ssa.BasicBlock, _ int, in ssa.Instruction) {
			if d, ok := in.(*ssa.Defer); ok {
				if _, op := lockEvent(&d.Call); op == "Unlock" || op == "RUnlock" {
					hasDeferredUnlock = true
				}
			}
		})
		if n == 0 || hasDeferredUnlock {
			at = lockset{}
		}
		delete(acquiredBusy, o)
		acquiredMemo[o] = at
		sum = at
	}
	if len(sum) == 0 {
		return nil
	}
	out := lockset{}
	for lk, mode := range sum {
		for i, a := range call.Call.Args {
			if i < len(o.Params) {
				pn := pname(o.Params[i])
				if strings.HasPrefix(lk, pn+".") {
					out[path(a)+lk[len(pn):]] = mode
				}
			}
		}
	}
	return out
}

// boundLockEvent: call invokes a function VALUE that is a bound method of a sync mutex (release := c.m.RUnlock; release()),
// possibly handed back as a result of an in-package helper; returns the mutex path in the caller's terms and the operation.
func boundLockEvent(call *ssa.Call) (string, string) {
	if call.Call.IsInvoke() {
		return "", ""
	}
	switch call.Call.Value.(type) {
	case *ssa.Function, *ssa.Builtin:
		return "", ""
	}
	if _, isSig := call.Call.Value.Type().Underlying().(*types.Signature); !isSig {
		return "", ""
	}
	ls := valueLeaves(call.Call.Value, nil, 0)
	if len(ls) != 1 {
		return "", ""
	}
	mc, ok := ls[0].v.(*ssa.MakeClosure)
	if !ok || len(mc.Bindings) != 1 {
		return "", ""
	}
	bf, ok := mc.Fn.(*ssa.Function)
	if !ok || !strings.HasSuffix(bf.Name(), "$bound") {
		return "", ""
	}
	name := strings.TrimSuffix(bf.Name(), "$bound")
	switch name {
	case "Lock", "Unlock", "RLock", "RUnlock":
	default:
		return "", ""
	}
	bt := mc.Bindings[0].Type()
	if !(isNamedType(bt, "sync", "Mutex") || isNamedType(bt, "sync", "RWMutex")) {
		if pt, ok := bt.Underlying().(*types.Pointer); !ok || !(isNamedType(pt.Elem(), "sync", "Mutex") || isNamedType(pt.Elem(), "sync", "RWMutex")) {
			return "", ""
		}
	}
	// the receiver, in the caller's terms (the closure may have been made inside the helper)
	pv := addrProv(mc.Bindings[0], provEnv{chain: ls[0].chain})
	m := pv.String()
	m = strings.TrimPrefix(m, "param:")
	return m, name
}

// returnedLiteralLocks: fn is a function literal that its enclosing function returns; the locks held at every call that
// resolves to it (intersection), empty when there is no such call or the literal is used in any other way we can see.
func returnedLiteralLocks(c *Ctx, fn *ssa.Function, depth int) lockset {
	parent := fn.Parent()
	if parent == nil {
		return lockset{}
	}
	returned := false
	for _, rv := range returnedBy(parent, 0) {
		if mc, ok := rv.(*ssa.MakeClosure); ok && mc.Fn == ssa.Value(fn) {
			returned = true
		}
	}
	if !returned {
		return lockset{}
	}
	var res lockset
	n := 0
	for _, host := range c.Funcs {
		if rootFn(host).Pkg != rootFn(fn).Pkg || host == fn {
			continue
		}
		var held map[ssa.Instruction]lockset
		instrs(host, func(_ *ssa.BasicBlock, _ int, in ssa.Instruction) {
			call, ok := in.(*ssa.Call)
			if !ok || call.Call.IsInvoke() {
				return
			}
			if _, isLd := call.Call.Value.(*ssa.UnOp); !isLd {
				return
			}
			if resolveFuncValue(call.Call.Value, 0) != fn {
				return
			}
			if held == nil {
				held = locksIn(host, entryLocks(c, host, depth+1))
			}
			n++
			if res == nil {
				res = held[call].clone()
			} else {
				res = meetLocks(res, held[call])
			}
		})
	}
	if n == 0 || res == nil {
		return lockset{}
	}
	return res
}

// releasedByCallee: call's static in-package callee is a straight-line function that unlocks mutexes it did not lock itself
// (func (c *ContextCond) unpinChan() { c.m.RUnlock() }): their paths in the caller's terms.
func releasedByCallee(call *ssa.Call) []string {
	cal := staticCallee(&call.Call)
	if cal == nil || cal.Blocks == nil || len(cal.Blocks) != 1 || call.Parent() == nil || cal.Parent() != nil || rootFn(origin(cal)).Pkg != rootFn(call.Parent()).Pkg {
		return nil
	}
	o := origin(cal)
	locked := map[string]bool{}
	var out []string
	for _, in := range o.Blocks[0].Instrs {
		c2, ok := in.(*ssa.Call)
		if !ok {
			continue
		}
		m, op := lockEvent(&c2.Call)
		if m == "" {
			continue
		}
		switch op {
		case "Lock", "RLock":
			locked[m] = true
		case "Unlock", "RUnlock":
			if locked[m] {
				delete(locked, m)
				continue
			}
			for i, a := range call.Call.Args {
				if i < len(o.Params) {
					pn := pname(o.Params[i])
					if strings.HasPrefix(m, pn+".") {
						out = append(out, path(a)+m[len(pn):])
					}
				}
			}
		}
	}
	return out
}
