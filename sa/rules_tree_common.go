package main

import (
	"go/constant"
	"go/token"
	"strings"

	"golang.org/x/tools/go/ssa"
)

const treeRel = "container/tree"

func bt(c *Ctx, n string) *ssa.Function  { return c.fn(treeRel + ".btree." + n) }
func cur(c *Ctx, n string) *ssa.Function { return c.fn(treeRel + ".cursor." + n) }

// nodeArray: v is (an address into / a slice of) X.keys, X.values or X.children for a *node X.
func nodeArray(v ssa.Value) (node ssa.Value, arr string, ok bool) {
	for d := 0; d < 8; d++ {
		switch x := v.(type) {
		case *ssa.FieldAddr:
			f := fieldName(x.X.Type(), x.Field)
			if isNamedType(x.X.Type(), treeRel, "node") && (f == "keys" || f == "values" || f == "children") {
				return x.X, f, true
			}
			return nil, "", false
		case *ssa.IndexAddr:
			v = x.X
		case *ssa.Slice:
			v = x.X
		case *ssa.UnOp:
			if x.Op != token.MUL {
				return nil, "", false
			}
			v = x.X
		default:
			return nil, "", false
		}
	}
	return nil, "", false
}

// structuralEvent: does the instruction change the tree's structure (n, keys, children, parent, root)?
func treeStructural(in ssa.Instruction) (bool, string) {
	switch x := in.(type) {
	case *ssa.Store:
		if fa, ok := x.Addr.(*ssa.FieldAddr); ok {
			f := fieldName(fa.X.Type(), fa.Field)
			if isNamedType(fa.X.Type(), treeRel, "node") && (f == "n" || f == "parent") {
				if _, fresh := fa.X.(*ssa.Alloc); fresh {
					return false, ""
				}
				return true, "node." + f
			}
			if isNamedType(fa.X.Type(), treeRel, "btree") && f == "root" {
				return true, "btree.root"
			}
		}
		if nd, arr, ok := nodeArray(x.Addr); ok && arr != "values" {
			if _, fresh := nd.(*ssa.Alloc); fresh {
				return false, ""
			}
			return true, "node." + arr + "[·]"
		}
	case *ssa.Call:
		cal := staticCallee(&x.Call)
		name := ""
		if cal != nil {
			name = fname(cal)
		} else if bi, ok := x.Call.Value.(*ssa.Builtin); ok {
			name = bi.Name()
		}
		switch name {
		case "insertOne", "removeOne", "copy", "Clear":
			if len(x.Call.Args) > 0 {
				if _, arr, ok := nodeArray(x.Call.Args[0]); ok && arr != "values" {
					return true, name + "(node." + arr + ")"
				}
			}
		}
	}
	return false, ""
}

// evalConst folds an SSA value to an integer constant where possible (constants, + - * /, conversions, calls of
// functions whose every return is such a constant).
func evalConst(v ssa.Value, depth int) (int64, bool) {
	if depth > 8 {
		return 0, false
	}
	switch x := v.(type) {
	case *ssa.Const:
		if x.Value != nil && x.Value.Kind() == constant.Int {
			n, ok := constant.Int64Val(x.Value)
			return n, ok
		}
	case *ssa.Convert:
		return evalConst(x.X, depth+1)
	case *ssa.ChangeType:
		return evalConst(x.X, depth+1)
	case *ssa.BinOp:
		a, ok1 := evalConst(x.X, depth+1)
		b, ok2 := evalConst(x.Y, depth+1)
		if !ok1 || !ok2 {
			return 0, false
		}
		switch x.Op {
		case token.ADD:
			return a + b, true
		case token.SUB:
			return a - b, true
		case token.MUL:
			return a * b, true
		case token.QUO:
			if b != 0 {
				return a / b, true
			}
		}
	case *ssa.Call:
		cal := staticCallee(&x.Call)
		if cal == nil || cal.Blocks == nil {
			return 0, false
		}
		var val int64
		found := false
		okAll := true
		instrs(cal, func(b *ssa.BasicBlock, i int, in ssa.Instruction) {
			if ret, ok := in.(*ssa.Return); ok && len(ret.Results) == 1 {
				n, ok := evalConst(returnedValue(ret, 0), depth+1)
				if !ok || (found && n != val) {
					okAll = false
				}
				val, found = n, true
			}
		})
		if found && okAll {
			return val, true
		}
	}
	return 0, false
}

// constOf returns the value of a package-level constant.
func constOf(c *Ctx, rel, name string) (int64, bool) {
	p := c.Pkgs[rel]
	if p == nil {
		return 0, false
	}
	obj := p.Types.Scope().Lookup(name)
	k, ok := obj.(interface{ Val() constant.Value })
	if !ok {
		return 0, false
	}
	return constant.Int64Val(k.Val())
}

func pathHasSuffix(v ssa.Value, suf string) bool { return strings.HasSuffix(path(v), suf) }
