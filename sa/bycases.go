package main

import (
	"go/constant"
	"go/token"

	"golang.org/x/tools/go/ssa"
)

// Decision by cases over a three-way comparison. The result of compare(k, c.k) is only ever tested against 0, so its sign
// (<0, =0, >0) is all a seek primitive can observe; a boolean parameter that the caller hands a constant has one value. For
// each sign the code after the comparison is walked with every such test decided; what remains undecided is explored both
// ways. This decides "steps exactly when compare(k, c.k) OP 0" for a primitive written as a decision table in a shared helper
// (seekBound(k, forward, inclusive)) as exactly as for one that spells the single test out.

type byCasesFrame struct {
	fn     *ssa.Function
	consts map[*ssa.Parameter]bool // boolean parameters bound to the constant the (only analysed) caller passes
	cmp    *ssa.Call               // the compare(k, c.k) call
}

// seekFrame: the function that holds the comparison for seek primitive fn - fn itself, or the in-package helper it forwards
// to with its own k and constant flags (fn then does nothing else that steps).
func seekFrame(fn *ssa.Function) *byCasesFrame {
	findCmp := func(f *ssa.Function, kOK func(ssa.Value) bool) *ssa.Call {
		var found *ssa.Call
		n := 0
		instrs(f, func(_ *ssa.BasicBlock, _ int, in ssa.Instruction) {
			call, ok := in.(*ssa.Call)
			if !ok || call.Call.IsInvoke() || len(call.Call.Args) != 2 {
				return
			}
			if _, isFn := call.Call.Value.(*ssa.Function); isFn {
				return
			}
			if !isComparatorValue(call.Call.Value) {
				return
			}
			if kOK(call.Call.Args[0]) && path(call.Call.Args[1]) == "c.k" {
				found = call
				n++
			}
		})
		if n == 1 {
			return found
		}
		return nil
	}
	isK := func(f *ssa.Function) func(ssa.Value) bool {
		return func(v ssa.Value) bool {
			p, ok := v.(*ssa.Parameter)
			return ok && p.Parent() == f && p.Name() == "k"
		}
	}
	if cc := findCmp(fn, isK(fn)); cc != nil {
		return &byCasesFrame{fn: fn, consts: map[*ssa.Parameter]bool{}, cmp: cc}
	}
	// forwarder
	var hc *ssa.Call
	nCalls := 0
	instrs(fn, func(_ *ssa.BasicBlock, _ int, in ssa.Instruction) {
		if call, ok := in.(*ssa.Call); ok {
			nCalls++
			hc = call
		}
	})
	if nCalls != 1 || hc == nil {
		return nil
	}
	h := staticCallee(&hc.Call)
	if h == nil || h.Blocks == nil || rootFn(h).Pkg != rootFn(fn).Pkg || h == fn {
		return nil
	}
	fr := &byCasesFrame{fn: h, consts: map[*ssa.Parameter]bool{}}
	var kParam *ssa.Parameter
	for i, a := range hc.Call.Args {
		if i >= len(h.Params) {
			return nil
		}
		if p, ok := a.(*ssa.Parameter); ok && p.Parent() == fn && p.Name() == "k" {
			kParam = h.Params[i]
		}
		if k, ok := a.(*ssa.Const); ok && k.Value != nil && k.Value.Kind() == constant.Bool {
			fr.consts[h.Params[i]] = constant.BoolVal(k.Value)
		}
	}
	if kParam == nil {
		return nil
	}
	fr.cmp = findCmp(h, func(v ssa.Value) bool { return v == ssa.Value(kParam) })
	if fr.cmp == nil {
		return nil
	}
	return fr
}

func hasSuffixPath(v ssa.Value, suf string) bool {
	p := path(v)
	return len(p) >= len(suf) && p[len(p)-len(suf):] == suf
}

// eval: the value of boolean v when the comparison's result has the given sign, arriving in v's block from pred (for phis).
func (fr *byCasesFrame) eval(v ssa.Value, sign int, pred *ssa.BasicBlock, depth int) (val, known bool) {
	if depth > 8 {
		return false, false
	}
	switch x := v.(type) {
	case *ssa.Const:
		if x.Value != nil && x.Value.Kind() == constant.Bool {
			return constant.BoolVal(x.Value), true
		}
	case *ssa.Parameter:
		b, ok := fr.consts[x]
		return b, ok
	case *ssa.UnOp:
		if x.Op == token.NOT {
			b, ok := fr.eval(x.X, sign, pred, depth+1)
			return !b, ok
		}
	case *ssa.BinOp:
		l, r := x.X, x.Y
		op := x.Op
		if l != ssa.Value(fr.cmp) && r == ssa.Value(fr.cmp) {
			l, r = r, l
			op = flipCmp(op)
		}
		if l == ssa.Value(fr.cmp) && isConstInt(r, 0) {
			switch op {
			case token.EQL:
				return sign == 0, true
			case token.NEQ:
				return sign != 0, true
			case token.LSS:
				return sign < 0, true
			case token.LEQ:
				return sign <= 0, true
			case token.GTR:
				return sign > 0, true
			case token.GEQ:
				return sign >= 0, true
			}
		}
		if x.Op == token.EQL || x.Op == token.NEQ {
			// flag == constant
			a, okA := fr.eval(x.X, sign, pred, depth+1)
			b, okB := fr.eval(x.Y, sign, pred, depth+1)
			if okA && okB {
				return (a == b) == (x.Op == token.EQL), true
			}
		}
	case *ssa.Phi:
		if pred == nil {
			return false, false
		}
		for i, p := range x.Block().Preds {
			if p == pred && i < len(x.Edges) {
				// the edge value was computed in (or before) pred: a nested phi would need pred's own predecessor
				if _, nested := x.Edges[i].(*ssa.Phi); nested {
					return false, false
				}
				return fr.eval(x.Edges[i], sign, nil, depth+1)
			}
		}
	}
	return false, false
}

func flipCmp(op token.Token) token.Token {
	switch op {
	case token.LSS:
		return token.GTR
	case token.GTR:
		return token.LSS
	case token.LEQ:
		return token.GEQ
	case token.GEQ:
		return token.LEQ
	}
	return op
}

// stepsUnder: walking every feasible path from the comparison to a return of the frame under the given sign, the multiset
// of cursor steps taken: ok is false when a path loops, steps more than once or mixes directions; stepped tells whether
// (all) paths call step once - mixed (some do, some do not) is reported as !ok.
func (fr *byCasesFrame) stepsUnder(sign int, step, other string) (stepped, ok bool) {
	type res struct{ n, bad int }
	var outcomes []res
	var walk func(b *ssa.BasicBlock, from int, pred *ssa.BasicBlock, seen map[*ssa.BasicBlock]bool, n, bad int) bool
	walk = func(b *ssa.BasicBlock, from int, pred *ssa.BasicBlock, seen map[*ssa.BasicBlock]bool, n, bad int) bool {
		if seen[b] {
			return false
		}
		seen[b] = true
		defer delete(seen, b)
		for i := from; i < len(b.Instrs); i++ {
			switch x := b.Instrs[i].(type) {
			case *ssa.Call:
				if cal := staticCallee(&x.Call); cal != nil {
					switch fname(cal) {
					case step:
						n++
					case other:
						bad++
					}
				}
			case *ssa.Return:
				outcomes = append(outcomes, res{n, bad})
				return true
			case *ssa.Panic:
				return true
			case *ssa.Jump:
				return walk(b.Succs[0], 0, b, seen, n, bad)
			case *ssa.If:
				if v, known := fr.eval(x.Cond, sign, pred, 0); known {
					if v {
						return walk(b.Succs[0], 0, b, seen, n, bad)
					}
					return walk(b.Succs[1], 0, b, seen, n, bad)
				}
				return walk(b.Succs[0], 0, b, seen, n, bad) && walk(b.Succs[1], 0, b, seen, n, bad)
			}
		}
		return true
	}
	if !walk(fr.cmp.Block(), idxIn(fr.cmp)+1, nil, map[*ssa.BasicBlock]bool{}, 0, 0) || len(outcomes) == 0 {
		return false, false
	}
	first := outcomes[0]
	for _, o := range outcomes {
		if o != first || o.bad != 0 || o.n > 1 {
			return false, false
		}
	}
	return first.n == 1, true
}

// stepsExactlyWhen: the primitive steps (once, with step, never with other) exactly for the signs of compare(k, c.k) that
// satisfy `sign op 0`, on every path after the comparison.
func stepsExactlyWhen(fn *ssa.Function, op token.Token, step, other string) bool {
	fr := seekFrame(fn)
	if fr == nil {
		return false
	}
	for _, sign := range []int{-1, 0, 1} {
		want := false
		switch op {
		case token.GEQ:
			want = sign >= 0
		case token.GTR:
			want = sign > 0
		case token.LEQ:
			want = sign <= 0
		case token.LSS:
			want = sign < 0
		default:
			return false
		}
		got, ok := fr.stepsUnder(sign, step, other)
		if !ok || got != want {
			return false
		}
	}
	return true
}
