package main

import (
	"go/token"
	"strings"

	"golang.org/x/tools/go/ssa"
)

func init() {
	register(&Property{
		ID:    "C04",
		Title: "deque.Deque equals an ideal double-ended sequence for every history",
		Rules: []*Rule{
			{ID: "C04.pop-zero", Floor: 2, Clause: "on every normal return of PopFront/PopBack the slot that was read into the result has been overwritten with the zero value (same index, before the index moves)",
				Run: ruleDequePopZero},
			{ID: "C04.validate-first", Floor: 7, Clause: "in PopFront, PopBack, Item, Set and Shrink the explicit panic guard dominates every store, every element read and every normal return (no early return above the argument check); Front/Back/Item/Len contain no store",
				Run: ruleDequeValidateFirst},
			{ID: "C04.index-discipline", Floor: 12, Clause: "every value stored to front/back is a constant, the other end, oldLen-1 in resize, or reduced modulo len(d.a); every index into d.a is front, back, the iterator's i, or reduced modulo len(d.a)",
				Run: ruleDequeIndexDiscipline},
			{ID: "C04.resize-only", Floor: 4, Clause: "Grow and Shrink touch the contents only through resize; resize reads the old length before replacing d.a, copies the old contents, and sets front = 0, back = oldLen-1",
				Run: ruleDequeResize},
			{ID: "C04.step-direction", Floor: 4, Clause: "the moving end steps the right way: front-1 in PushFront, front+1 in PopFront, back+1 in PushBack, back-1 in PopBack (before reduction)",
				Run: ruleDequeStepDirection},
			{ID: "C04.canonical-empty", Floor: 1, Clause: "the deque has ONE allocated-but-empty encoding, front == 0 and back == -1 (PushBack/PushFront/Len rely on it): on every path of every function that stores the constant -1 into back, the constant 0 is stored into front too",
				Run: ruleDequeCanonicalEmpty},
			{ID: "C04.guard-tests-argument", Floor: 5, Clause: "the panic guards of Shrink, Item and Set compare the argument itself (n < 0; i < 0, i >= Len()), not a value computed from it: `Len()+n < 0` lets Shrink(-1) through on a non-empty deque",
				Run: ruleDequeGuardTestsArgument},
			{ID: "C04.expand-floor", Floor: 2, Clause: "maybeExpand runs before every push and, when the buffer is full (Len() == len(d.a), which includes the empty buffer), resizes to at least a positive constant: len(d.a) > 0 afterwards (the invariant every modulo in the package relies on)",
				Run: ruleDequeExpandFloor},
		},
		NotCovered: []string{"that the modular arithmetic, the two empty encodings and the unwrap copy in resize are right for every (capacity, front, length): a value-level property of integer arithmetic over a history; deciding it statically needs a relational numeric abstract interpreter with a ring-buffer invariant, which is not available here"},
	})
}

func dq(c *Ctx, n string) *ssa.Function { return c.fn("container/deque.Deque." + n) }

func ruleDequePopZero(c *Ctx, r *R) {
	for _, spec := range [][2]string{{"PopFront", "front"}, {"PopBack", "back"}} {
		fn := dq(c, spec[0])
		if fn == nil {
			r.undecided("deque.Deque."+spec[0]+"|missing", token.NoPos, "anchor not found")
			continue
		}
		end := spec[1]
		unbind := bindEndSlotParams(fn, end)
		// states: 0 = nothing read, 1 = item read from a[end], slot not cleared, 2 = cleared, 3 = end moved before clearing (bad)
		pkgD := fn.Pkg
		pf := &PF{N: 4, InScope: func(f *ssa.Function) bool { return rootFn(origin(f)).Pkg == pkgD && f.Blocks != nil && origin(f) != fn }}
		pf.Instr = func(f *ssa.Function, in ssa.Instruction, q int) (StateSet, bool) {
			switch x := in.(type) {
			case *ssa.UnOp:
				if x.Op == token.MUL {
					if ia, ok := x.X.(*ssa.IndexAddr); ok && isEndSlot(ia, end) && q == 0 {
						return ss(1), true
					}
				}
			case *ssa.Store:
				if ia, ok := x.Addr.(*ssa.IndexAddr); ok && isEndSlot(ia, end) && isZeroValue(x.Val) && q == 1 {
					return ss(2), true
				}
				if _, f2, ok := storedField(x.Addr); ok && f2 == end && q == 1 {
					return ss(3), true
				}
				if pp, ok := x.Addr.(*ssa.Parameter); ok && endSlotParams[pp] == end && q == 1 {
					return ss(3), true
				}
			}
			return 0, false
		}
		good := true
		var bad *ssa.Return
		exits := pf.Exits(fn, ss(0))
		for _, e := range exits {
			if e.States != ss(2) {
				good = false
				if bad == nil {
					bad = e.Ret
				}
			}
		}
		pos := fn.Pos()
		if bad != nil {
			pos = retPos(bad)
		}
		unbind()
		r.ok(good && len(exits) > 0, "deque.Deque."+spec[0]+"|zeroed-on-every-return", pos, "a path returns the popped item without having overwritten its slot with the zero value first: the deque keeps a reference to an element it no longer holds")
	}
}

func ruleDequeValidateFirst(c *Ctx, r *R) {
	for _, n := range []string{"PopFront", "PopBack", "Item", "Set", "Shrink"} {
		fn := dq(c, n)
		if fn == nil {
			r.undecided("deque.Deque."+n+"|missing", token.NoPos, "anchor not found")
			continue
		}
		// blocks that end in panic and the branch that leads to them
		var guards []*ssa.BasicBlock
		for _, b := range fn.Blocks {
			if _, ok := b.Instrs[len(b.Instrs)-1].(*ssa.Panic); ok {
				for _, p := range b.Preds {
					guards = append(guards, p)
				}
			}
		}
		// calls of in-package helpers that themselves contain an explicit panic guard validate on behalf of fn
		var validating []*ssa.Call
		instrs(fn, func(b *ssa.BasicBlock, i int, in ssa.Instruction) {
			if call, ok := in.(*ssa.Call); ok {
				if cal := staticCallee(&call.Call); cal != nil && cal.Blocks != nil && rootFn(cal).Pkg == fn.Pkg && fname(cal) != "resize" && fname(cal) != "Len" {
					for _, cb := range cal.Blocks {
						if _, isPanic := cb.Instrs[len(cb.Instrs)-1].(*ssa.Panic); isPanic {
							validating = append(validating, call)
							break
						}
					}
				}
			}
		})
		good := len(guards) > 0 || len(validating) > 0
		why := "no explicit panic guard"
		instrs(fn, func(b *ssa.BasicBlock, i int, in ssa.Instruction) {
			sensitive := false
			switch x := in.(type) {
			case *ssa.Store:
				if _, isAlloc := x.Addr.(*ssa.Alloc); !isAlloc {
					sensitive = true
				}
			case *ssa.IndexAddr:
				sensitive = true
			case *ssa.Call:
				if cal := staticCallee(&x.Call); cal != nil && fname(cal) == "resize" {
					sensitive = true
				}
			case *ssa.Return:
				if b == fn.Recover {
					return // the synthetic exit of a function that defers (reached only after a recovered panic)
				}
				// a normal return, too, lies behind the check: an early "nothing to do" return placed above it makes the
				// documented panic depend on the deque's state (Shrink(-1) returns silently when there is no spare room)
				sensitive = true
			}
			if !sensitive {
				return
			}
			for _, vc := range validating {
				if !(vc.Block() == b && idxIn(vc) < i) && !(vc.Block() != b && vc.Block().Dominates(b)) {
					good = false
					why = "a store / element access at " + c.pos(in.Pos()) + " is not preceded by the validating call " + calleeName(&vc.Call)
				}
			}
			// must be dominated by the non-panic edge of every guard
			for _, g := range guards {
				iff, ok := g.Instrs[len(g.Instrs)-1].(*ssa.If)
				if !ok {
					continue
				}
				okEdge := false
				for idx := range g.Succs {
					if _, isPanic := g.Succs[idx].Instrs[len(g.Succs[idx].Instrs)-1].(*ssa.Panic); !isPanic && edgeDominates(g, idx, b) {
						okEdge = true
					}
				}
				_ = iff
				if !okEdge {
					good = false
					why = "a store / element access at " + c.pos(in.Pos()) + " is not dominated by the argument check"
				}
			}
		})
		r.ok(good, "deque.Deque."+n+"|validate-first", fn.Pos(), "a failing call must leave the contents unchanged: "+why)
	}
	for _, n := range []string{"Front", "Back", "Item", "Len"} {
		fn := dq(c, n)
		if fn == nil {
			continue
		}
		stores := false
		instrs(fn, func(b *ssa.BasicBlock, i int, in ssa.Instruction) {
			if st, ok := in.(*ssa.Store); ok {
				if _, isAlloc := st.Addr.(*ssa.Alloc); !isAlloc {
					stores = true
				}
			}
		})
		r.ok(!stores, "deque.Deque."+n+"|read-only", fn.Pos(), n+" must not modify the deque")
	}
	// Front must panic explicitly on empty; Back relies on the -1 index (runtime bounds panic)
	if fn := dq(c, "Front"); fn != nil {
		guard := false
		for _, b := range fn.Blocks {
			if _, ok := b.Instrs[len(b.Instrs)-1].(*ssa.Panic); ok {
				guard = true
			}
		}
		r.ok(guard, "deque.Deque.Front|panics-on-empty", fn.Pos(), "Front on an empty deque must panic (front may index a stale but in-range slot)")
	}
}

func modReduced(v ssa.Value) bool {
	_, ok := symOf(v, provEnv{}).modLen("a")
	return ok
}

// isEndSlot: ia addresses d.a[d.<end>] (through whatever aliases / helpers)
func isEndSlot(ia *ssa.IndexAddr, end string) bool {
	fld, base, ok := rootField(ia.X)
	if !ok || fld != "a" || !isNamedType(base.Type(), "container/deque", "Deque") {
		return false
	}
	if p, ok := resolveVal(ia.Index).(*ssa.Parameter); ok && endSlotParams[p] == end {
		return true // the slot index handed to a shared helper (d.take(d.front))
	}
	if ld, ok := resolveVal(ia.Index).(*ssa.UnOp); ok && ld.Op == token.MUL {
		if p, ok := ld.X.(*ssa.Parameter); ok && endSlotParams[p] == end {
			return true // read through a pointer to the end's index field (d.popEnd(&d.front, 1): idx := *end)
		}
	}
	return symOf(ia.Index, provEnv{}).fieldSuffix(end)
}

// endSlotParams: parameters of in-package helpers that, in the analysis under way, are bound to the deque's front / back index.
var endSlotParams = map[*ssa.Parameter]string{}

// bindEndSlotParams: for every static call in fn of an in-package helper with an argument that is d.<end>, bind the helper's
// parameter to that end (cleared by the returned function).
func bindEndSlotParams(fn *ssa.Function, end string) func() {
	var bound []*ssa.Parameter
	instrs(fn, func(_ *ssa.BasicBlock, _ int, in ssa.Instruction) {
		call, ok := in.(*ssa.Call)
		if !ok {
			return
		}
		cal := staticCallee(&call.Call)
		if cal == nil || cal.Blocks == nil || rootFn(origin(cal)).Pkg != fn.Pkg {
			return
		}
		o := origin(cal)
		for i, a := range call.Call.Args {
			if i < len(o.Params) && isIntType(a.Type()) && symOf(a, provEnv{}).fieldSuffix(end) {
				endSlotParams[o.Params[i]] = end
				bound = append(bound, o.Params[i])
			}
			// &d.<end>: the helper reads and moves the end through the pointer
			if fa, ok := a.(*ssa.FieldAddr); ok && i < len(o.Params) && isNamedType(fa.X.Type(), "container/deque", "Deque") && fieldName(fa.X.Type(), fa.Field) == end {
				endSlotParams[o.Params[i]] = end
				bound = append(bound, o.Params[i])
			}
		}
	})
	return func() {
		for _, p := range bound {
			delete(endSlotParams, p)
		}
	}
}

func ruleDequeIndexDiscipline(c *Ctx, r *R) {
	for _, fn := range c.funcsOfPkg("container/deque") {
		name := c.nameOf(fn)
		k := 0
		instrs(fn, func(b *ssa.BasicBlock, i int, in ssa.Instruction) {
			switch x := in.(type) {
			case *ssa.Store:
				fa, ok := x.Addr.(*ssa.FieldAddr)
				if !ok || !isNamedType(fa.X.Type(), "container/deque", "Deque") {
					return
				}
				f := fieldName(fa.X.Type(), fa.Field)
				if f != "front" && f != "back" {
					return
				}
				if _, fresh := fa.X.(*ssa.Alloc); fresh {
					return
				}
				k++
				key := name + "|store:" + f + "#" + itoa(k)
				e := symOf(x.Val, provEnv{})
				other := e.fieldSuffix("front") || e.fieldSuffix("back")
				oldLen := false
				if strings.Contains(name, "resize") && e.op == "-" && len(e.args) == 2 && e.args[1].isConst(1) {
					a0 := e.args[0]
					oldLen = (a0.op == "call" && a0.s == "Len") || a0.inl == "Len" || a0.op == "leaf" // the old length (read before d.a is replaced - checked by resize-only)
				}
				_, mod := e.modLen("a")
				okEnd := e.op == "const" || other || oldLen || mod
				if !okEnd && e.op == "phi" {
					okEnd = true
					for _, a := range sxAlternatives(e, "a") {
						_, am := a.modLen("a")
						if !(a.op == "const" || a.fieldSuffix("front") || a.fieldSuffix("back") || am) {
							okEnd = false
						}
					}
				}
				if !okEnd {
					// the index is a parameter of an unexported helper (pushFirst(idx, item)): what every call site passes
					if p, isP := resolveVal(x.Val).(*ssa.Parameter); isP && p.Parent() == fn && !token.IsExported(fn.Name()) && fn.Parent() == nil {
						idx := -1
						for i, q := range fn.Params {
							if q == p {
								idx = i
							}
						}
						sites := callCommonsOf(c, fn)
						okEnd = idx >= 0 && len(sites) > 0
						for _, cc := range sites {
							if idx >= len(cc.Args) {
								okEnd = false
								break
							}
							for _, a := range sxAlternatives(symOf(cc.Args[idx], provEnv{}), "a") {
								_, am := a.modLen("a")
								if !(a.op == "const" || a.fieldSuffix("front") || a.fieldSuffix("back") || am) {
									okEnd = false
								}
							}
						}
					}
				}
				if !okEnd {
					// one slot with an explicit compare-and-wrap (if F == 0 { F = len(a)-1 } else { F-- }, ...)
					if _, isWrap := wrapStep(x, f); isWrap {
						okEnd = true
					}
				}
				r.ok(okEnd, key, x.Pos(), f+" is assigned "+e.String()+", which is neither a constant, the other end, nor reduced modulo len(d.a) (nor one compare-and-wrap step): the index can leave the buffer")
			case *ssa.IndexAddr:
				fld, base, ok := rootField(x.X)
				if !ok || fld != "a" || !isNamedType(base.Type(), "container/deque", "Deque") {
					return
				}
				k++
				e := symOf(x.Index, provEnv{})
				key := name + "|index:" + e.String() + "#" + itoa(k)
				_, mod := e.modLen("a")
				okIdx := e.fieldSuffix("front") || e.fieldSuffix("back") || isIterPosition(x.Index) || mod
				if !okIdx && e.op == "phi" {
					okIdx = true
					for _, a := range sxAlternatives(e, "a") {
						_, am := a.modLen("a")
						if !(a.fieldSuffix("front") || a.fieldSuffix("back") || am) {
							okIdx = false
						}
					}
				}
				if ld, isLd := resolveVal(x.Index).(*ssa.UnOp); isLd && ld.Op == token.MUL && !okIdx && fn.Parent() == nil && !token.IsExported(fn.Name()) {
					// the index is read through a pointer parameter: every call site hands in &d.front or &d.back
					if p, isP := ld.X.(*ssa.Parameter); isP {
						pi := -1
						for k2, pp := range fn.Params {
							if pp == p {
								pi = k2
							}
						}
						sites := callSitesOf(c, fn)
						okIdx = pi >= 0 && len(sites) > 0
						for _, site := range sites {
							var fa *ssa.FieldAddr
							isFA := false
							if pi < len(site.Call.Args) {
								fa, isFA = site.Call.Args[pi].(*ssa.FieldAddr)
							}
							if !isFA || !isNamedType(fa.X.Type(), "container/deque", "Deque") || (fieldName(fa.X.Type(), fa.Field) != "front" && fieldName(fa.X.Type(), fa.Field) != "back") {
								okIdx = false
							}
						}
					}
				}
				if p, isP := resolveVal(x.Index).(*ssa.Parameter); isP && !okIdx && fn.Parent() == nil && !token.IsExported(fn.Name()) {
					// the index is a parameter of an unexported helper: every call site hands in front, back or a reduced index
					pi := -1
					for k2, pp := range fn.Params {
						if pp == p {
							pi = k2
						}
					}
					sites := callSitesOf(c, fn)
					okIdx = pi >= 0 && len(sites) > 0
					for _, site := range sites {
						if pi >= len(site.Call.Args) {
							okIdx = false
							continue
						}
						ae := symOf(site.Call.Args[pi], provEnv{})
						_, am := ae.modLen("a")
						if !(ae.fieldSuffix("front") || ae.fieldSuffix("back") || am) {
							okIdx = false
						}
					}
				}
				r.ok(okIdx, key, x.Pos(), "d.a is indexed by "+e.String()+", which is neither front, back, the iterator's position nor reduced modulo len(d.a)")
			}
		})
	}
	// the iterator's position is itself only ever d.front or mod-reduced
	if it := c.fn("container/deque.dequeIterator.Next"); it != nil {
		good := true
		posFields := map[string]bool{}
		instrs(it, func(b *ssa.BasicBlock, i int, in ssa.Instruction) {
			if ia, ok := in.(*ssa.IndexAddr); ok && isIterPosition(ia.Index) {
				if ld, ok := resolveVal(ia.Index).(*ssa.UnOp); ok {
					if fa, ok := ld.X.(*ssa.FieldAddr); ok {
						posFields[fieldName(fa.X.Type(), fa.Field)] = true
					}
				}
			}
		})
		instrs(it, func(b *ssa.BasicBlock, i int, in ssa.Instruction) {
			if st, ok := in.(*ssa.Store); ok {
				if _, f, ok := storedField(st.Addr); ok && posFields[f] && !modReduced(st.Val) {
					good = false
				}
			}
		})
		r.ok(good, "container/deque.dequeIterator.Next|position-mod-reduced", it.Pos(), "the iterator's position must stay reduced modulo len(d.a)")
	}
}

func ruleDequeResize(c *Ctx, r *R) {
	for _, n := range []string{"Grow", "Shrink"} {
		fn := dq(c, n)
		if fn == nil {
			r.undecided("deque.Deque."+n+"|missing", token.NoPos, "anchor not found")
			continue
		}
		direct := false
		calls := false
		for _, dd := range deepInstrs(fn, 2) { // (through a helper shared with the expansion step: d.ensureSpare(n, len(d.a)+n))
			inResize := false
			for _, site := range dd.calls {
				if cal := staticCallee(&site.Call); cal != nil && fname(cal) == "resize" {
					inResize = true
				}
			}
			if inResize {
				continue
			}
			if st, ok := dd.in.(*ssa.Store); ok {
				if _, isAlloc := st.Addr.(*ssa.Alloc); !isAlloc {
					direct = true
				}
			}
			if call, ok := dd.in.(*ssa.Call); ok {
				if cal := staticCallee(&call.Call); cal != nil && fname(cal) == "resize" {
					calls = true
				}
			}
		}
		r.ok(!direct && calls, "deque.Deque."+n+"|only-through-resize", fn.Pos(), n+" must not touch the contents except through resize")
	}
	rs := dq(c, "resize")
	if rs == nil {
		r.undecided("deque.Deque.resize|missing", token.NoPos, "anchor not found")
		return
	}
	var lenCall, storeA ssa.Instruction
	var frontV, backV ssa.Value
	staged := map[*ssa.Alloc]map[string]ssa.Value{}
	copies := 0
	for _, di := range deepInstrs(rs, 2) {
		if call, ok := di.in.(*ssa.Call); ok && len(di.calls) > 0 {
			if bi, ok := call.Call.Value.(*ssa.Builtin); ok && bi.Name() == "copy" {
				copies++ // a copy inside a helper that resize calls
			}
		}
	}
	instrs(rs, func(b *ssa.BasicBlock, i int, in ssa.Instruction) {
		switch x := in.(type) {
		case *ssa.Call:
			if cal := staticCallee(&x.Call); cal != nil && fname(cal) == "Len" && lenCall == nil {
				lenCall = x
			}
			if bi, ok := x.Call.Value.(*ssa.Builtin); ok && bi.Name() == "copy" {
				copies++
			}
		case *ssa.Store:
			// a replacement deque built in a local and swapped in at the end (resized := Deque[T]{...}; ...; *d = resized): the
			// stores into the local are staged, the whole-struct store is the replacement
			if fa, ok := x.Addr.(*ssa.FieldAddr); ok {
				if al, isLocal := fa.X.(*ssa.Alloc); isLocal && isNamedTypeDeep(al.Type(), "container/deque", "Deque") {
					if staged[al] == nil {
						staged[al] = map[string]ssa.Value{}
					}
					staged[al][fieldName(fa.X.Type(), fa.Field)] = x.Val
					return
				}
			}
			if x.Addr == ssa.Value(rs.Params[0]) {
				if ld, ok := x.Val.(*ssa.UnOp); ok && ld.Op == token.MUL {
					if al, ok := ld.X.(*ssa.Alloc); ok && staged[al] != nil {
						storeA = x
						frontV, backV = staged[al]["front"], staged[al]["back"]
					}
				}
				return
			}
			if _, f, ok := storedField(x.Addr); ok {
				switch f {
				case "a":
					storeA = x
				case "front":
					frontV = x.Val
				case "back":
					backV = x.Val
				}
			}
		}
	})
	okOrder := lenCall != nil && storeA != nil && lenCall.Block().Dominates(storeA.Block()) && (lenCall.Block() != storeA.Block() || idxIn(lenCall) < idxIn(storeA))
	var oldLen ssa.Value
	if lenCall != nil {
		oldLen = lenCall.(*ssa.Call)
	}
	if lenCall == nil && storeA != nil {
		// the old length is handed in by the callers, who have just computed it (resize(size, n) with size := d.Len() at every
		// call site): read before the call, hence before d.a is replaced
		for pi, p := range rs.Params {
			if pi == 0 || !isIntType(p.Type()) {
				continue
			}
			sites := callSitesOf(c, rs)
			all := len(sites) > 0
			for _, site := range sites {
				if pi >= len(site.Call.Args) {
					all = false
					break
				}
				lc, ok := resolveVal(site.Call.Args[pi]).(*ssa.Call)
				if !ok {
					all = false
					break
				}
				cal := staticCallee(&lc.Call)
				if cal == nil || fname(cal) != "Len" || len(lc.Call.Args) != 1 || resolveVal(lc.Call.Args[0]) != resolveVal(site.Call.Args[0]) {
					all = false
					break
				}
				// nothing between that Len() and the call may touch the deque: no heap store (or call of a deque method that
				// stores) on a path from the one to the other
				if !(lc.Block() == site.Block() && idxIn(lc) < idxIn(site)) && !(lc.Block() != site.Block() && lc.Block().Dominates(site.Block())) {
					all = false
					break
				}
				instrs(site.Parent(), func(sb *ssa.BasicBlock, si int, sin ssa.Instruction) {
					st, isSt := sin.(*ssa.Store)
					if !isSt {
						return
					}
					if _, local := st.Addr.(*ssa.Alloc); local {
						return
					}
					afterLen := (sb == lc.Block() && si > idxIn(lc)) || (sb != lc.Block() && reaches(lc.Block(), sb))
					beforeCall := (sb == site.Block() && si < idxIn(site)) || (sb != site.Block() && reaches(sb, site.Block()))
					if afterLen && beforeCall {
						all = false
					}
				})
			}
			if all {
				oldLen = p
				okOrder = true
			}
		}
	}
	r.ok(okOrder, "deque.Deque.resize|old-length-before-replace", rs.Pos(), "resize must read the old length before it replaces d.a (Len depends on len(d.a))")
	okEnds := frontV != nil && isConstInt(frontV, 0) && backV != nil && oldLen != nil
	if okEnds {
		bin, ok := backV.(*ssa.BinOp)
		okEnds = ok && bin.Op == token.SUB && bin.X == oldLen && isConstInt(bin.Y, 1)
	}
	r.ok(okEnds, "deque.Deque.resize|ends-reset", rs.Pos(), "after resize the contents start at 0: front = 0 and back = oldLen-1 (−1 encodes empty)")
	// the segments copied: distinct sub-slices of the old buffer that reach a copy as its source (directly or as the result of a
	// helper that picks the segments)
	segs := map[ssa.Value]bool{}
	for _, di := range deepInstrs(rs, 2) {
		if call, ok := di.in.(*ssa.Call); ok {
			// copy(dst, seg), or append(window, seg...) onto a window of the new buffer: either moves the whole segment
			if bi, ok := call.Call.Value.(*ssa.Builtin); ok && (bi.Name() == "copy" || bi.Name() == "append") && len(call.Call.Args) == 2 {
				for _, lf := range valueLeaves(call.Call.Args[1], di.calls, 0) {
					if sl, ok := lf.v.(*ssa.Slice); ok {
						if f, _, ok := rootField(sl.X); ok && f == "a" {
							segs[sl] = true
						}
					}
				}
			}
		}
	}
	// ... or the items are moved one by one in queue order: a loop counting i from 0 below the old length that stores
	// old[(front + i) mod len(old)] into new[i]
	elementwise := false
	for _, di := range deepInstrs(rs, 1) {
		st, ok := di.in.(*ssa.Store)
		if !ok {
			continue
		}
		dst, ok := st.Addr.(*ssa.IndexAddr)
		if !ok {
			continue
		}
		ld, ok := st.Val.(*ssa.UnOp)
		if !ok || ld.Op != token.MUL {
			continue
		}
		src, ok := ld.X.(*ssa.IndexAddr)
		if !ok {
			continue
		}
		if f, _, ok := rootField(src.X); !ok || f != "a" {
			continue
		}
		env := provEnv{chain: di.calls}
		di0 := symOf(dst.Index, env)
		if di0.op != "iv" || !di0.args[0].isConst(0) {
			continue
		}
		se := symOf(src.Index, env)
		inner, isMod := se.modLen("a")
		if !isMod || inner == nil || inner.op != "+" || len(inner.args) != 2 {
			continue
		}
		a, b := inner.args[0], inner.args[1]
		if !((a.fieldSuffix("front") && b.op == "iv" && b.v == di0.v) || (b.fieldSuffix("front") && a.op == "iv" && a.v == di0.v)) {
			continue
		}
		// the counter runs below the old length
		for _, g := range guardsOf(st.Block()) {
			if cf, ok := g.asCmp(); ok && cf.op == token.LSS && cf.x == di0.v && lenCall != nil && resolveVal(cf.y) == ssa.Value(lenCall.(*ssa.Call)) {
				elementwise = true
			}
		}
	}
	r.ok(copies >= 3 || len(segs) >= 3 || elementwise, "deque.Deque.resize|copies-both-halves", rs.Pos(), "resize must copy the contiguous case and both halves of the wrapped case")
	// all copies happen before d.a is replaced and read from the old d.a
	okCopy := true
	for _, di := range deepInstrs(rs, 2) {
		call, ok := di.in.(*ssa.Call)
		if !ok {
			continue
		}
		if bi, ok := call.Call.Value.(*ssa.Builtin); ok && bi.Name() == "copy" && storeA != nil {
			sb := di.site.Block()
			if !(sb.Dominates(storeA.Block()) || reaches(sb, storeA.Block())) || (sb == storeA.Block() && idxIn(di.site) > idxIn(storeA)) {
				okCopy = false
			}
			if f, _, ok := rootField(call.Call.Args[1]); !ok || f != "a" {
				// or a segment of the old buffer chosen by a helper (nil when there is nothing to copy)
				fromOld := true
				ls := valueLeaves(call.Call.Args[1], di.calls, 0)
				for _, lf := range ls {
					if isNilConst(lf.v) {
						continue
					}
					sl, isSl := lf.v.(*ssa.Slice)
					if !isSl {
						fromOld = false
						continue
					}
					if f2, _, ok2 := rootField(sl.X); !ok2 || f2 != "a" {
						fromOld = false
					}
				}
				if !fromOld || len(ls) == 0 {
					okCopy = false
				}
			}
		}
	}
	r.ok(okCopy, "deque.Deque.resize|copy-from-old-buffer", rs.Pos(), "the contents must be copied out of the old buffer before d.a is replaced")
}

func ruleDequeStepDirection(c *Ctx, r *R) {
	for _, spec := range [][3]string{{"PushFront", "front", "-"}, {"PopFront", "front", "+"}, {"PushBack", "back", "+"}, {"PopBack", "back", "-"}} {
		fn := dq(c, spec[0])
		if fn == nil {
			r.undecided("deque.Deque."+spec[0]+"|missing", token.NoPos, "anchor not found")
			continue
		}
		found, good := false, true
		for _, di := range deepInstrs(fn, 2) { // the move may sit in a helper shared by both ends (d.popEnd(&d.front, 1))
			if len(di.calls) > 0 {
				if cal := staticCallee(&di.calls[0].Call); cal == nil || rootFn(origin(cal)).Pkg != fn.Pkg || fname(cal) == "resize" || fname(cal) == "maybeExpand" {
					continue
				}
			}
			st, ok := di.in.(*ssa.Store)
			if !ok {
				continue
			}
			addr := argOf(st.Addr, di.calls)
			if _, f, ok := storedField(addr); !ok || f != spec[1] {
				continue
			}
			if len(di.calls) == 0 {
				if wd, isWrap := wrapStep(st, spec[1]); isWrap {
					// the step written as compare-and-wrap
					found = true
					if (wd > 0) != (spec[2] == "+") {
						good = false
					}
					continue
				}
			}
			for _, e := range sxAlternatives(symOf(st.Val, provEnv{chain: di.calls}), "a") {
				inner, ok := e.modLen("a")
				if !ok {
					continue // constant / other-end assignment
				}
				found = true
				if len(inner.args) != 2 || !inner.args[0].fieldSuffix(spec[1]) || !(inner.args[1].isConst(1) || inner.args[1].isConst(-1)) {
					good = false
					continue
				}
				// the signed step: x + 1, x - 1, or x + step with the helper's step parameter bound to +1 / -1 at the call
				dir := inner.op
				if inner.args[1].isConst(-1) {
					if dir == "+" {
						dir = "-"
					} else if dir == "-" {
						dir = "+"
					}
				}
				if dir != spec[2] {
					good = false
				}
			}
		}
		r.ok(found && good, "deque.Deque."+spec[0]+"|step", fn.Pos(), spec[0]+" must move "+spec[1]+" by "+spec[2]+"1 (the direction is fixed by what front/back and push/pop mean)")
	}
}

func ruleDequeExpandFloor(c *Ctx, r *R) {
	me := dq(c, "maybeExpand")
	if me == nil {
		// the expansion step written out in the pushes themselves (maybeExpand inlined into its two callers): each push is
		// judged as its own expander, and the step must come before the push touches the buffer
		any := false
		for _, p := range []string{"PushFront", "PushBack"} {
			if fn := dq(c, p); fn != nil {
				any = true
				dequeExpandHost(c, r, fn, "deque.Deque."+p)
				first := true
				var resizeAt ssa.Instruction
				instrs(fn, func(_ *ssa.BasicBlock, _ int, in ssa.Instruction) {
					if call, ok := in.(*ssa.Call); ok && resizeAt == nil {
						if cal := staticCallee(&call.Call); cal != nil && fname(cal) == "resize" {
							resizeAt = call
						}
					}
				})
				if resizeAt == nil {
					first = false
				} else {
					instrs(fn, func(b *ssa.BasicBlock, i int, in ssa.Instruction) {
						st, ok := in.(*ssa.Store)
						if !ok {
							return
						}
						if _, isAlloc := st.Addr.(*ssa.Alloc); isAlloc {
							return
						}
						if (b == resizeAt.Block() && i < idxIn(resizeAt)) || (b != resizeAt.Block() && b.Dominates(resizeAt.Block())) {
							first = false // the deque is written before room was made
						}
					})
				}
				r.ok(first, "deque.Deque."+p+"|expand-first", fn.Pos(), p+" must make room (resize when full) before touching the buffer")
			}
		}
		if !any {
			r.undecided("deque.Deque.maybeExpand|missing", token.NoPos, "anchor not found")
		}
		return
	}
	dequeExpandHost(c, r, me, "deque.Deque.maybeExpand")
	for _, p := range []string{"PushFront", "PushBack"} {
		fn := dq(c, p)
		if fn == nil {
			continue
		}
		first := false
		for _, in := range fn.Blocks[0].Instrs {
			if call, ok := in.(*ssa.Call); ok {
				if cal := staticCallee(&call.Call); cal != nil && fname(cal) == "maybeExpand" {
					first = true
				}
				break
			}
			if _, ok := in.(*ssa.Store); ok {
				break
			}
		}
		r.ok(first, "deque.Deque."+p+"|expand-first", fn.Pos(), p+" must call maybeExpand before touching the buffer")
	}
}

// dequeExpandHost: the function me contains the expansion step.
func dequeExpandHost(c *Ctx, r *R, me *ssa.Function, key string) {
	// every resize call in maybeExpand has an argument provably >= 1; and the full test covers the empty buffer:
	// the resize is reached whenever Len() == len(d.a)
	n := 0
	good := true
	why := ""
	// (the resize may sit in a helper the step shares with Grow: d.ensureSpare(1, max(minSize, len(d.a)*2)) - its parameters
	// stand for what the expansion step passes)
	var resizeSites []deepInstr
	for _, dd := range deepInstrs(me, 2) {
		if call, ok := dd.in.(*ssa.Call); ok {
			if cal := staticCallee(&call.Call); cal != nil && fname(cal) == "resize" {
				if len(dd.calls) > 0 {
					if inner := staticCallee(&dd.calls[len(dd.calls)-1].Call); inner != nil && fname(inner) == "resize" {
						continue // inside resize itself
					}
				}
				resizeSites = append(resizeSites, dd)
			}
		}
	}
	for _, dd := range resizeSites {
		call := dd.in.(*ssa.Call)
		n++
		arg := call.Call.Args[len(call.Call.Args)-1]
		if as := argsAs(&call.Call); len(as) >= 2 && as[1] != nil {
			arg = as[1] // the new size, whatever else the helper is handed nowadays
		}
		arg = argOf(arg, dd.calls)
		pos := false
		if k, ok := arg.(*ssa.Const); ok && k.Value != nil && k.Int64() >= 1 {
			pos = true
		}
		if mc, ok := arg.(*ssa.Call); ok {
			if cal := staticCallee(&mc.Call); cal != nil && (fname(cal) == "Max" || strings.HasPrefix(fname(cal), "Max[")) || isBuiltinNamed(mc, "max") {
				for _, a := range mc.Call.Args {
					if k, ok := a.(*ssa.Const); ok && k.Value != nil && k.Int64() >= 1 {
						pos = true
					}
				}
			}
		}
		if phi, ok := arg.(*ssa.Phi); ok && !pos {
			// newCap := len(d.a)*2; if newCap < minSize { newCap = minSize }: every way into the merge carries a value >= 1
			all := len(phi.Edges) > 0
			for k, e := range phi.Edges {
				if kc, ok := e.(*ssa.Const); ok && kc.Value != nil && kc.Int64() >= 1 {
					continue
				}
				pb := phi.Block().Preds[k]
				okEdge := false
				gs := guardsOf(pb)
				if iff, isIf := pb.Instrs[len(pb.Instrs)-1].(*ssa.If); isIf {
					gs = append(gs, guard{cond: iff.Cond, val: pb.Succs[0] == phi.Block(), blk: pb})
				}
				for _, g := range gs {
					cf, ok := g.asCmp()
					if !ok {
						continue
					}
					x, y, op := cf.x, cf.y, cf.op
					if y == e {
						x, y, op = y, x, flip(op)
					}
					if x != e {
						continue
					}
					if kc, ok := resolveVal(y).(*ssa.Const); ok && kc.Value != nil {
						if (op == token.GEQ && kc.Int64() >= 1) || (op == token.GTR && kc.Int64() >= 0) {
							okEdge = true
						}
					}
				}
				if !okEdge {
					all = false
				}
			}
			pos = all
		}
		if !pos {
			good = false
			why = "resize(" + path(arg) + ") may be resize(0): after Shrink(0) on a drained deque len(d.a) == 0 and the next push divides by zero / indexes an empty slice"
		}
	}
	// the resize must be reachable for the empty buffer: guarded only by Len() == len(d.a) (no extra d.a == nil split that leaves len 0 ∧ non-nil uncovered)
	cover := false
	for _, dd := range resizeSites {
		b := dd.in.Block()
		gs := guardsOf(b)
		for _, site := range dd.calls {
			gs = append(gs, guardsOf(site.Block())...)
		}
		env := provEnv{chain: dd.calls}
		if len(gs) == 1 {
			if cf, ok := gs[0].asCmp(); ok && (cf.op == token.LSS || cf.op == token.LEQ) {
				// spare := len(d.a) - Len(); if spare < 1: "fewer than one spare slot" is "full" (Len never exceeds len(d.a))
				xs, ys := symOf(cf.x, env), symOf(cf.y, env)
				isLenCall := func(e *sx) bool { return e != nil && (e.inl == "Len" || (e.op == "call" && e.s == "Len")) }
				isBufLen := func(e *sx) bool { return e != nil && e.op == "len" && e.args[0].fieldSuffix("a") }
				if xs != nil && ys != nil && xs.op == "-" && len(xs.args) == 2 && isBufLen(xs.args[0]) && isLenCall(xs.args[1]) &&
					((cf.op == token.LSS && ys.isConst(1)) || (cf.op == token.LEQ && ys.isConst(0))) {
					cover = true
				}
			}
			if cf, ok := gs[0].asCmp(); ok && cf.op == token.EQL {
				xs, ys := symOf(cf.x, env), symOf(cf.y, env)
				isLenCall := func(e *sx) bool { return e != nil && (e.inl == "Len" || (e.op == "call" && e.s == "Len")) }
				isBufLen := func(e *sx) bool { return e != nil && e.op == "len" && e.args[0].fieldSuffix("a") }
				// Len() == len(d.a), or len(d.a) - Len() == 0 (a "spare capacity" helper)
				if (isLenCall(xs) && isBufLen(ys)) || (isLenCall(ys) && isBufLen(xs)) {
					cover = true
				}
				if xs.op == "-" && len(xs.args) == 2 && isBufLen(xs.args[0]) && isLenCall(xs.args[1]) && ys.isConst(0) {
					cover = true
				}
			}
		}
	}
	r.ok(good && n >= 1 && cover, key+"|resize-at-least-one", me.Pos(), "the expansion step must leave len(d.a) > 0: "+why)
}

func isBuiltinNamed(call *ssa.Call, name string) bool {
	b, ok := call.Call.Value.(*ssa.Builtin)
	return ok && b.Name() == name
}

var _ = late(func() {
	p := properties["C04"]
	p.Rules = append(p.Rules, &Rule{ID: "C04.iter-termination", Floor: 2, Clause: "the deque iterator never decides that it is finished by comparing its cursor position with another position before reading: in a ring buffer whose length may equal its capacity 'one past the back' is the front, so a full deque would look exhausted (termination must come from a flag/count set after the back element was yielded, the empty test, or the generation test)",
		Run: ruleDequeIterTermination})
	q := properties["C15"]
	q.Rules = append(q.Rules, &Rule{ID: "C15.iter-termination", Floor: 2, Clause: "same rule as C04.iter-termination: on an unchanged deque the iterator yields the whole contents also when the buffer is exactly full",
		Run: ruleDequeIterTermination})
})

func ruleDequeIterTermination(c *Ctx, r *R) {
	fn := c.fn("container/deque.dequeIterator.Next")
	if fn == nil {
		r.undecided("deque.dequeIterator.Next|missing", token.NoPos, "anchor not found")
		return
	}
	// an iterator that walks a snapshot through an inner iterator (iterator.Join over the occupied segments of d.a) ends when
	// that iterator ends: every return hands on the inner iterator's answer and Next reads no element storage itself
	{
		delegates, reads := true, false
		nRet := 0
		instrs(fn, func(b *ssa.BasicBlock, i int, in ssa.Instruction) {
			if ia, ok := in.(*ssa.IndexAddr); ok {
				if f, _, ok := rootField(ia.X); ok && f == "a" {
					reads = true
				}
			}
			ret, ok := in.(*ssa.Return)
			if !ok || len(ret.Results) != 2 {
				return
			}
			nRet++
			ex, ok := returnedValue(ret, 0).(*ssa.Extract)
			if !ok {
				delegates = false
				return
			}
			call, ok := ex.Tuple.(*ssa.Call)
			if !ok || !call.Call.IsInvoke() || call.Call.Method.Name() != "Next" {
				delegates = false
				return
			}
			pv := valueProv(call.Call.Value, provEnv{})
			if pp, isP := pv.root.(*ssa.Parameter); !isP || pp != fn.Params[0] || len(pv.fields) != 1 {
				delegates = false
			}
		})
		if delegates && !reads && nRet > 0 {
			r.discharged("deque.dequeIterator.Next|terminates-after-back", fn.Pos(), "Next hands on the answer of the inner snapshot iterator (which ends by itself)")
			r.discharged("deque.dequeIterator.Next|end-return#1", fn.Pos(), "no position comparison: the end is the inner iterator's")
			return
		}
	}
	// the cursor: the index value used to read d.a
	cursorPaths := map[string]bool{}
	instrs(fn, func(b *ssa.BasicBlock, i int, in ssa.Instruction) {
		if ia, ok := in.(*ssa.IndexAddr); ok {
			if f, _, ok := rootField(ia.X); ok && f == "a" {
				cursorPaths[path(ia.Index)] = true
			}
		}
	})
	k := 0
	instrs(fn, func(b *ssa.BasicBlock, i int, in ssa.Instruction) {
		ret, ok := in.(*ssa.Return)
		if !ok || len(ret.Results) != 2 {
			return
		}
		kc, isC := returnedValue(ret, 1).(*ssa.Const)
		if !isC || kc.Value == nil || kc.Value.String() != "false" {
			return
		}
		k++
		bad := ""
		gs := append(guardsOf(b), guardsOfSelf(b)...)
		for _, p := range b.Preds { // short-circuit disjunctions: any branch that jumps straight to this return
			if iff, ok := p.Instrs[len(p.Instrs)-1].(*ssa.If); ok {
				gs = append(gs, guard{cond: iff.Cond, val: p.Succs[0] == b, blk: p})
			}
		}
		for _, g := range gs {
			cf, ok := g.asCmp()
			if !ok {
				continue
			}
			xs, ys := path(cf.x), path(cf.y)
			_, xc := cf.x.(*ssa.Const)
			_, yc := cf.y.(*ssa.Const)
			if (cursorPaths[xs] && !yc) || (cursorPaths[ys] && !xc) {
				bad = xs + " " + cf.op.String() + " " + ys
			}
		}
		r.ok(bad == "", "deque.dequeIterator.Next|end-return#"+itoa(k), retPos(ret), "the iterator reports exhaustion because of the position comparison `"+bad+"` made before reading: when the deque is exactly full, the position one past the back equals the front and a non-empty deque yields nothing")
	})
	// termination exists: the end-return is gated by a field of the iterator (a flag or a count) that Next itself writes
	// (set once the back element was yielded) - identified by role, not by name
	gate := map[string]bool{}
	iterFieldOf := func(v ssa.Value) string {
		pv := valueProv(v, provEnv{})
		if pp, ok := pv.root.(*ssa.Parameter); ok && len(fn.Params) > 0 && pp == fn.Params[0] && len(pv.fields) == 1 {
			return pv.fields[0]
		}
		return ""
	}
	instrs(fn, func(b *ssa.BasicBlock, i int, in ssa.Instruction) {
		ret, ok := in.(*ssa.Return)
		if !ok || len(ret.Results) != 2 {
			return
		}
		kc, isC := returnedValue(ret, 1).(*ssa.Const)
		if !isC || kc.Value == nil || kc.Value.String() != "false" {
			return
		}
		gs := append(guardsOf(b), guardsOfSelf(b)...)
		for _, p := range b.Preds {
			if iff, ok := p.Instrs[len(p.Instrs)-1].(*ssa.If); ok {
				gs = append(gs, expandGuard(guard{cond: iff.Cond, val: p.Succs[0] == b, blk: p}, 0)...)
			}
		}
		for _, g := range gs {
			if bv, ok := g.boolVal(); ok {
				if f := iterFieldOf(bv); f != "" {
					gate[f] = true
				}
			}
			// the test lives in a boolean helper of the iterator (iter.exhausted()): the iterator fields that helper reads
			if bv, _ := g.boolVal(); bv != nil {
				if hc, ok := bv.(*ssa.Call); ok {
					if cal := staticCallee(&hc.Call); cal != nil && cal.Blocks != nil && len(hc.Call.Args) > 0 && hc.Call.Args[0] == ssa.Value(fn.Params[0]) && rootFn(origin(cal)).Pkg == fn.Pkg {
						o := origin(cal)
						instrs(o, func(_ *ssa.BasicBlock, _ int, in2 ssa.Instruction) {
							ld, ok := in2.(*ssa.UnOp)
							if !ok || ld.Op != token.MUL {
								return
							}
							pv := valueProv(ld, provEnv{})
							if pp, ok := pv.root.(*ssa.Parameter); ok && len(o.Params) > 0 && pp == o.Params[0] && len(pv.fields) == 1 && !isIntCursorField(fn, pv.fields[0], cursorPaths) {
								gate[pv.fields[0]] = true
							}
						})
					}
				}
			}
			if cf, ok := g.asCmp(); ok {
				for _, v := range []ssa.Value{cf.x, cf.y} {
					if f := iterFieldOf(v); f != "" && !cursorPaths[path(v)] {
						gate[f] = true
					}
				}
			}
		}
	})
	after := false
	for _, di := range deepInstrs(fn, 2) {
		if st, ok := di.in.(*ssa.Store); ok {
			pv := addrProv(st.Addr, provEnv{chain: di.calls})
			if pp, ok := pv.root.(*ssa.Parameter); ok && pp == fn.Params[0] && len(pv.fields) == 1 && gate[pv.fields[0]] {
				after = true
			}
		}
	}
	r.ok(after && k >= 1, "deque.dequeIterator.Next|terminates-after-back", fn.Pos(), "the iterator must record that it has yielded the back element (a flag or count that gates its end-return and that Next itself sets), which is how it ends without a position comparison")
}

// isIterPosition: v is (a local copy of) an int field of the deque iterator struct - its cursor position.
func isIterPosition(v ssa.Value) bool {
	ld, ok := resolveVal(v).(*ssa.UnOp)
	if !ok || ld.Op != token.MUL {
		return false
	}
	fa, ok := ld.X.(*ssa.FieldAddr)
	return ok && isNamedType(fa.X.Type(), "container/deque", "dequeIterator") && isIntType(ld.Type())
}

// C04.contiguity-siblings: the deque decides in several places whether its contents are contiguous (front <= back) or wrapped
// around the end of the buffer (front > back): Len, resize and whoever else compares the two ends. All of these tests must cut
// at the same point - a one-element deque (front == back) is contiguous everywhere or nowhere. A sibling that uses < where
// the others use <= copies a one-element deque as if it were wrapped.
var _ = late(func() {
	p := properties["C04"]
	p.Rules = append(p.Rules, &Rule{ID: "C04.contiguity-siblings", Floor: 1, Clause: "every comparison of a deque's front with its back (Len, resize, …) cuts at the same point: front <= back / front > back everywhere, so a one-element deque (front == back) is treated as contiguous by all of them",
		Run: func(c *Ctx, r *R) {
			type site struct {
				pos  token.Pos
				name string
				rel  string // normalised relation between front and back: "<=", "<", "==", …
			}
			var sites []site
			endField := func(v ssa.Value) string {
				ld, ok := resolveVal(v).(*ssa.UnOp)
				if !ok || ld.Op != token.MUL {
					return ""
				}
				fa, ok := ld.X.(*ssa.FieldAddr)
				if !ok || !isNamedType(fa.X.Type(), "container/deque", "Deque") {
					return ""
				}
				f := fieldName(fa.X.Type(), fa.Field)
				if f == "front" || f == "back" {
					return f
				}
				return ""
			}
			for _, fn := range c.funcsOfPkg("container/deque") {
				instrs(fn, func(b *ssa.BasicBlock, i int, in ssa.Instruction) {
					bo, ok := in.(*ssa.BinOp)
					if !ok {
						return
					}
					switch bo.Op {
					case token.LSS, token.LEQ, token.GTR, token.GEQ:
					default:
						return
					}
					fx, fy := endField(bo.X), endField(bo.Y)
					if fx == "" || fy == "" || fx == fy {
						// a test on the distance between the ends (n := d.back - d.front + 1; if n < 0 {...}): normalised to
						// "back - front < t" / ">= t"; contiguous vs wrapped is the cut t = 0 (the same cut as front <= back)
						lin := func(e *sx) (cb, cf, k int64, ok bool) {
							var walk func(e *sx, sign int64) bool
							walk = func(e *sx, sign int64) bool {
								switch {
								case e == nil:
									return false
								case e.op == "const":
									kc, isK := e.v.(*ssa.Const)
									if !isK || kc.Value == nil {
										return false
									}
									k += sign * kc.Int64()
									return true
								case e.op == "leaf" && e.fieldSuffix("back"):
									cb += sign
									return true
								case e.op == "leaf" && e.fieldSuffix("front"):
									cf += sign
									return true
								case e.op == "+" && len(e.args) == 2:
									return walk(e.args[0], sign) && walk(e.args[1], sign)
								case e.op == "-" && len(e.args) == 2:
									return walk(e.args[0], sign) && walk(e.args[1], -sign)
								}
								return false
							}
							ok = walk(e, 1)
							return
						}
						xb, xf, xk, ok1 := lin(symOf(bo.X, provEnv{}))
						yb, yf, yk, ok2 := lin(symOf(bo.Y, provEnv{}))
						if !ok1 || !ok2 {
							return
						}
						// (xb-yb)*back + (xf-yf)*front  OP  yk-xk
						b, f, c0 := xb-yb, xf-yf, yk-xk
						op := bo.Op
						if b == -1 && f == 1 {
							b, f, c0 = 1, -1, -c0
							op = flip(op)
						}
						if b != 1 || f != -1 {
							return
						}
						// back - front OP c0  ->  threshold t with "D < t" (or its negation "D >= t")
						t := c0
						switch op {
						case token.LEQ, token.GTR:
							t = c0 + 1
						}
						rel := "t=" + itoa(int(t))
						switch t {
						case 0:
							rel = "<="
						case 1:
							rel = "<"
						}
						sites = append(sites, site{bo.Pos(), c.nameOf(fn), rel})
						return
					}
					op := bo.Op
					if fx == "back" {
						op = flip(op) // write as front OP back
					}
					// front <= back and its negation front > back are the same cut; front < back / front >= back the other one
					rel := "<="
					if op == token.LSS || op == token.GEQ {
						rel = "<"
					}
					sites = append(sites, site{bo.Pos(), c.nameOf(fn), rel})
				})
			}
			count := map[string]int{}
			for _, s := range sites {
				count[s.rel]++
			}
			major := "<="
			if count["<"] > count["<="] && len(sites) >= 2 {
				major = "<"
			}
			for i, s := range sites {
				r.ok(s.rel == major, s.name+"|front-vs-back#"+itoa(i+1), s.pos, "this test treats front == back (a one-element deque) differently from the other "+itoa(count[major])+" front/back comparisons of the package (which cut at front "+major+" back): a one-element deque is copied or measured as if it wrapped around")
			}
			if len(sites) == 0 {
				r.discharged("container/deque|front-vs-back", token.NoPos, "the package compares front with back nowhere (lengths and copies are computed arithmetically): no two tests can disagree")
			}
		}})
})

// C04.canonical-empty.
func ruleDequeCanonicalEmpty(c *Ctx, r *R) {
	n := 0
	for _, fn := range c.funcsOfPkg("container/deque") {
		if fn.Blocks == nil {
			continue
		}
		setsBackNeg := false
		isEndStore := func(in ssa.Instruction, end string, k int64) bool {
			st, ok := in.(*ssa.Store)
			if !ok {
				return false
			}
			fa, ok := st.Addr.(*ssa.FieldAddr)
			if !ok || !isNamedType(fa.X.Type(), "container/deque", "Deque") || fieldName(fa.X.Type(), fa.Field) != end {
				return false
			}
			if _, fresh := fa.X.(*ssa.Alloc); fresh {
				return false
			}
			return isConstInt(resolveVal(st.Val), k)
		}
		instrs(fn, func(_ *ssa.BasicBlock, _ int, in ssa.Instruction) {
			if isEndStore(in, "back", -1) {
				setsBackNeg = true
			}
		})
		if !setsBackNeg {
			continue
		}
		n++
		// bit 0: back = -1 stored on this path; bit 1: front = 0 stored on this path
		pf := &PF{N: 4}
		pf.Instr = func(f *ssa.Function, in ssa.Instruction, q int) (StateSet, bool) {
			if isEndStore(in, "back", -1) {
				return ss(q | 1), true
			}
			if isEndStore(in, "front", 0) {
				return ss(q | 2), true
			}
			// any other store to either end starts over
			if st, ok := in.(*ssa.Store); ok {
				if fa, ok := st.Addr.(*ssa.FieldAddr); ok && isNamedType(fa.X.Type(), "container/deque", "Deque") {
					switch fieldName(fa.X.Type(), fa.Field) {
					case "back":
						return ss(q &^ 1), true
					case "front":
						return ss(q &^ 2), true
					}
				}
			}
			return 0, false
		}
		good := true
		var bad *ssa.Return
		for _, e := range pf.Exits(fn, ss(0)) {
			e.States.each(func(q int) {
				if q&1 != 0 && q&2 == 0 {
					good = false
					bad = e.Ret
				}
			})
		}
		pos := fn.Pos()
		if bad != nil {
			pos = retPos(bad)
		}
		r.ok(good, c.nameOf(fn)+"|empty-is-front0-back-1", pos, "a path marks the deque empty (back = -1) without resetting front to 0: the next PushBack lands on slot 0 while front still points elsewhere, so Len() counts cleared slots as elements")
	}
	if n == 0 {
		r.undecided("container/deque|empty-marker", token.NoPos, "no function stores the empty marker back = -1")
	}
}

// C04.guard-tests-argument.
func ruleDequeGuardTestsArgument(c *Ctx, r *R) {
	for _, name := range []string{"Shrink", "Item", "Set"} {
		fn := dq(c, name)
		if fn == nil {
			r.undecided("deque.Deque."+name+"|missing", token.NoPos, "anchor not found")
			continue
		}
		if len(fn.Params) < 2 {
			continue
		}
		arg := fn.Params[1]
		// every comparison that leads (directly) into a panic block and mentions the argument must have the argument itself
		// as an operand; and at least one such comparison `arg < 0` exists
		negTest := false
		good := true
		nUpper, upperOK, upperWhy := 0, true, ""
		var badPos token.Pos
		type pblock struct {
			b     *ssa.BasicBlock
			chain []*ssa.Call
		}
		var panics []pblock
		for _, fr := range deepFrames(fn, 2) { // the check may live in a helper (d.slot(i))
			for _, b := range fr.f.Blocks {
				if len(b.Instrs) == 0 {
					continue
				}
				if _, isPanic := b.Instrs[len(b.Instrs)-1].(*ssa.Panic); isPanic {
					panics = append(panics, pblock{b, fr.chain})
				}
			}
		}
		for _, pbk := range panics {
			b, chain := pbk.b, pbk.chain
			// the disjuncts of the guard: one branch per predecessor of the panic block (`i < 0 || i >= Len()`)
			var gs []guard
			for _, pb := range b.Preds {
				if iff, ok := pb.Instrs[len(pb.Instrs)-1].(*ssa.If); ok {
					gs = append(gs, expandGuard(guard{cond: iff.Cond, val: pb.Succs[0] == b, blk: pb}, 0)...)
				}
			}
			for _, g := range gs {
				cf, ok := g.asCmp()
				if !ok {
					continue
				}
				for _, side := range [][2]ssa.Value{{cf.x, cf.y}, {cf.y, cf.x}} {
					op := cf.op
					if side[0] == cf.y {
						op = flip(op)
					}
					v := resolveVal(argOf(resolveVal(side[0]), chain))
					if v == ssa.Value(arg) {
						if (op == token.LSS && isConstInt(side[1], 0)) || (op == token.LEQ && isConstInt(side[1], -1)) {
							negTest = true
						}
						if op == token.GEQ || op == token.GTR {
							// the upper limit: the number of items (Len()), not the size of the ring buffer
							nUpper++
							for _, u := range []ssa.Value{resolveVal(argOf(resolveVal(side[1]), chain))} {
								isLen := false
								if call, ok := u.(*ssa.Call); ok {
									if cal := staticCallee(&call.Call); cal != nil && fname(cal) == "Len" && cal.Signature.Recv() != nil && op == token.GEQ {
										isLen = true
									}
								}
								if !isLen {
									upperOK = false
									upperWhy = "the limit is " + path(u)
								}
							}
						}
						continue
					}
					if _, isParam := v.(*ssa.Parameter); isParam {
						continue
					}
					// an operand computed from the argument
					if bin, ok := v.(*ssa.BinOp); ok && dependsOnValue(bin, arg, 0) {
						good = false
						badPos = bin.Pos()
					}
				}
			}
		}
		pos := fn.Pos()
		if badPos.IsValid() {
			pos = badPos
		}
		r.ok(good && negTest, "deque.Deque."+name+"|guard-tests-argument", pos, name+" must panic for every negative argument: its guard has to test "+pname(arg)+" < 0 on the argument itself, not on a value computed from it")
		if name != "Shrink" {
			r.ok(nUpper > 0 && upperOK, "deque.Deque."+name+"|upper-limit-is-len", pos, name+" must panic for every index >= Len(): the guard's upper limit has to be the number of items ("+pname(arg)+" >= Len()), not the size of the ring buffer or another quantity - an index between Len() and the capacity addresses a slot outside the live range: "+upperWhy)
		}
	}
}

func dependsOnValue(v ssa.Value, target ssa.Value, d int) bool {
	if d > 6 {
		return false
	}
	v = resolveVal(v)
	if v == target {
		return true
	}
	switch x := v.(type) {
	case *ssa.BinOp:
		return dependsOnValue(x.X, target, d+1) || dependsOnValue(x.Y, target, d+1)
	case *ssa.UnOp:
		if x.Op != token.MUL {
			return dependsOnValue(x.X, target, d+1)
		}
	case *ssa.Convert:
		return dependsOnValue(x.X, target, d+1)
	}
	return false
}

// isIntCursorField: field f of the iterator is its cursor (one of the index paths used to read d.a ends in .f).
func isIntCursorField(fn *ssa.Function, f string, cursorPaths map[string]bool) bool {
	for p := range cursorPaths {
		if strings.HasSuffix(p, "."+f) {
			return true
		}
	}
	return false
}

// sxAlternatives: the alternatives of a value chosen by control flow (`newBack := d.front; if d.back != -1 { newBack = ... }`): a
// merge whose every alternative is acceptable is acceptable. The positive-modulo idiom is itself a merge and is kept whole.
func sxAlternatives(e *sx, field string) []*sx {
	if e == nil || e.op != "phi" || len(e.args) == 0 {
		return []*sx{e}
	}
	if _, isMod := e.modLen(field); isMod {
		return []*sx{e}
	}
	var out []*sx
	for _, a := range e.args {
		out = append(out, sxAlternatives(a, field)...)
	}
	return out
}
