package main

import (
	"go/token"
	"go/types"
	"strings"

	"golang.org/x/tools/go/ssa"
)

func init() {
	register(&Property{
		ID:    "C19",
		Title: "pure helpers (xslices, xsort, xmaps, xmath, xerrors, xrand) match their spec",
		Rules: []*Rule{
			{ID: "C19.is-target", Floor: 0, Clause: "no errors.Is call has a target whose dynamic type is statically known, non-comparable and without an Is method (such a call is constantly false) - repo-wide",
				Run: ruleIsTarget},
			{ID: "C19.withstack-idempotent", Floor: 5, Clause: "WithStack returns nil under err == nil, returns its argument unchanged on a path guarded by a chain-walking test (errors.As / errors.Is with a satisfiable target) for an attached stack, otherwise wraps exactly its argument; withStack.Unwrap returns the wrapped error",
				Run: ruleWithStack},
			{ID: "C19.abs-clamp-adapters", Floor: 9, Clause: "Abs negates only under x < 0 and after the overflow test; Clamp returns min under x < min, max under x > max, else x; the xsort adapters call less with the argument order and negation their names fix",
				Run: ruleAbsClampAdapters},
			{ID: "C19.tail-cleared", Floor: 3, Clause: "RemoveUnordered and UniqueInPlace clear the vacated tail on every path; MergeSlices truncates out to out[:0] before appending (documented aliasing effect)",
				Run: ruleTailCleared},
			{ID: "C19.param-effects", Floor: 40, Clause: "no exported helper of xslices, xsort, xmaps, xmath, xerrors, xrand writes through a slice / map argument (stores, map updates, copy/append/clear/delete, sort and slices.* writers, module callees, closures - interprocedural) unless its documentation says it works in place (frozen table of 18 documented writers): an undocumented aliasing effect such as Compact or Intersection losing its Clone is reported",
				Run: ruleParamEffects},
			{ID: "C19.permutation-writes", Floor: 6, Clause: "helpers that rearrange a slice in place without changing its length (Partition, Reverse, the Shuffle callback) store elements of the slice into the slice only as halves of a swap, so the result is a permutation of the input",
				Run: rulePermutationWrites},
			{ID: "C19.shrink-capacity", Floor: 2, Clause: "every value Shrink returns has a capacity statically bounded by len(s)+n: the argument under the guard cap(s) <= len(s)+n, or a cut of a make() whose capacity operand is len(s)+n; never the result of append or an append-based helper",
				Run: ruleShrinkCapacity},
			{ID: "C19.runs-adjacent", Floor: 3, Clause: "Runs: each run appended in the loop ends exactly where the next one starts on every path into the loop (edge-by-edge induction over the loop-header phis), the last run is s[lo:] and is appended whenever s is non-empty",
				Run: ruleRunsAdjacent},
			{ID: "C19.empty-in-empty-out", Floor: 10, Clause: "no exported xslices function from slice(s) to a slice returns a result that is non-empty on every path (an unconditional append of an element, a literal or a make with a positive constant length as the only thing returned): such a result is wrong for the empty input (Chunk, Runs, Map, Filter, Unique, … all map [] to [])",
				Run: ruleEmptyInEmptyOut},
			{ID: "C19.intersect-universal", Floor: 2, Clause: "xmaps.Intersection and xmaps.Intersects keep / report a key of the smallest set only if no membership test in any other set failed for it (typestate over the loop nest, reset per key), and do not use an existential library quantifier for that",
				Run: ruleIntersectUniversal},
			{ID: "C19.heap-nonempty", Floor: 3, Clause: "xsort.Merge's iterator and xsort.MinK call Pop/Peek only with evidence that the heap is non-empty (Len() > 0 test on the same heap, a Push before it on every path, or a drain loop counting down from Len()); a test against an arbitrary k is no evidence (k <= 0)",
				Run: ruleHeapNonEmpty},
			{ID: "C19.sample-bounds", Floor: 2, Clause: "rSample / rSampleSlice store into the reservoir only where next < n (resp. len(a)), slot and position coming from one sampler.Next call",
				Run: ruleSampleBounds},
		},
		NotCovered: []string{"value-level results of Partition, Chunk, Search, Merge, MinK and the xmaps set algebra (beyond: inputs not written, swaps only, capacity bound, run adjacency)", "sampling uniformity (statistical)", "writes through slices handed to unknown function values"},
	})
}

func hasIsMethod(t types.Type) bool {
	for _, tt := range []types.Type{t, types.NewPointer(t)} {
		ms := types.NewMethodSet(tt)
		for i := 0; i < ms.Len(); i++ {
			if ms.At(i).Obj().Name() == "Is" {
				return true
			}
		}
	}
	return false
}

func ruleIsTarget(c *Ctx, r *R) {
	n := 0
	for _, fn := range c.Funcs {
		name := c.nameOf(fn)
		instrs(fn, func(b *ssa.BasicBlock, i int, in ssa.Instruction) {
			call, ok := in.(*ssa.Call)
			if !ok || !isCallTo(&call.Call, "errors", "", "Is") {
				return
			}
			n++
			key := name + "|errors.Is#" + itoa(n)
			tgt := call.Call.Args[1]
			mi, ok := tgt.(*ssa.MakeInterface)
			if !ok {
				r.discharged(key, call.Pos(), "target's dynamic type is not statically known")
				return
			}
			t := mi.X.Type()
			if !types.Comparable(t) && !hasIsMethod(t) {
				r.violated(key, call.Pos(), "errors.Is with a target of type "+t.String()+", which is not comparable and has no Is method: the call is constantly false")
				return
			}
			r.discharged(key, call.Pos(), "target type "+t.String()+" can match")
		})
	}
}

func ruleWithStack(c *Ctx, r *R) {
	fn := c.fn("xerrors.WithStack")
	if fn == nil {
		r.undecided("xerrors.WithStack|missing", token.NoPos, "anchor not found")
		return
	}
	errP := fn.Params[0]
	nilRet, sameRet, wrapRet := false, false, false
	chainWalk := false
	instrs(fn, func(b *ssa.BasicBlock, i int, in ssa.Instruction) {
		ret, ok := in.(*ssa.Return)
		if !ok {
			return
		}
		res := returnedValue(ret, 0)
		switch {
		case isNilConst(res):
			for _, g := range guardsOf(b) {
				if cf, ok := g.asCmp(); ok && cf.x == ssa.Value(errP) && cf.op == token.EQL && isNilConst(cf.y) {
					nilRet = true
				}
			}
		case res == ssa.Value(errP):
			sameRet = true
			for _, g := range guardsOf(b) {
				if v, val := g.boolVal(); val {
					for _, lf := range valueLeaves(v, nil, 0) {
						isErrP := func(a ssa.Value) bool {
							pv := valueProv(a, provEnv{chain: lf.chain})
							return pv.root == ssa.Value(errP) && len(pv.fields) == 0
						}
						if call, ok := lf.v.(*ssa.Call); ok {
							if isCallTo(&call.Call, "errors", "", "As") && isErrP(call.Call.Args[0]) {
								// the target is *withStack
								if pt, ok := call.Call.Args[1].(*ssa.MakeInterface); ok {
									if p, ok := pt.X.Type().(*types.Pointer); ok && typeShort(p.Elem()) == "withStack" {
										chainWalk = true
									}
								}
							}
							if isCallTo(&call.Call, "errors", "", "Is") && isErrP(call.Call.Args[0]) {
								if mi, ok := call.Call.Args[1].(*ssa.MakeInterface); ok && (types.Comparable(mi.X.Type()) || hasIsMethod(mi.X.Type())) {
									chainWalk = true
								}
							}
						}
					}
				}
			}
		default:
			// wrap: a withStack whose inner is the parameter
			if mi, ok := res.(*ssa.MakeInterface); ok && typeShort(mi.X.Type()) == "withStack" {
				if ld, ok := mi.X.(*ssa.UnOp); ok {
					if al, ok := ld.X.(*ssa.Alloc); ok {
						for _, ref := range *al.Referrers() {
							if fa, ok := ref.(*ssa.FieldAddr); ok && fieldName(fa.X.Type(), fa.Field) == "inner" {
								for _, r2 := range *fa.Referrers() {
									if st, ok := r2.(*ssa.Store); ok && st.Val == ssa.Value(errP) {
										wrapRet = true
									}
								}
							}
						}
					}
				}
			}
		}
	})
	r.ok(nilRet, "xerrors.WithStack|nil-preserving", fn.Pos(), "WithStack(nil) must return nil (under the err == nil edge)")
	r.ok(sameRet, "xerrors.WithStack|returns-argument-when-wrapped", fn.Pos(), "WithStack must have a path that returns its argument unchanged (already has a stack)")
	r.ok(chainWalk, "xerrors.WithStack|already-wrapped-check", fn.Pos(), "the 'already has a stack' test must walk err's Unwrap chain with a test that can succeed (errors.As(err, *withStack), or errors.Is with a comparable/Is-implementing target): a direct type assertion misses a stack attached below another wrapper, and errors.Is against a non-comparable target is constantly false - either way WithStack wraps twice")
	r.ok(wrapRet, "xerrors.WithStack|wraps-argument", fn.Pos(), "the wrapper returned must carry exactly the argument as its inner error")
	uw := c.fn("xerrors.withStack.Unwrap")
	okU := false
	if uw != nil {
		instrs(uw, func(b *ssa.BasicBlock, i int, in ssa.Instruction) {
			if ret, ok := in.(*ssa.Return); ok && strings.HasSuffix(path(returnedValue(ret, 0)), ".inner") {
				okU = true
			}
		})
	}
	r.ok(okU, "xerrors.withStack.Unwrap|returns-inner", token.NoPos, "Unwrap must return the wrapped error (transparency to errors.Is/As/Unwrap)")
}

func ruleAbsClampAdapters(c *Ctx, r *R) {
	if fn := c.fn("xmath.Abs"); fn != nil {
		x := fn.Params[0]
		good := false
		instrs(fn, func(b *ssa.BasicBlock, i int, in ssa.Instruction) {
			ret, ok := in.(*ssa.Return)
			if !ok {
				return
			}
			if neg, ok := returnedValue(ret, 0).(*ssa.UnOp); ok && neg.Op == token.SUB && neg.X == ssa.Value(x) {
				lt0, noOverflow := false, false
				for _, g := range guardsOf(b) {
					if cf, ok := g.asCmp(); ok {
						if cf.x == ssa.Value(x) && cf.op == token.LSS && isConstInt(cf.y, 0) {
							lt0 = true
						}
						// false edge of -x == x
						if cf.op == token.NEQ {
							if n2, ok := cf.x.(*ssa.UnOp); ok && n2.Op == token.SUB && n2.X == ssa.Value(x) && cf.y == ssa.Value(x) {
								noOverflow = true
							}
						}
					}
				}
				good = lt0 && noOverflow
			}
		})
		r.ok(good, "xmath.Abs|negate-guards", fn.Pos(), "Abs must return -x only under x < 0 and after ruling out the minimum value (which must panic)")
		// non-negative path returns x
		pos := false
		instrs(fn, func(b *ssa.BasicBlock, i int, in ssa.Instruction) {
			if ret, ok := in.(*ssa.Return); ok && returnedValue(ret, 0) == ssa.Value(x) {
				for _, g := range guardsOf(b) {
					if cf, ok := g.asCmp(); ok && cf.x == ssa.Value(x) && cf.op == token.GEQ && isConstInt(cf.y, 0) {
						pos = true
					}
				}
			}
		})
		r.ok(pos, "xmath.Abs|identity-when-nonnegative", fn.Pos(), "Abs must return x itself under x >= 0")
	} else {
		r.undecided("xmath.Abs|missing", token.NoPos, "anchor not found")
	}
	if fn := c.fn("xmath.Clamp"); fn != nil {
		x, lo, hi := fn.Params[0], fn.Params[1], fn.Params[2]
		okLo, okHi, okX := false, false, false
		instrs(fn, func(b *ssa.BasicBlock, i int, in ssa.Instruction) {
			ret, ok := in.(*ssa.Return)
			if !ok {
				return
			}
			gs := guardsOf(b)
			has := func(a ssa.Value, op token.Token, bb ssa.Value) bool {
				for _, g := range gs {
					if cf, ok := g.asCmp(); ok {
						if cf.x == a && cf.op == op && cf.y == bb {
							return true
						}
						if cf.x == bb && flip(cf.op) == op && cf.y == a {
							return true
						}
					}
				}
				return false
			}
			switch returnedValue(ret, 0) {
			case ssa.Value(lo):
				okLo = has(x, token.LSS, lo)
			case ssa.Value(hi):
				okHi = has(x, token.GTR, hi)
			case ssa.Value(x):
				okX = has(x, token.GEQ, lo) && has(x, token.LEQ, hi)
			}
		})
		r.ok(okLo, "xmath.Clamp|returns-min-below", fn.Pos(), "Clamp must return min exactly under x < min")
		r.ok(okHi, "xmath.Clamp|returns-max-above", fn.Pos(), "Clamp must return max exactly under x > max")
		r.ok(okX, "xmath.Clamp|returns-x-inside", fn.Pos(), "Clamp must return x when min <= x <= max")
	} else {
		r.undecided("xmath.Clamp|missing", token.NoPos, "anchor not found")
	}
	// xsort adapters
	type ad struct {
		name    string
		swapped []bool // per less call: are the arguments (b, a)?
		negated bool
	}
	for _, a := range []ad{
		{"xsort.Greater", []bool{true}, false},
		{"xsort.LessOrEqual", []bool{true}, true},
		{"xsort.GreaterOrEqual", []bool{false}, true},
		{"xsort.Reverse$1", []bool{true}, false},
	} {
		fn := c.fn(a.name)
		if fn == nil {
			r.undecided(a.name+"|missing", token.NoPos, "anchor not found")
			continue
		}
		var pa, pb ssa.Value
		ps := fn.Params
		pa, pb = ps[len(ps)-2], ps[len(ps)-1]
		good := false
		instrs(fn, func(b *ssa.BasicBlock, i int, in ssa.Instruction) {
			ret, ok := in.(*ssa.Return)
			if !ok {
				return
			}
			v := returnedValue(ret, 0)
			neg := false
			if u, ok := v.(*ssa.UnOp); ok && u.Op == token.NOT {
				neg = true
				v = u.X
			}
			call, ok := v.(*ssa.Call)
			if ok && len(call.Call.Args) == 3 {
				// Reverse as Greater(less, a, b): a sibling adapter (whose own direction is its own obligation) applied to the
				// same two operands - the sibling's order, exchanged once more if the operands are
				if cal := staticCallee(&call.Call); cal != nil {
					for _, sib := range []ad{{"xsort.Greater", []bool{true}, false}, {"xsort.LessOrEqual", []bool{true}, true}, {"xsort.GreaterOrEqual", []bool{false}, true}} {
						if sf := c.fn(sib.name); sf == nil || origin(sf) != origin(cal) || sib.name == a.name {
							continue
						}
						x, y := call.Call.Args[1], call.Call.Args[2]
						sw2 := x == pb && y == pa
						st2 := x == pa && y == pb
						if (sw2 || st2) && (sib.swapped[0] != sw2) == a.swapped[0] && (sib.negated != neg) == a.negated {
							good = true
						}
					}
				}
				return
			}
			if !ok || len(call.Call.Args) != 2 {
				return
			}
			sw := call.Call.Args[0] == pb && call.Call.Args[1] == pa
			st := call.Call.Args[0] == pa && call.Call.Args[1] == pb
			if (sw || st) && sw == a.swapped[0] && neg == a.negated {
				good = true
			}
		})
		r.ok(good, a.name+"|direction", fn.Pos(), "the adapter's call of less must have the argument order and negation its name fixes (MinK, the tree and the heaps inherit their direction from these)")
	}
	// LessCompare sign
	if fn := c.fn("xsort.LessCompare$1"); fn != nil {
		pa, pb := fn.Params[0], fn.Params[1]
		neg, pos, zero := false, false, false
		instrs(fn, func(b *ssa.BasicBlock, i int, in ssa.Instruction) {
			ret, ok := in.(*ssa.Return)
			if !ok {
				return
			}
			k, ok := returnedValue(ret, 0).(*ssa.Const)
			if !ok {
				return
			}
			var lessAB, lessBA, notAB, notBA bool
			for _, g := range guardsOf(b) {
				v, val := g.boolVal()
				call, ok := v.(*ssa.Call)
				if !ok || len(call.Call.Args) != 2 {
					continue
				}
				ab := call.Call.Args[0] == ssa.Value(pa) && call.Call.Args[1] == ssa.Value(pb)
				ba := call.Call.Args[0] == ssa.Value(pb) && call.Call.Args[1] == ssa.Value(pa)
				if ab && val {
					lessAB = true
				}
				if ba && val {
					lessBA = true
				}
				if ab && !val {
					notAB = true
				}
				if ba && !val {
					notBA = true
				}
			}
			switch {
			case k.Int64() < 0:
				neg = lessAB
			case k.Int64() > 0:
				pos = lessBA && notAB
			default:
				zero = notAB && notBA
			}
		})
		r.ok(neg && pos && zero, "xsort.LessCompare|sign", fn.Pos(), "the three-way compare built from less must be negative under less(a,b), positive under less(b,a), zero otherwise")
	} else {
		r.undecided("xsort.LessCompare|missing", token.NoPos, "anchor not found")
	}
}

func ruleTailCleared(c *Ctx, r *R) {
	for _, name := range []string{"xslices.RemoveUnordered", "xslices.UniqueInPlace"} {
		fn := c.fn(name)
		if fn == nil {
			r.undecided(name+"|missing", token.NoPos, "anchor not found")
			continue
		}
		// typestate: 0 = tail not cleared, 1 = cleared
		pf := &PF{N: 2}
		sP := fn.Params[0]
		isTailOf := func(v ssa.Value) bool { // s[k:]
			sl, ok := resolveVal(v).(*ssa.Slice)
			return ok && sl.Low != nil && sl.High == nil && resolveVal(sl.X) == ssa.Value(sP)
		}
		pf.Instr = func(f *ssa.Function, in ssa.Instruction, q int) (StateSet, bool) {
			if call, ok := in.(*ssa.Call); ok {
				if cal := staticCallee(&call.Call); cal != nil && (fname(cal) == "Clear" || fname(cal) == "Fill") && isTailOf(call.Call.Args[0]) {
					if fname(cal) == "Clear" || (len(call.Call.Args) == 2 && isZeroValue(call.Call.Args[1])) {
						return ss(1), true
					}
				}
				if bi, ok := call.Call.Value.(*ssa.Builtin); ok && bi.Name() == "clear" && len(call.Call.Args) == 1 && isTailOf(call.Call.Args[0]) {
					return ss(1), true
				}
			}
			return 0, false
		}
		// an explicit zeroing loop over the tail: leaving `for i := k; i < len(s); i++ { s[i] = zero }` (or a range over s[k:])
		// through its exit edge means every slot from k on was overwritten with the zero value
		zeroIdx := map[ssa.Value]bool{}
		instrs(fn, func(b *ssa.BasicBlock, i int, in ssa.Instruction) {
			st, ok := in.(*ssa.Store)
			if !ok || !isZeroValue(st.Val) {
				return
			}
			if ia, ok := st.Addr.(*ssa.IndexAddr); ok {
				base := resolveVal(ia.X)
				if base == ssa.Value(sP) || isTailOf(base) {
					zeroIdx[ia.Index] = true
				}
			}
		})
		pf.Edge = func(f *ssa.Function, g guard, q int) (StateSet, bool) {
			cf, ok := g.asCmp()
			if !ok {
				return 0, false
			}
			x, y, op := cf.x, cf.y, cf.op
			if zeroIdx[y] {
				x, y, op = y, x, flip(op)
			}
			if !zeroIdx[x] || op != token.GEQ {
				return 0, false
			}
			// the bound is the length of s (or of the tail slice being ranged over)
			yl := resolveVal(y)
			if isLenOf(yl, sP) {
				return ss(1), true
			}
			if call, ok := yl.(*ssa.Call); ok {
				if bi, ok := call.Call.Value.(*ssa.Builtin); ok && bi.Name() == "len" && isTailOf(call.Call.Args[0]) {
					return ss(1), true
				}
			}
			return 0, false
		}
		good := true
		for _, e := range pf.Exits(fn, ss(0)) {
			if e.States.has(0) {
				good = false
			}
		}
		r.ok(good, name+"|tail-cleared", fn.Pos(), "the vacated tail of the input slice must be cleared on every path (the removed elements must not stay reachable)")
	}
	fn := c.fn("xsort.MergeSlices")
	if fn == nil {
		r.undecided("xsort.MergeSlices|missing", token.NoPos, "anchor not found")
		return
	}
	var outP *ssa.Parameter
	for _, p := range fn.Params {
		if p.Name() == "out" {
			outP = p
		}
	}
	good := outP != nil
	if outP != nil && outP.Referrers() != nil {
		for _, ref := range *outP.Referrers() {
			switch x := ref.(type) {
			case *ssa.Slice:
				if !(x.High != nil && isConstInt(x.High, 0)) {
					good = false
				}
			case *ssa.DebugRef:
			default:
				good = false
			}
		}
	}
	r.ok(good, "xsort.MergeSlices|truncates-out", fn.Pos(), "MergeSlices must use out only as out[:0] (reuse its capacity, discard its contents): appending after stale contents returns a slice that is neither sorted nor the union of the inputs")
}

var _ = late(func() {
	p := properties["C19"]
	p.Rules = append(p.Rules, &Rule{ID: "C19.sample-siblings", Floor: 4, Clause: "the four rSample* siblings agree on their tail: the slice handed to rShuffle is the very value that is returned (truncation to min(k, n) happens before the shuffle, never after)",
		Run: func(c *Ctx, r *R) {
			for _, n := range []string{"rSample", "rSampleIterator", "rSampleStream", "rSampleSlice"} {
				fn := c.fn("xmath/xrand." + n)
				if fn == nil {
					r.undecided("xrand."+n+"|missing", token.NoPos, "anchor not found")
					continue
				}
				// the tail may live in a shared implementation the sibling returns the result of (rSampleIndexed)
				var tailOK func(f *ssa.Function, d int) bool
				tailOK = func(f *ssa.Function, d int) bool {
					var shuffled ssa.Value
					instrs(f, func(b *ssa.BasicBlock, i int, in ssa.Instruction) {
						if call, ok := in.(*ssa.Call); ok {
							if cal := staticCallee(&call.Call); cal != nil && fname(cal) == "rShuffle" {
								shuffled = call.Call.Args[len(call.Call.Args)-1]
							}
						}
					})
					good := false
					instrs(f, func(b *ssa.BasicBlock, i int, in ssa.Instruction) {
						ret, ok := in.(*ssa.Return)
						if !ok || b.Comment == "recover" || len(ret.Results) == 0 {
							return
						}
						rv := returnedValue(ret, 0)
						if isNilConst(rv) {
							return // error return
						}
						if shuffled != nil && rv == shuffled {
							good = true
						}
						if call, ridx := resultCall(rv); call != nil && ridx == 0 && shuffled == nil && d < 2 {
							if cal := staticCallee(&call.Call); cal != nil && cal.Blocks != nil && rootFn(cal).Pkg == rootFn(fn).Pkg && cal != f {
								if tailOK(cal, d+1) {
									good = true
								}
							}
						}
					})
					return good
				}
				good := tailOK(fn, 0)
				r.ok(good, "xrand."+n+"|shuffle-what-is-returned", fn.Pos(), "the sample must be truncated to min(k, n) first and then shuffled; shuffling the untruncated buffer mixes unfilled zero slots into the returned prefix and cuts real items off")
			}
		}})
})
