package main

import (
	"bytes"
	"go/ast"
	"go/constant"
	"go/printer"
	"go/token"
	"go/types"
	"sort"
	"strings"
	"unicode"
)

// E-SH mirror check: two functions declared as duals are compared, after renaming one of them by a fixed
// duality applied to the camel-case words of every identifier, as MULTISETS of normalised atoms. An atom is a
// simple statement or a branch condition together with the chain of conditions it is nested under, so
// reordering independent statements or renaming locals consistently does not matter.

type duality struct {
	words map[string]string // lower-case word ↔ lower-case word (symmetric closure is built)
	ops   bool              // also swap < ↔ > and <= ↔ >= (three-way compare code)
	// identifiers whose words are NOT renamed (e.g. the method being defined)
	keep map[string]bool
}

func newDuality(ops bool, pairs ...string) *duality {
	d := &duality{words: map[string]string{}, ops: ops, keep: map[string]bool{}}
	for i := 0; i+1 < len(pairs); i += 2 {
		d.words[strings.ToLower(pairs[i])] = strings.ToLower(pairs[i+1])
		d.words[strings.ToLower(pairs[i+1])] = strings.ToLower(pairs[i])
	}
	return d
}

func splitWords(id string) []string {
	var out []string
	cur := []rune{}
	rs := []rune(id)
	for i, r := range rs {
		if i > 0 && unicode.IsUpper(r) && (unicode.IsLower(rs[i-1]) || (i+1 < len(rs) && unicode.IsLower(rs[i+1]))) {
			out = append(out, string(cur))
			cur = nil
		}
		cur = append(cur, r)
	}
	if len(cur) > 0 {
		out = append(out, string(cur))
	}
	return out
}

func (d *duality) ident(id string) string {
	if d.keep[id] {
		return id
	}
	ws := splitWords(id)
	for i, w := range ws {
		if m, ok := d.words[strings.ToLower(w)]; ok {
			if unicode.IsUpper([]rune(w)[0]) {
				m = strings.ToUpper(m[:1]) + m[1:]
			}
			ws[i] = m
		}
	}
	return strings.Join(ws, "")
}

func (d *duality) op(t token.Token) token.Token {
	if !d.ops {
		return t
	}
	switch t {
	case token.LSS:
		return token.GTR
	case token.GTR:
		return token.LSS
	case token.LEQ:
		return token.GEQ
	case token.GEQ:
		return token.LEQ
	}
	return t
}

// render prints an expression/statement with identifiers (and optionally operators) mapped through d (nil = identity).
func render(fset *token.FileSet, n ast.Node, d *duality) string {
	// copy-free approach: print, then re-tokenise identifiers. Simpler and robust: walk and build a string.
	var sb strings.Builder
	renderNode(&sb, fset, n, d)
	return sb.String()
}

func renderNode(sb *strings.Builder, fset *token.FileSet, n ast.Node, d *duality) {
	switch x := n.(type) {
	case nil:
	case *ast.Ident:
		name := x.Name
		if a, ok := astIdentAlias[name]; ok {
			name = a // a renamed unexported field / type: use the pinned identifier (see layout.go)
		}
		if d != nil {
			sb.WriteString(d.ident(name))
		} else {
			sb.WriteString(name)
		}
	case *ast.BasicLit:
		sb.WriteString(x.Value)
	case *ast.SelectorExpr:
		renderNode(sb, fset, x.X, d)
		sb.WriteString(".")
		renderNode(sb, fset, x.Sel, d)
	case *ast.ParenExpr:
		sb.WriteString("(")
		renderNode(sb, fset, x.X, d)
		sb.WriteString(")")
	case *ast.StarExpr:
		sb.WriteString("*")
		renderNode(sb, fset, x.X, d)
	case *ast.UnaryExpr:
		sb.WriteString(x.Op.String())
		renderNode(sb, fset, x.X, d)
	case *ast.BinaryExpr:
		op := x.Op
		if d != nil {
			op = d.op(op)
		}
		if op == token.LAND || op == token.LOR {
			// a && b and b && a are the same condition for the purpose of matching mirror images: operands in text order
			var ops []string
			var flat func(e ast.Expr)
			flat = func(e ast.Expr) {
				if be, ok := e.(*ast.BinaryExpr); ok && be.Op == x.Op {
					flat(be.X)
					flat(be.Y)
					return
				}
				ops = append(ops, render(fset, e, d))
			}
			flat(x)
			sort.Strings(ops)
			sb.WriteString(strings.Join(ops, " "+op.String()+" "))
			break
		}
		if op == token.EQL || op == token.NEQ {
			// a comparison with a named boolean constant (where == before, with `before side = false`): the operand itself or
			// its negation, so that the two values of a two-valued direction parameter are each other's complement
			if val, other, ok := boolConstOperand(x, d); ok {
				o := render(fset, other, d)
				if val == (op == token.EQL) {
					sb.WriteString(o)
				} else {
					sb.WriteString(negateCond(o))
				}
				break
			}
		}
		renderNode(sb, fset, x.X, d)
		sb.WriteString(" " + op.String() + " ")
		renderNode(sb, fset, x.Y, d)
	case *ast.CallExpr:
		renderNode(sb, fset, x.Fun, d)
		sb.WriteString("(")
		args := x.Args
		if d != nil {
			// a helper whose parameters are duals of each other (newNode(value, prev, next)): the mirror image passes the
			// arguments in the mirrored positions
			fname := ""
			switch f := x.Fun.(type) {
			case *ast.Ident:
				fname = f.Name
			case *ast.SelectorExpr:
				fname = f.Sel.Name
			case *ast.IndexExpr:
				if id, ok := f.X.(*ast.Ident); ok {
					fname = id.Name
				}
			}
			if ps, ok := astFuncParams[fname]; ok && len(ps) == len(args) {
				perm := make([]ast.Expr, len(args))
				copy(perm, args)
				named := false
				for i, pi := range ps {
					dn := d.ident(pi)
					if dn == pi {
						continue
					}
					for j, pj := range ps {
						if pj == dn {
							perm[i] = args[j]
							named = true
						}
					}
				}
				if !named {
					// a helper that is its own mirror image with two parameters exchanged (link(a, b): a.next = b; b.prev = a
					// - under prev<->next that is link(b, a)): the mirror image of a call passes those two arguments swapped
					if i, j, ok := dualSwapParams(fset, fname, d); ok {
						perm[i], perm[j] = args[j], args[i]
					}
				}
				args = perm
			}
		}
		for i, a := range args {
			if i > 0 {
				sb.WriteString(", ")
			}
			renderNode(sb, fset, a, d)
		}
		sb.WriteString(")")
	case *ast.IndexExpr:
		renderNode(sb, fset, x.X, d)
		sb.WriteString("[")
		renderNode(sb, fset, x.Index, d)
		sb.WriteString("]")
	case *ast.IndexListExpr:
		renderNode(sb, fset, x.X, d)
		sb.WriteString("[...]")
	case *ast.SliceExpr:
		renderNode(sb, fset, x.X, d)
		sb.WriteString("[")
		renderNode(sb, fset, x.Low, d)
		sb.WriteString(":")
		renderNode(sb, fset, x.High, d)
		sb.WriteString("]")
	case *ast.KeyValueExpr:
		renderNode(sb, fset, x.Key, d)
		sb.WriteString(": ")
		renderNode(sb, fset, x.Value, d)
	case *ast.CompositeLit:
		renderNode(sb, fset, x.Type, d)
		var elts []string
		for _, e := range x.Elts {
			// a field key is renamed with the duality only where the struct has the dual field too (Node{prev, next}); the one
			// `next` of an adapter that both twins build (&funcIterator[T]{next: func…}) is the same field on either side
			if kv, isKV := e.(*ast.KeyValueExpr); isKV && d != nil {
				if id, isId := kv.Key.(*ast.Ident); isId && d.ident(id.Name) != id.Name {
					if known, has := litStructHasField(x, d.ident(id.Name)); known && !has {
						elts = append(elts, id.Name+": "+render(fset, kv.Value, d))
						continue
					}
				}
			}
			elts = append(elts, render(fset, e, d))
		}
		sort.Strings(elts) // keyed fields: order is immaterial
		sb.WriteString("{" + strings.Join(elts, ", ") + "}")
	case *ast.FuncLit:
		sb.WriteString("func{")
		var atoms []string
		collectAtoms(fset, x.Body, d, nil, &atoms)
		sort.Strings(atoms)
		sb.WriteString(strings.Join(atoms, "; "))
		sb.WriteString("}")
	case *ast.AssignStmt:
		for i, l := range x.Lhs {
			if i > 0 {
				sb.WriteString(", ")
			}
			renderNode(sb, fset, l, d)
		}
		tok := x.Tok.String()
		if x.Tok == token.DEFINE {
			tok = "="
		}
		sb.WriteString(" " + tok + " ")
		for i, r := range x.Rhs {
			if i > 0 {
				sb.WriteString(", ")
			}
			renderNode(sb, fset, r, d)
		}
	case *ast.IncDecStmt:
		renderNode(sb, fset, x.X, d)
		sb.WriteString(x.Tok.String())
	case *ast.ExprStmt:
		renderNode(sb, fset, x.X, d)
	case *ast.ReturnStmt:
		sb.WriteString("return")
		for i, r := range x.Results {
			if i == 0 {
				sb.WriteString(" ")
			} else {
				sb.WriteString(", ")
			}
			renderNode(sb, fset, r, d)
		}
	default:
		var buf bytes.Buffer
		_ = printer.Fprint(&buf, fset, n)
		sb.WriteString(buf.String())
	}
}

// collectAtoms flattens a block into atoms "ctx ⊢ stmt".
func collectAtoms(fset *token.FileSet, n ast.Node, d *duality, ctx []string, out *[]string) {
	emit := func(s string) {
		*out = append(*out, strings.Join(ctx, " & ")+" ⊢ "+s)
	}
	switch x := n.(type) {
	case nil:
	case *ast.BlockStmt:
		for _, s := range x.List {
			collectAtoms(fset, s, d, ctx, out)
		}
	case *ast.IfStmt:
		if x.Init != nil {
			collectAtoms(fset, x.Init, d, ctx, out)
		}
		cond := render(fset, x.Cond, d)
		if inner, neg := strippedNeg(cond); neg {
			emit("if " + inner) // the branch point; the polarity is in the context of what is nested under it
		} else {
			emit("if " + cond)
		}
		collectAtoms(fset, x.Body, d, append(append([]string{}, ctx...), cond), out)
		if x.Else != nil {
			collectAtoms(fset, x.Else, d, append(append([]string{}, ctx...), negateCond(cond)), out)
		}
	case *ast.ForStmt:
		c := "for " + render(fset, x.Cond, d)
		emit(c)
		if x.Init != nil {
			collectAtoms(fset, x.Init, d, ctx, out)
		}
		if x.Post != nil {
			collectAtoms(fset, x.Post, d, append(append([]string{}, ctx...), c), out)
		}
		collectAtoms(fset, x.Body, d, append(append([]string{}, ctx...), c), out)
	case *ast.SwitchStmt:
		tag := "switch " + render(fset, x.Tag, d)
		for _, cc := range x.Body.List {
			cl := cc.(*ast.CaseClause)
			var cs []string
			for _, e := range cl.List {
				cs = append(cs, render(fset, e, d))
			}
			sort.Strings(cs)
			label := tag + " case " + strings.Join(cs, ",")
			if cl.List == nil {
				label = tag + " default"
			}
			emit(label)
			for _, s := range cl.Body {
				collectAtoms(fset, s, d, append(append([]string{}, ctx...), label), out)
			}
		}
	case *ast.DeclStmt:
		var buf bytes.Buffer
		_ = printer.Fprint(&buf, fset, x)
		emit(buf.String())
	case *ast.BranchStmt:
		emit(x.Tok.String())
	case *ast.AssignStmt:
		if len(x.Lhs) == len(x.Rhs) && len(x.Lhs) > 1 && x.Tok == token.DEFINE {
			// a, b := e1, e2 introduces two independent names: one atom per pair
			for i := range x.Lhs {
				emit(render(fset, x.Lhs[i], d) + " := " + render(fset, x.Rhs[i], d))
			}
			return
		}
		if len(x.Lhs) == len(x.Rhs) && len(x.Lhs) > 1 && x.Tok == token.ASSIGN {
			// a, b = e1, e2 is the same statement as b, a = e2, e1: the pairs in a fixed order
			var pairs []string
			for i := range x.Lhs {
				pairs = append(pairs, render(fset, x.Lhs[i], d)+" = "+render(fset, x.Rhs[i], d))
			}
			sort.Strings(pairs)
			emit(strings.Join(pairs, " || "))
			return
		}
		emit(render(fset, x, d))
	case *ast.ExprStmt, *ast.IncDecStmt, *ast.ReturnStmt:
		emit(render(fset, x, d))
	default:
		emit(render(fset, x, d))
	}
}

func funcAtoms(fset *token.FileSet, fd *ast.FuncDecl, d *duality) []string {
	var atoms []string
	collectAtoms(fset, fd.Body, d, nil, &atoms)
	sort.Strings(atoms)
	return atoms
}

// multisetDiff returns atoms only in a and atoms only in b.
func multisetDiff(a, b []string) (onlyA, onlyB []string) {
	cnt := map[string]int{}
	for _, x := range a {
		cnt[x]++
	}
	for _, x := range b {
		cnt[x]--
	}
	var keys []string
	for k := range cnt {
		keys = append(keys, k)
	}
	sort.Strings(keys)
	for _, k := range keys {
		for i := 0; i < cnt[k]; i++ {
			onlyA = append(onlyA, k)
		}
		for i := 0; i < -cnt[k]; i++ {
			onlyB = append(onlyB, k)
		}
	}
	return
}

// astIdentAlias: identifier translation applied while rendering source (set per package by useAstAliases).
var astIdentAlias map[string]string

// astPkgScope: package scope of the package being rendered (named boolean constants).
var astPkgScope *types.Scope

// boolConstOperand: one operand of the comparison is an identifier that - after the duality renaming - names a boolean
// constant of the package; returns its value and the other operand.
func boolConstOperand(x *ast.BinaryExpr, d *duality) (val bool, other ast.Expr, ok bool) {
	if astPkgScope == nil {
		return false, nil, false
	}
	try := func(e ast.Expr) (bool, bool) {
		id, isID := e.(*ast.Ident)
		if !isID {
			return false, false
		}
		name := id.Name
		if d != nil {
			name = d.ident(name)
		}
		cn, isC := astPkgScope.Lookup(name).(*types.Const)
		if !isC || cn.Val().Kind() != constant.Bool {
			return false, false
		}
		return constant.BoolVal(cn.Val()), true
	}
	if v, ok := try(x.Y); ok {
		return v, x.X, true
	}
	if v, ok := try(x.X); ok {
		return v, x.Y, true
	}
	return false, nil, false
}

// strippedNeg: cond is "!(inner)" with the parentheses matching.
func strippedNeg(cond string) (string, bool) {
	if !strings.HasPrefix(cond, "!(") || !strings.HasSuffix(cond, ")") {
		return cond, false
	}
	depth := 0
	for i, r := range cond[1:] {
		switch r {
		case '(':
			depth++
		case ')':
			depth--
			if depth == 0 && i != len(cond)-2 {
				return cond, false
			}
		}
	}
	return cond[2 : len(cond)-1], true
}

func negateCond(cond string) string {
	if inner, ok := strippedNeg(cond); ok {
		return inner
	}
	return "!(" + cond + ")"
}

// astFuncDecls: the declarations behind astFuncParams (same keys).
var astFuncDecls map[string]*ast.FuncDecl

var dualSwapMemo = map[string][3]int{}

// dualSwapParams: the unexported helper name changes under the duality d, but is unchanged under d combined with the
// exchange of two of its parameters.
func dualSwapParams(fset *token.FileSet, name string, d *duality) (int, int, bool) {
	fd := astFuncDecls[name]
	ps := astFuncParams[name]
	if fd == nil || fd.Body == nil || len(ps) < 2 {
		return 0, 0, false
	}
	key := fset.Position(fd.Pos()).String()
	if m, ok := dualSwapMemo[key]; ok {
		return m[0], m[1], m[2] == 1
	}
	dualSwapMemo[key] = [3]int{0, 0, 0} // (also guards against recursion through a self-call)
	plain := funcAtoms(fset, fd, nil)
	if oa, ob := multisetDiff(plain, funcAtoms(fset, fd, d)); len(oa) == 0 && len(ob) == 0 {
		return 0, 0, false // self-dual as it stands
	}
	for i := 0; i < len(ps); i++ {
		for j := i + 1; j < len(ps); j++ {
			d2 := &duality{words: map[string]string{}, ops: d.ops, keep: d.keep}
			for k, v := range d.words {
				d2.words[k] = v
			}
			li, lj := strings.ToLower(ps[i]), strings.ToLower(ps[j])
			if _, clash := d2.words[li]; clash {
				continue
			}
			if _, clash := d2.words[lj]; clash {
				continue
			}
			d2.words[li], d2.words[lj] = lj, li
			if oa, ob := multisetDiff(plain, funcAtoms(fset, fd, d2)); len(oa) == 0 && len(ob) == 0 {
				dualSwapMemo[key] = [3]int{i, j, 1}
				return i, j, true
			}
		}
	}
	return 0, 0, false
}

// astFuncParams: parameter names of the unexported functions / methods of the package being rendered (by simple name).
var astFuncParams map[string][]string

func useAstAliases(c *Ctx, fnKey string) {
	astIdentAlias = nil
	astPkgScope = nil
	astFuncParams = map[string][]string{}
	astFuncDecls = map[string]*ast.FuncDecl{}
	best := ""
	for rel := range c.Pkgs {
		if strings.HasPrefix(fnKey, rel+".") && len(rel) > len(best) {
			best = rel
		}
	}
	for k, fd := range c.decls {
		if !strings.HasPrefix(k, best+".") || fd.Type.Params == nil || ast.IsExported(fd.Name.Name) {
			continue
		}
		var ps []string
		for _, f := range fd.Type.Params.List {
			for _, n := range f.Names {
				ps = append(ps, n.Name)
			}
		}
		if _, dup := astFuncParams[fd.Name.Name]; dup {
			astFuncParams[fd.Name.Name] = nil // ambiguous simple name
			astFuncDecls[fd.Name.Name] = nil
		} else {
			astFuncParams[fd.Name.Name] = ps
			astFuncDecls[fd.Name.Name] = fd
		}
	}
	if curLayout != nil {
		astIdentAlias = curLayout.idents[best]
	}
	if p := c.Pkgs[best]; p != nil && p.Types != nil {
		astPkgScope = p.Types.Scope()
	}
}

// mirrorPair checks that dual(B) == A as multisets of atoms.
func mirrorPair(c *Ctx, r *R, key, a, b string, d *duality) {
	useAstAliases(c, a)
	fa, fb := c.decl(a), c.decl(b)
	if fa == nil || fb == nil {
		r.undecided(key, token.NoPos, "function not found: "+a+" / "+b)
		return
	}
	// parameters named after the dual concept (lower/upper) are renamed too; the functions' own names are not compared
	A := funcAtoms(c.Fset, fa, nil)
	B := funcAtoms(c.Fset, fb, d)
	oa, ob := multisetDiff(A, B)
	if len(oa) == 0 && len(ob) == 0 {
		r.discharged(key, fa.Pos(), itoa(len(A))+" atoms, exact mirror images")
		return
	}
	r.violated(key, fb.Pos(), a+" and "+b+" are declared duals but are not mirror images: only in "+a+": ["+strings.Join(oa, " | ")+"]; only in dual("+b+"): ["+strings.Join(ob, " | ")+"]")
}

// selfDual checks dual(A) == A.
func selfDual(c *Ctx, r *R, key, a string, d *duality) {
	useAstAliases(c, a)
	fa := c.decl(a)
	if fa == nil {
		r.undecided(key, token.NoPos, "function not found: "+a)
		return
	}
	A := funcAtoms(c.Fset, fa, nil)
	B := funcAtoms(c.Fset, fa, d)
	oa, ob := multisetDiff(A, B)
	if len(oa) == 0 && len(ob) == 0 {
		r.discharged(key, fa.Pos(), itoa(len(A))+" atoms, self-dual")
		return
	}
	r.violated(key, fa.Pos(), a+" must treat both ends alike (self-dual) but does not: ["+strings.Join(oa, " | ")+"] has no mirror image; dual gives ["+strings.Join(ob, " | ")+"]")
}

// litStructHasField: the struct type of the composite literal (from the type-checked packages) has a field of that name.
func litStructHasField(lit *ast.CompositeLit, name string) (known, has bool) {
	if curCtx == nil {
		return false, false
	}
	for _, p := range curCtx.Pkgs {
		if p == nil || p.TypesInfo == nil {
			continue
		}
		tv, ok := p.TypesInfo.Types[lit]
		if !ok || tv.Type == nil {
			continue
		}
		t := tv.Type
		if pt, isP := t.Underlying().(*types.Pointer); isP {
			t = pt.Elem()
		}
		st, isSt := t.Underlying().(*types.Struct)
		if !isSt {
			return false, false
		}
		for i := 0; i < st.NumFields(); i++ {
			if st.Field(i).Name() == name {
				return true, true
			}
		}
		return true, false
	}
	return false, false
}
