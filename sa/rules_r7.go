package main

import (
	"go/constant"
	"go/token"
	"go/types"
	"strings"

	"golang.org/x/tools/go/ssa"
)

// Rules written for the mutations of seed round 7 that the analyser missed at import (each is a necessary condition of the
// property it is registered under; the seed it was written for is named in the comment).

// stealFailedAt: when control is in block b, t.steal(v) is known to have returned false: a guard on the way tests the boolean
// result of a steal call on v for false, or v merges alternatives for each of which that holds on its own edge (nil
// alternatives are excluded by the caller's nil test).
func stealFailedAt(v ssa.Value, b *ssa.BasicBlock, depth int, seen map[ssa.Value]bool) bool {
	return stealFailedOn(v, b, nil, depth, seen)
}

// stealFailedOn: ... on the edge b -> to when to is given.
func stealFailedOn(v ssa.Value, b, to *ssa.BasicBlock, depth int, seen map[ssa.Value]bool) bool {
	if depth > 6 || seen[v] {
		return false
	}
	seen[v] = true
	defer delete(seen, v)
	if isNilConst(v) {
		return true
	}
	var gs []guard
	gs = append(gs, guardsOf(b)...)
	gs = append(gs, guardsOfSelf(b)...)
	if len(b.Preds) == 1 {
		gs = append(gs, edgeGuard(b.Preds[0], b)...)
	}
	if to != nil {
		gs = append(gs, edgeGuard(b, to)...)
	}
	for _, g := range gs {
		bv, val := g.boolVal()
		if val {
			continue
		}
		call, ok := bv.(*ssa.Call)
		if !ok {
			continue
		}
		cal := staticCallee(&call.Call)
		if cal == nil || fname(cal) != "steal" {
			continue
		}
		as := argsAs(&call.Call)
		for _, a := range as {
			if a != nil && (a == v || resolveVal(a) == resolveVal(v)) {
				return true
			}
		}
	}
	// the result of a helper of the package that hands back the node only when stealing did not help (deleteFromLeaf: `if
	// x.n >= minKVs || t.steal(x) { return nil }; return x`): every non-nil result is a node steal has failed for, where it
	// is returned
	{
		var hc *ssa.Call
		ridx := 0
		switch x := v.(type) {
		case *ssa.Call:
			hc = x
		case *ssa.Extract:
			if c2, ok := x.Tuple.(*ssa.Call); ok {
				hc, ridx = c2, x.Index
			}
		}
		if hc != nil {
			if cal := staticCallee(&hc.Call); cal != nil && cal.Blocks != nil && rootFn(cal).Pkg == rootFn(b.Parent()).Pkg {
				all, any := true, false
				instrs(cal, func(rb *ssa.BasicBlock, _ int, in ssa.Instruction) {
					ret, ok := in.(*ssa.Return)
					if !ok || ridx >= len(ret.Results) {
						return
					}
					for _, vr := range virtualReturnsOf(ret, ridx) {
						if isNilConst(vr.val) {
							continue
						}
						any = true
						if !stealFailedOn(vr.val, vr.blk, nil, depth+1, seen) {
							all = false
						}
					}
				})
				if all && any {
					return true
				}
			}
		}
	}
	if phi, ok := v.(*ssa.Phi); ok {
		all := len(phi.Edges) > 0
		for k, e := range phi.Edges {
			if e == ssa.Value(phi) {
				continue
			}
			if !stealFailedOn(e, phi.Block().Preds[k], phi.Block(), depth+1, seen) {
				all = false
			}
		}
		return all
	}
	return false
}

// merge-after-failed-steal (C01-r7m1): merge folds a node into a sibling and relies on "no sibling has a spare entry" - i.e.
// on steal having just failed for that very node. Merging an under-full node next to a richer sibling overflows the merged
// node: copy() truncates silently, entries are lost and n exceeds the arrays.
func ruleMergeAfterFailedSteal(c *Ctx, r *R) {
	n := 0
	for _, fn := range c.funcsOfPkg(treeRel) {
		name := c.nameOf(fn)
		instrs(fn, func(b *ssa.BasicBlock, _ int, in ssa.Instruction) {
			call, ok := in.(*ssa.Call)
			if !ok {
				return
			}
			cal := staticCallee(&call.Call)
			if cal == nil || fname(cal) != "merge" || rootFn(cal).Pkg != rootFn(fn).Pkg {
				return
			}
			as := argsAs(&call.Call)
			if len(as) < 2 || as[1] == nil {
				return
			}
			n++
			r.ok(stealFailedAt(as[1], b, 0, map[ssa.Value]bool{}), name+"|merge-after-failed-steal#"+itoa(n), call.Pos(), "merge("+path(as[1])+") is reached without steal("+path(as[1])+") having failed on this path: with a sibling that could have lent an entry the merged node does not fit (both halves plus the separator exceed maxKVs; copy truncates, entries are lost)")
		})
	}
	if n == 0 {
		r.undecided("tree|merge-calls", token.NoPos, "no call of merge found")
	}
}

// sibling-bounds (C01-r7m2): siblings(x) reads parent.children[idx-1] only under idx > 0 and parent.children[idx+1] only under
// idx < parent.n (a node with n separators has children 0..n): `<=` reads one past the last child - nil for most parents, out
// of range for a full one.
func ruleSiblingBounds(c *Ctx, r *R) {
	// wherever a function of the package looks up a node's position among its parent's children (the result of a call) and
	// reads the child one to the left / right of it (siblings, or leftSibling / rightSibling after a split)
	n := 0
	for _, fn := range c.funcsOfPkg(treeRel) {
		name := c.nameOf(fn)
		instrs(fn, func(b *ssa.BasicBlock, _ int, in ssa.Instruction) {
			ia, ok := in.(*ssa.IndexAddr)
			if !ok {
				return
			}
			nd, arr, ok := nodeArray(ia.X)
			if !ok || arr != "children" {
				return
			}
			bin, ok := ia.Index.(*ssa.BinOp)
			if !ok || !isConstInt(bin.Y, 1) || (bin.Op != token.ADD && bin.Op != token.SUB) {
				return
			}
			idx := bin.X
			if _, isCall := resolveVal(idx).(*ssa.Call); !isCall {
				return // a loop index or a search position: other rules
			}
			// only reads (a sibling is looked at, not a slot being filled)
			isRead := false
			for _, ref := range refsOf(ia) {
				if ld, ok := ref.(*ssa.UnOp); ok && ld.Op == token.MUL {
					isRead = true
				}
			}
			if !isRead {
				return
			}
			n++
			good := false
			for _, g := range append(guardsOf(b), guardsOfSelf(b)...) {
				cf, ok := g.asCmp()
				if !ok {
					continue
				}
				x, y, op := cf.x, cf.y, cf.op
				if y == idx {
					x, y, op = y, x, flip(op)
				}
				if x != idx {
					continue
				}
				if bin.Op == token.SUB && op == token.GTR && isConstInt(y, 0) {
					good = true
				}
				if bin.Op == token.SUB && op == token.GEQ && isConstInt(y, 1) {
					good = true
				}
				if bin.Op == token.ADD && op == token.LSS {
					// y is <same node>.n (converted)
					if ld, ok := stripConvs(y).(*ssa.UnOp); ok && ld.Op == token.MUL {
						if fa, ok := ld.X.(*ssa.FieldAddr); ok && fieldName(fa.X.Type(), fa.Field) == "n" && path(fa.X) == path(nd) {
							good = true
						}
					}
				}
			}
			side := "right"
			if bin.Op == token.SUB {
				side = "left"
			}
			r.ok(good, name+"|"+side+"-sibling-bound#"+itoa(n), ia.Pos(), "the "+side+" sibling is read at "+path(ia.Index)+" without the strict bound (idx > 0 / idx < parent.n): a parent with n separators has children 0..n, one further is nil - or out of range when the parent is full")
		})
	}
	if n < 2 {
		r.undecided("tree|sibling-reads", token.NoPos, "expected a read of children[idx-1] and of children[idx+1] next to a node's own position")
	}
}

// cursor-lands-on-leaf (C01-r7m3): the in-order neighbour of a separator of an interior node is the extreme entry of the
// adjacent subtree, which lives in a LEAF: when Next / Prev step off a separator they position the cursor through
// leftmostLeaf / rightmostLeaf respectively. Assigning the child itself is right only for two-level trees; deeper down the
// whole extreme leaf is skipped.
func ruleCursorLandsOnLeaf(c *Ctx, r *R) {
	for _, m := range []struct{ name, helper string }{{"Next", "leftmostLeaf"}, {"Prev", "rightmostLeaf"}} {
		fn := cur(c, m.name)
		if fn == nil {
			r.undecided("tree.cursor."+m.name+"|missing", token.NoPos, "anchor not found")
			continue
		}
		n := 0
		for _, di := range deepInstrs(fn, 1) {
			st, ok := di.in.(*ssa.Store)
			if !ok {
				continue
			}
			fa, ok := st.Addr.(*ssa.FieldAddr)
			if !ok || !isNamedType(fa.X.Type(), treeRel, "cursor") || fieldName(fa.X.Type(), fa.Field) != "curr" {
				continue
			}
			var alts []ssa.Value
			var expand func(v ssa.Value, d int)
			expand = func(v ssa.Value, d int) {
				if phi, ok := v.(*ssa.Phi); ok && d < 4 {
					for _, e := range phi.Edges {
						if e != ssa.Value(phi) {
							expand(e, d+1)
						}
					}
					return
				}
				alts = append(alts, v)
			}
			expand(argOf(st.Val, di.calls), 0) // (c.pointAt(leftmostLeaf(child), 0): the stored node is the helper's argument)
			for _, v := range alts {
				if isNilConst(v) {
					continue
				}
				// descending: a child pointer (directly, or as the argument of a descent helper)
				desc := ""
				childOf := func(x ssa.Value) bool {
					ld, ok := x.(*ssa.UnOp)
					if !ok || ld.Op != token.MUL {
						return false
					}
					ia, ok := ld.X.(*ssa.IndexAddr)
					if !ok {
						return false
					}
					_, arr, ok := nodeArray(ia.X)
					return ok && arr == "children"
				}
				if childOf(v) {
					desc = "the child itself"
				}
				if call, ok := v.(*ssa.Call); ok {
					if cal := staticCallee(&call.Call); cal != nil && len(call.Call.Args) > 0 && childOf(call.Call.Args[len(call.Call.Args)-1]) {
						desc = fname(cal)
					}
				}
				if desc == "" {
					continue // ascending (parent) or a seek: other rules
				}
				n++
				r.ok(desc == m.helper, "tree.cursor."+m.name+"|descends-to-leaf#"+itoa(n), st.Pos(), "stepping off a separator, "+m.name+" must move the cursor to "+m.helper+"(child) - the neighbouring entry is in a leaf; found "+desc+": in a tree of three or more levels the entries of the skipped leaf are never visited")
			}
		}
		if n == 0 {
			r.undecided("tree.cursor."+m.name+"|descent", fn.Pos(), "no descent into a child found")
		}
	}
}

var _ = late(func() {
	properties["C01"].Rules = append(properties["C01"].Rules,
		&Rule{ID: "C01.merge-after-failed-steal", Floor: 1, Clause: "every call of merge(x) is reached only on paths on which steal(x) has just returned false (merge's precondition: no sibling can lend an entry, so the two halves plus the separator fit one node)", Run: ruleMergeAfterFailedSteal},
		&Rule{ID: "C01.sibling-bounds", Floor: 2, Clause: "siblings reads children[idx-1] only under idx > 0 and children[idx+1] only under idx < parent.n", Run: ruleSiblingBounds},
		&Rule{ID: "C01.cursor-lands-on-leaf", Floor: 2, Clause: "when cursor.Next / cursor.Prev step off a separator of an interior node they position the cursor with leftmostLeaf / rightmostLeaf of the adjacent child (the in-order neighbour of a separator is in a leaf)", Run: ruleCursorLandsOnLeaf})
	properties["C03"].Rules = append(properties["C03"].Rules,
		&Rule{ID: "C03.merge-after-failed-steal", Floor: 1, Clause: "same rule as C01.merge-after-failed-steal: merge is reached only after steal failed for the same node - otherwise the merged node exceeds maxKVs", Run: ruleMergeAfterFailedSteal},
		&Rule{ID: "C03.sibling-bounds", Floor: 2, Clause: "same rule as C01.sibling-bounds", Run: ruleSiblingBounds})
	properties["C02"].Rules = append(properties["C02"].Rules,
		&Rule{ID: "C02.cursor-lands-on-leaf", Floor: 2, Clause: "same rule as C01.cursor-lands-on-leaf: iteration in either direction visits every entry only if stepping off a separator goes all the way down to the adjacent leaf", Run: ruleCursorLandsOnLeaf})
})

var _ = strings.HasPrefix
var _ types.Type

// isZeroValueR7: v is the zero value of its type: a nil-valued constant, or the load of a local that is never assigned.
func isZeroValueR7(v ssa.Value) bool {
	switch x := v.(type) {
	case *ssa.Const:
		if x.Value == nil {
			return true
		}
		return isConstInt(x, 0)
	case *ssa.UnOp:
		if x.Op == token.MUL {
			if al, ok := x.X.(*ssa.Alloc); ok {
				return len(storesTo(al)) == 0
			}
		}
	}
	return isZeroStruct(v)
}

// remove-zeroes-tail (C03-r7m1): removeOne vacates the last slot of the slice it shifts - on EVERY path: an early return for
// "nothing to shift" leaves the removed key / value / child in the first unused slot, where nothing ever clears it (retained
// garbage; for children, a whole unlinked subtree stays reachable).
func ruleRemoveZeroesTail(c *Ctx, r *R) {
	fn := c.fn(treeRel + ".removeOne")
	if fn == nil || len(fn.Params) < 1 {
		r.undecided("tree.removeOne|missing", token.NoPos, "anchor not found")
		return
	}
	a := fn.Params[0]
	pf := &PF{N: 2}
	pf.Instr = func(f *ssa.Function, in ssa.Instruction, q int) (StateSet, bool) {
		st, ok := in.(*ssa.Store)
		if !ok || !isZeroValueR7(st.Val) {
			return 0, false
		}
		ia, ok := st.Addr.(*ssa.IndexAddr)
		if !ok || resolveVal(ia.X) != ssa.Value(a) {
			return 0, false
		}
		// index len(a)-1
		if bin, ok := ia.Index.(*ssa.BinOp); ok && bin.Op == token.SUB && isConstInt(bin.Y, 1) {
			if lc, ok := bin.X.(*ssa.Call); ok {
				if bi, ok := lc.Call.Value.(*ssa.Builtin); ok && bi.Name() == "len" && resolveVal(lc.Call.Args[0]) == ssa.Value(a) {
					return ss(1), true
				}
			}
		}
		return 0, false
	}
	n := 0
	for _, e := range pf.Exits(fn, ss(0)) {
		n++
		r.ok(e.States == ss(1), "tree.removeOne|zeroes-tail#"+itoa(n), retPos(e.Ret), "a path through removeOne returns without having cleared a[len(a)-1]: the removed entry (or an unlinked child subtree) stays referenced from the node's first unused slot")
	}
	if n == 0 {
		r.undecided("tree.removeOne|returns", fn.Pos(), "no return found")
	}
}

// reachesAvoiding: is there a path from block a to block b that does not pass through block avoid?
func reachesAvoiding(a, b, avoid *ssa.BasicBlock) bool {
	seen := map[*ssa.BasicBlock]bool{}
	var walk func(x *ssa.BasicBlock) bool
	walk = func(x *ssa.BasicBlock) bool {
		for _, s := range x.Succs {
			if s == avoid || seen[s] {
				continue
			}
			if s == b {
				return true
			}
			seen[s] = true
			if walk(s) {
				return true
			}
		}
		return false
	}
	return walk(a)
}

// split-reads-before-writes (C03-r7m3): in overfill the left half IS the node being split, and the amalgam is only a view over
// its arrays: everything the new right node receives must be read through the view BEFORE the left half is rewritten (within
// one pass of the split). A right-half read placed after a left-half write picks up entries the write has already moved.
func ruleSplitReadsBeforeWrites(c *Ctx, r *R) {
	fn := bt(c, "overfill")
	if fn == nil {
		r.undecided("tree.btree.overfill|missing", token.NoPos, "anchor not found")
		return
	}
	// the block in which the view is built (start of one pass)
	var viewBlk *ssa.BasicBlock
	var view *ssa.Call
	instrs(fn, func(b *ssa.BasicBlock, _ int, in ssa.Instruction) {
		if call, ok := in.(*ssa.Call); ok {
			if cal := staticCallee(&call.Call); cal != nil && strings.HasPrefix(fname(cal), "newAmalgam") {
				viewBlk, view = b, call
			}
		}
	})
	if view == nil {
		r.undecided("tree.btree.overfill|view", fn.Pos(), "the amalgam view was not found")
		return
	}
	isFresh := func(nd ssa.Value) bool {
		_, ok := resolveVal(nd).(*ssa.Alloc)
		return ok
	}
	// reads through the view whose result is stored into the fresh right node; writes into the node being split
	var rightReads []ssa.Instruction
	var leftWrites []ssa.Instruction
	// a helper of the package that fills the node it is handed from the view (x.fillFrom(&all, from, n, leaf)): a call of it
	// is a read for the right half when the node is the fresh one, a write of the left half otherwise
	fillsParam := func(h *ssa.Function) int {
		res := -1
		reads := false
		for _, di := range deepInstrs(h, 1) {
			switch x := di.in.(type) {
			case *ssa.Store:
				if nd, _, ok := nodeArray(x.Addr); ok {
					if p, isP := resolveVal(nd).(*ssa.Parameter); isP && p.Parent() == h {
						for k, q := range h.Params {
							if q == p {
								res = k
							}
						}
					}
				}
			case *ssa.Call:
				if cal := staticCallee(&x.Call); cal != nil && cal.Signature.Recv() != nil && isNamedTypeDeep(cal.Signature.Recv().Type(), treeRel, "amalgam1") {
					reads = true
				}
			}
		}
		if !reads {
			return -1
		}
		return res
	}
	instrs(fn, func(b *ssa.BasicBlock, _ int, in ssa.Instruction) {
		if call, ok := in.(*ssa.Call); ok {
			if cal := staticCallee(&call.Call); cal != nil && cal.Blocks != nil && rootFn(cal).Pkg == rootFn(fn).Pkg && cal != fn {
				if k := fillsParam(cal); k >= 0 && k < len(call.Call.Args) {
					if isFresh(call.Call.Args[k]) {
						rightReads = append(rightReads, call)
					} else {
						leftWrites = append(leftWrites, call)
					}
				}
			}
			return
		}
		st, ok := in.(*ssa.Store)
		if !ok {
			return
		}
		nd, _, ok := nodeArray(st.Addr)
		if !ok {
			return
		}
		if isFresh(nd) {
			if call, ok := resolveVal(st.Val).(*ssa.Call); ok {
				if cal := staticCallee(&call.Call); cal != nil && cal.Signature.Recv() != nil && isNamedTypeDeep(cal.Signature.Recv().Type(), treeRel, "amalgam1") {
					rightReads = append(rightReads, call)
				}
			}
			return
		}
		leftWrites = append(leftWrites, st)
	})
	// every other entry read through the view that is not simply copied down into the left half itself - the separator that
	// moves up (sepKey := all.Key(medianIdx)), wherever it is stored afterwards: in the fresh root here, or in a helper
	// (growRoot / insertSeparator) it is handed to
	{
		have := map[ssa.Instruction]bool{}
		for _, rd := range rightReads {
			have[rd] = true
		}
		leftCopy := map[ssa.Value]bool{}
		for _, w := range leftWrites {
			if st, ok := w.(*ssa.Store); ok {
				leftCopy[resolveVal(st.Val)] = true
			}
		}
		instrs(fn, func(_ *ssa.BasicBlock, _ int, in ssa.Instruction) {
			call, ok := in.(*ssa.Call)
			if !ok || have[call] || leftCopy[call] {
				return
			}
			cal := staticCallee(&call.Call)
			if cal == nil || cal.Signature.Recv() == nil || !isNamedTypeDeep(cal.Signature.Recv().Type(), treeRel, "amalgam1") {
				return
			}
			if strings.Contains(fname(cal), "Key") || strings.Contains(fname(cal), "Value") || strings.Contains(fname(cal), "Child") {
				rightReads = append(rightReads, call)
			}
		})
	}
	if len(rightReads) == 0 || len(leftWrites) == 0 {
		r.undecided("tree.btree.overfill|halves", fn.Pos(), "the reads for the right half / the writes of the left half were not found")
		return
	}
	n := 0
	for _, rd := range rightReads {
		n++
		late := false
		var at token.Pos
		// a read of one array of the view (all.Child(i)) is disturbed only by writes to that array of the left half
		// (x.children[…]): keys, values and children are three separate arrays
		arrOfRead := ""
		if call, isCall := rd.(*ssa.Call); isCall {
			if cal := staticCallee(&call.Call); cal != nil && cal.Signature.Recv() != nil && isNamedTypeDeep(cal.Signature.Recv().Type(), treeRel, "amalgam1") {
				switch {
				case strings.Contains(fname(cal), "Key"):
					arrOfRead = "keys"
				case strings.Contains(fname(cal), "Value"):
					arrOfRead = "values"
				case strings.Contains(fname(cal), "Child"):
					arrOfRead = "children"
				}
			}
		}
		for _, w := range leftWrites {
			if st, isSt := w.(*ssa.Store); isSt && arrOfRead != "" {
				if _, arr, ok := nodeArray(st.Addr); ok && arr != arrOfRead {
					continue
				}
			}
			if w.Block() == rd.Block() {
				// straight-line code: the write comes first; or the block is a loop body that runs again without going
				// back through the view's construction
				if idxIn(w) < idxIn(rd) || reachesAvoiding(w.Block(), rd.Block(), viewBlk) {
					late, at = true, w.Pos()
				}
			} else if reachesAvoiding(w.Block(), rd.Block(), viewBlk) {
				late, at = true, w.Pos()
			}
		}
		_ = at
		r.ok(!late, "tree.btree.overfill|right-read-before-left-write#"+itoa(n), rd.Pos(), "an entry for the new right node is read through the amalgam view after the left half (the very arrays the view reads) has been rewritten in the same split: it picks up a moved entry - a subtree is linked twice and another one dropped")
	}
}

// grow-capacity (C04-r7m1): Grow asks resize for the CURRENT CAPACITY (or the current length) plus n. Anything derived from the
// ring positions (d.back + 1 + n) is smaller than the number of items when the contents wrap around, and resize then copies
// into a buffer that is too short: items are silently dropped.
func ruleGrowCapacity(c *Ctx, r *R) {
	fn := c.fn("container/deque.Deque.Grow")
	if fn == nil || len(fn.Params) < 2 {
		r.undecided("deque.Deque.Grow|missing", token.NoPos, "anchor not found")
		return
	}
	n := 0
	for _, di := range deepInstrs(fn, 1) {
		call, ok := di.in.(*ssa.Call)
		if !ok {
			continue
		}
		cal := staticCallee(&call.Call)
		if cal == nil || fname(cal) != "resize" || len(call.Call.Args) < 2 {
			continue
		}
		n++
		e := symOf(call.Call.Args[len(call.Call.Args)-1], provEnv{chain: di.calls})
		good := false
		if e.op == "+" && len(e.args) == 2 {
			for i := 0; i < 2; i++ {
				base, extra := e.args[i], e.args[1-i]
				isBase := (base.op == "len" && base.args[0].fieldSuffix("a")) || (base.op == "cap" && base.args[0].fieldSuffix("a")) || (base.op == "call" && base.s == "Len") || base.inl == "Len"
				if isBase && extra.op == "leaf" && extra.s == "param:"+pname(fn.Params[1]) {
					good = true
				}
			}
		}
		r.ok(good, "deque.Deque.Grow|resize-arg#"+itoa(n), call.Pos(), "Grow must resize to len(d.a) + n (or Len() + n): "+e.String()+" can be smaller than the number of items when the contents wrap around the ring, and resize then truncates them")
	}
	if n == 0 {
		r.undecided("deque.Deque.Grow|resize", fn.Pos(), "no call of resize found")
	}
}

// iter-end-is-equality (C04-r7m3): positions in the ring are not ordered (front > back whenever the contents wrap), so the
// iterator recognises the last item by i == back; an ordering test ends a wrapped iteration after its first item.
func ruleIterEndIsEquality(c *Ctx, r *R) {
	fn := c.fn("container/deque.dequeIterator.Next")
	if fn == nil {
		r.undecided("deque.dequeIterator.Next|missing", token.NoPos, "anchor not found")
		return
	}
	n := 0
	for _, di := range deepInstrs(fn, 1) {
		bin, ok := di.in.(*ssa.BinOp)
		if !ok {
			continue
		}
		switch bin.Op {
		case token.EQL, token.NEQ, token.LSS, token.LEQ, token.GTR, token.GEQ:
		default:
			continue
		}
		env := provEnv{chain: di.calls}
		x, y := symOf(bin.X, env), symOf(bin.Y, env)
		isPos := func(e *sx) bool { return e.fieldSuffix("i") || e.fieldSuffix("back") || e.fieldSuffix("front") }
		if !isPos(x) || !isPos(y) || !(x.fieldSuffix("i") || y.fieldSuffix("i")) {
			continue // (front <= back inside Len() is the wrapped-or-not test of the deque itself)
		}
		n++
		r.ok(bin.Op == token.EQL || bin.Op == token.NEQ, "deque.dequeIterator.Next|position-test#"+itoa(n), bin.Pos(), "the iterator compares two ring positions ("+x.String()+" "+bin.Op.String()+" "+y.String()+") by order: positions wrap around, so only equality tells that the last item was reached - a wrapped deque yields one item")
	}
	if n == 0 {
		// an iterator that counts items (n < d.Len()) instead of walking ring positions has nothing to get wrong here
		r.discharged("deque.dequeIterator.Next|end-test", fn.Pos(), "the iterator does not compare ring positions with each other")
	}
}

var _ = late(func() {
	properties["C03"].Rules = append(properties["C03"].Rules,
		&Rule{ID: "C03.remove-zeroes-tail", Floor: 1, Clause: "every path through removeOne clears the vacated last slot a[len(a)-1] (no retained garbage, also when the removed entry is the last one)", Run: ruleRemoveZeroesTail},
		&Rule{ID: "C03.split-reads-before-writes", Floor: 2, Clause: "within one split in overfill every read (through the amalgam view) of an entry destined for the new right node precedes every write into the node being split (whose arrays the view reads)", Run: ruleSplitReadsBeforeWrites})
	properties["C01"].Rules = append(properties["C01"].Rules,
		&Rule{ID: "C01.split-reads-before-writes", Floor: 2, Clause: "same rule as C03.split-reads-before-writes: a right-half read after a left-half write loses a subtree - keys that were put are no longer found", Run: ruleSplitReadsBeforeWrites})
	properties["C04"].Rules = append(properties["C04"].Rules,
		&Rule{ID: "C04.grow-capacity", Floor: 1, Clause: "Deque.Grow resizes to len(d.a) + n (or Len() + n), never to something derived from the ring positions", Run: ruleGrowCapacity},
		&Rule{ID: "C04.iter-end-is-equality", Floor: 1, Clause: "dequeIterator.Next compares its own ring position with the deque's front / back by == / != only", Run: ruleIterEndIsEquality})
	properties["C15"].Rules = append(properties["C15"].Rules,
		&Rule{ID: "C15.iter-end-is-equality", Floor: 1, Clause: "same rule as C04.iter-end-is-equality", Run: ruleIterEndIsEquality})
})

// new-notifies-all (C05-r7m3): heap.New reports the final index of EVERY initial item through indexChanged before it returns
// (PriorityQueue registers its keys with a placeholder index and learns the real one from this call). A shortcut return for
// "trivially a heap" inputs skips the notification: a queue built from a single initial key keeps index -1 and Priority /
// Update / Remove of that key index out of range.
func ruleNewNotifiesAll(c *Ctx, r *R) {
	fn := c.fn("internal/heap.New")
	if fn == nil || len(fn.Params) < 3 {
		r.undecided("heap.New|missing", token.NoPos, "anchor not found")
		return
	}
	initial := fn.Params[len(fn.Params)-1]
	// the notification loop: a call of notifyIndexChanged (or of the callback) with a loop index; its header is the block of
	// that index
	var header *ssa.BasicBlock
	for _, di := range deepInstrs(fn, 1) {
		call, ok := di.in.(*ssa.Call)
		if !ok || len(di.calls) > 0 {
			continue
		}
		cal := staticCallee(&call.Call)
		isNotify := cal != nil && fname(cal) == "notifyIndexChanged"
		if !isNotify {
			if p, isP := resolveVal(call.Call.Value).(*ssa.Parameter); isP && p.Parent() == fn {
				isNotify = true
			}
			if ld, isLd := call.Call.Value.(*ssa.UnOp); isLd && ld.Op == token.MUL {
				if fa, isFA := ld.X.(*ssa.FieldAddr); isFA && fieldName(fa.X.Type(), fa.Field) == "indexChanged" {
					isNotify = true
				}
			}
		}
		if !isNotify || len(call.Call.Args) == 0 {
			continue
		}
		// the innermost loop around the call: the closest dominator the call's block can get back to
		for d := call.Block(); d != nil; d = d.Idom() {
			if d != call.Block() && reaches(call.Block(), d) {
				header = d
				break
			}
			if d == call.Block() && len(d.Succs) == 2 && reaches(d, d) {
				header = d
				break
			}
		}
	}
	var viaHelper []*ssa.Call
	if header == nil {
		// h.notifyAllIndexes() / h.heapify(): a helper of the package that runs the notification loop over the whole array
		instrs(fn, func(_ *ssa.BasicBlock, _ int, in ssa.Instruction) {
			call, ok := in.(*ssa.Call)
			if !ok {
				return
			}
			cal := staticCallee(&call.Call)
			if cal == nil || cal.Blocks == nil || rootFn(cal).Pkg != rootFn(fn).Pkg || fname(cal) == "notifyIndexChanged" {
				return
			}
			for _, di := range deepInstrs(cal, 1) {
				c2, ok := di.in.(*ssa.Call)
				if !ok || len(di.calls) > 0 {
					continue
				}
				cc := staticCallee(&c2.Call)
				isNotify := cc != nil && fname(cc) == "notifyIndexChanged"
				if !isNotify {
					if ld, isLd := c2.Call.Value.(*ssa.UnOp); isLd && ld.Op == token.MUL {
						if fa, isFA := ld.X.(*ssa.FieldAddr); isFA && fieldName(fa.X.Type(), fa.Field) == "indexChanged" {
							isNotify = true
						}
					}
				}
				if isNotify && reaches(c2.Block(), c2.Block()) {
					// every return of the helper lies behind that loop
					h := c2.Block()
					for d := c2.Block(); d != nil; d = d.Idom() {
						if d != c2.Block() && reaches(c2.Block(), d) {
							h = d
							break
						}
					}
					okAll := true
					instrs(cal, func(rb *ssa.BasicBlock, _ int, in2 ssa.Instruction) {
						if _, isRet := in2.(*ssa.Return); isRet && !h.Dominates(rb) {
							okAll = false
						}
					})
					if okAll {
						viaHelper = append(viaHelper, call)
					}
				}
			}
		})
	}
	if header == nil && len(viaHelper) == 0 {
		r.violated("heap.New|notify-loop", fn.Pos(), "New has no loop that reports the index of every initial item")
		return
	}
	n := 0
	instrs(fn, func(b *ssa.BasicBlock, _ int, in ssa.Instruction) {
		ret, ok := in.(*ssa.Return)
		if !ok {
			return
		}
		n++
		good := header != nil && header.Dominates(b)
		for _, hc := range viaHelper {
			if hc.Block().Dominates(b) {
				good = true
			}
		}
		if !good {
			// nothing to report: the return is under len(initial) == 0
			for _, g := range guardsOf(b) {
				cf, ok := g.asCmp()
				if !ok {
					continue
				}
				lc, isCall := resolveVal(cf.x).(*ssa.Call)
				if !isCall {
					continue
				}
				if bi, ok := lc.Call.Value.(*ssa.Builtin); !ok || bi.Name() != "len" || resolveVal(lc.Call.Args[0]) != ssa.Value(initial) {
					continue
				}
				if (cf.op == token.EQL && isConstInt(cf.y, 0)) || (cf.op == token.LSS && isConstInt(cf.y, 1)) || (cf.op == token.LEQ && isConstInt(cf.y, 0)) {
					good = true
				}
			}
		}
		r.ok(good, "heap.New|notifies-before-return#"+itoa(n), retPos(ret), "New returns without having gone through the loop that reports every initial item's index (and the list is not known to be empty): the index map of a PriorityQueue built from it keeps its placeholder")
	})
}

// close-waits-on-every-path (C09-r7m3): the Close of a goroutine-backed stream (mergeStream, batchStream, parallel.mapStream)
// returns only after the goroutines that own the sources have finished - on EVERY path; a shortcut ("End was already reported,
// nobody left to wait for") returns while deferred Closes of the inputs are still pending.
func ruleCloseWaitsEveryPath(c *Ctx, r *R) {
	for _, name := range []string{"stream.mergeStream.Close", "stream.batchStream.Close", "parallel.mapStream.Close"} {
		fn := c.fn(name)
		if fn == nil {
			r.undecided(name+"|missing", token.NoPos, "anchor not found")
			continue
		}
		pkg := rootFn(fn).Pkg
		pf := &PF{N: 2, InScope: func(f *ssa.Function) bool { return rootFn(f).Pkg == pkg && f.Blocks != nil && f != fn }}
		pf.Instr = func(f *ssa.Function, in ssa.Instruction, q int) (StateSet, bool) {
			var cc *ssa.CallCommon
			switch x := in.(type) {
			case *ssa.Call:
				cc = &x.Call
			case deferredCall:
				cc = &x.Defer.Call
			}
			if cc == nil {
				return 0, false
			}
			if cal := staticCallee(cc); cal != nil && cal.Name() == "Wait" && cal.Pkg != nil && (cal.Pkg.Pkg.Path() == "sync" || strings.HasSuffix(cal.Pkg.Pkg.Path(), "errgroup")) {
				return ss(1), true
			}
			return 0, false
		}
		n := 0
		for _, e := range pf.Exits(fn, ss(0)) {
			n++
			r.ok(e.States == ss(1), name+"|waits#"+itoa(n), retPos(e.Ret), "a path through Close returns without waiting for the background goroutines: their deferred Close of the sources may still be pending (or not yet begun) when Close returns")
		}
		if n == 0 {
			r.undecided(name+"|returns", fn.Pos(), "no return found")
		}
	}
}

// signal-channels-fixed (C10-r7m1): the terminal state of a pipe is held in two close-only signal channels (senderDone,
// streamDone); the halves read them on every call. They are set once, by Pipe; a half that overwrites one (nil "to release
// it") can no longer observe the terminal state - after reporting End once, Next blocks for ever.
func ruleSignalChannelsFixed(c *Ctx, r *R) {
	n := 0
	for _, fn := range c.funcsOfPkg("stream") {
		name := c.nameOf(fn)
		instrs(fn, func(_ *ssa.BasicBlock, _ int, in ssa.Instruction) {
			st, ok := in.(*ssa.Store)
			if !ok {
				return
			}
			fa, ok := st.Addr.(*ssa.FieldAddr)
			if !ok || !chanElemIsEmptyStruct(derefType(fa.Type())) {
				return
			}
			base := fa.X
			for {
				inner, ok := base.(*ssa.FieldAddr)
				if !ok {
					break
				}
				base = inner.X
			}
			t := typeShort(base.Type())
			if t != "PipeSender" && t != "pipeStream" && !strings.HasPrefix(strings.ToLower(t), "pipe") {
				return
			}
			n++
			_, fresh := resolveVal(base).(*ssa.Alloc)
			r.ok(fresh, name+"|signal-store:"+fieldName(fa.X.Type(), fa.Field)+"#"+itoa(n), st.Pos(), "a terminal-signal channel of the pipe is overwritten outside its construction: the half can no longer see that the other side (or the sender itself) has finished - the reported end / error is not sticky")
		})
	}
	if n == 0 {
		r.undecided("stream.Pipe|signal-channels", token.NoPos, "no store to a signal channel of the pipe found (not even in Pipe)")
	}
}

// ctx-err-only-after-done (C10-r7m2): ctx.Err() is nil until the context's Done channel is closed. The pipe's operations may
// return it only where that is known - inside a <-ctx.Done() arm, or under an explicit test that it is non-nil. Returned from a
// wall-clock shortcut ("the deadline has passed") it can still be nil: Send then reports success for a value it never enqueued.
func ruleCtxErrOnlyAfterDone(c *Ctx, r *R) {
	n := 0
	for _, name := range []string{"stream.PipeSender.Send", "stream.PipeSender.TrySend", "stream.pipeStream.Next"} {
		fn := c.fn(name)
		if fn == nil {
			r.undecided(name+"|missing", token.NoPos, "anchor not found")
			continue
		}
		for _, di := range deepInstrs(fn, 2) {
			ret, ok := di.in.(*ssa.Return)
			if !ok || len(ret.Results) == 0 {
				continue
			}
			for _, vr := range virtualReturnsOf(ret, len(ret.Results)-1) {
				ec, ok := vr.val.(*ssa.Call)
				if !ok || !ec.Call.IsInvoke() || ec.Call.Method.Name() != "Err" || !isContextType(ec.Call.Value.Type()) {
					continue
				}
				n++
				good := isCtxErrAfterDone(ec)
				if !good {
					for _, g := range guardsOf(vr.blk) {
						if cf, ok := g.asCmp(); ok && cf.op == token.NEQ && isNilConst(cf.y) && cf.x == ssa.Value(ec) {
							good = true
						}
					}
				}
				// in a helper that maps an outcome code to the error (outcomeErr(ctx, o): `case pipeCtxDone: return ctx.Err()`): the
				// code that selects this return is assigned, at the call site, only inside a <-ctx.Done() arm
				if !good && len(di.calls) > 0 {
					site := di.calls[len(di.calls)-1]
					for _, g := range guardsOfRaw(vr.blk) {
						cf, ok := g.asCmp()
						if !ok || cf.op != token.EQL {
							continue
						}
						x, y := cf.x, cf.y
						if _, isK := x.(*ssa.Const); isK {
							x, y = y, x
						}
						prm, isP := resolveVal(x).(*ssa.Parameter)
						kc, isK := y.(*ssa.Const)
						if !isP || !isK || kc.Value == nil || prm.Parent() != ret.Parent() {
							continue
						}
						pi := -1
						for k, q := range prm.Parent().Params {
							if q == prm {
								pi = k
							}
						}
						if pi < 0 || pi >= len(site.Call.Args) {
							continue
						}
						phi, isPhi := site.Call.Args[pi].(*ssa.Phi)
						if !isPhi {
							continue
						}
						var doneBodies []*ssa.BasicBlock
						for _, op := range chanOpsOf(site.Parent()) {
							for _, a := range op.arms {
								if !a.send && a.kind == "ctx-done" && a.body != nil {
									doneBodies = append(doneBodies, a.body)
								}
							}
						}
						all, any := true, false
						for k, e := range phi.Edges {
							ek, isEK := e.(*ssa.Const)
							if !isEK || ek.Value == nil || !constant.Compare(ek.Value, token.EQL, kc.Value) {
								continue
							}
							any = true
							pb := phi.Block().Preds[k]
							in := false
							for _, db := range doneBodies {
								if db == pb || db.Dominates(pb) {
									in = true
								}
							}
							all = all && in
						}
						if all && any {
							good = true
						}
					}
				}
				r.ok(good, name+"|ctx-err-known-non-nil#"+itoa(n), retPos(ret), "ctx.Err() is returned outside a <-ctx.Done() arm and without a test that it is non-nil: it is nil until Done is closed (also when the deadline has just passed on the wall clock), so the operation reports success for something it did not do")
			}
		}
	}
	if n == 0 {
		r.undecided("stream.Pipe|ctx-err-returns", token.NoPos, "no return of ctx.Err() found in the pipe's operations")
	}
}

var _ = late(func() {
	properties["C05"].Rules = append(properties["C05"].Rules,
		&Rule{ID: "C05.new-notifies-all", Floor: 1, Clause: "every return of internal/heap.New is dominated by the loop that reports each initial item's index through indexChanged (or is under len(initial) == 0)", Run: ruleNewNotifiesAll})
	properties["C07"].Rules = append(properties["C07"].Rules,
		&Rule{ID: "C07.param-effects", Floor: 6, Clause: "same rule as C19.param-effects, for the xslices namesakes of the combinators (Chunk, Compact, CompactFunc, Filter, Join, Map, Reduce, Runs, Equal): they compute their result without writing through (or aliasing into) the argument slice",
			Run: subRule(ruleParamEffects, "|xslices.Chunk|", "|xslices.Compact|", "|xslices.CompactFunc|", "|xslices.Filter|", "|xslices.Join|", "|xslices.Map|", "|xslices.Reduce|", "|xslices.Runs|", "|xslices.Equal|")})
	properties["C09"].Rules = append(properties["C09"].Rules,
		&Rule{ID: "C09.close-waits-on-every-path", Floor: 3, Clause: "every path through the Close of mergeStream, batchStream and parallel.mapStream passes the wait for the background goroutines (WaitGroup.Wait / errgroup Wait)", Run: ruleCloseWaitsEveryPath})
	properties["C10"].Rules = append(properties["C10"].Rules,
		&Rule{ID: "C10.signal-channels-fixed", Floor: 2, Clause: "the close-only signal channels of the pipe's halves (senderDone, streamDone) are stored only while the halves are constructed", Run: ruleSignalChannelsFixed},
		&Rule{ID: "C10.ctx-err-only-after-done", Floor: 3, Clause: "Send, TrySend and pipeStream.Next return ctx.Err() only inside a <-ctx.Done() arm or under a test that it is non-nil", Run: ruleCtxErrOnlyAfterDone})
})

// fresh-batch-after-handover (C11-r7m3): once a batch has been handed to the consumer it belongs to the consumer: the batcher
// starts the next batch in a NEW allocation (or nil). Continuing in the spare capacity of the slice just handed out
// (batch = batch[len(batch):]) makes the consumer's slice and the batch under construction share an array - an append by the
// consumer overwrites the next batch's first items.
func ruleFreshBatchAfterHandover(c *Ctx, r *R) {
	_, _, bi := batchClosures(c)
	if bi == nil {
		r.undecided("stream.BatchFunc|batcher", token.NoPos, "batcher goroutine not found")
		return
	}
	n := 0
	for _, g := range bi.all {
		for _, op := range chanOpsOf(g) {
			sel, ok := op.in.(*ssa.Select)
			if !ok {
				continue
			}
			for i, a := range op.arms {
				if !a.send || fieldOfChan(a.ch) != "batchC" {
					continue
				}
				bv := loadVar(throughLiteralParam(sel.States[i].Send))
				if !bv.ok() {
					continue
				}
				// the hand-over lives in a local closure that is given the batch (deliver(batch)): what follows it is what follows
				// that call in the closure's caller
				var site *ssa.Call
				if p, isP := sel.States[i].Send.(*ssa.Parameter); isP && literalCallArg(p) != nil {
					site = literalCallSite(p.Parent())
				}
				// stores to the batch variable that can follow this hand-over before the next append
				for _, st := range storesToVar(bv) {
					if site != nil {
						if st.Parent() != site.Parent() || !((st.Block() == site.Block() && idxIn(st) > idxIn(site)) || reaches(site.Block(), st.Block())) {
							continue
						}
					} else if st.Parent() != g || !(st.Block() == a.body || (a.body != nil && reaches(a.body, st.Block())) || reaches(sel.Block(), st.Block())) {
						continue
					}
					n++
					good := true
					why := ""
					for _, lf := range cellLeaves(st.Val, nil, 0) {
						switch x := lf.v.(type) {
						case *ssa.MakeSlice:
						case *ssa.Const:
							if x.Value != nil {
								good, why = false, path(x)
							}
						default:
							good, why = false, path(lf.v)
						}
					}
					r.ok(good, "stream.BatchFunc|batch-after-handover#"+itoa(n), st.Pos(), "after a batch was handed to the consumer the next one is started in "+why+" instead of a new allocation: the consumer's slice and the pending batch share a backing array (an append by the consumer overwrites items of the next batch)")
				}
			}
		}
	}
	// the hand-over written with a module helper: chans.SendContext(bgCtx, out.batchC, batch)
	for _, g := range bi.all {
		instrs(g, func(_ *ssa.BasicBlock, _ int, in ssa.Instruction) {
			call, ok := in.(*ssa.Call)
			if !ok {
				return
			}
			cal := staticCallee(&call.Call)
			if cal == nil || !ctxBlockingHelper(c, origin(cal)) {
				return
			}
			for ai, a := range call.Call.Args {
				if fieldOfChan(a) != "batchC" || ai+1 >= len(call.Call.Args) {
					continue
				}
				bv := loadVar(call.Call.Args[ai+1])
				if !bv.ok() {
					continue
				}
				for _, st := range storesToVar(bv) {
					if st.Parent() != g || !((st.Block() == call.Block() && idxIn(st) > idxIn(call)) || reaches(call.Block(), st.Block())) {
						continue
					}
					n++
					good := true
					why := ""
					for _, lf := range cellLeaves(st.Val, nil, 0) {
						switch x := lf.v.(type) {
						case *ssa.MakeSlice:
						case *ssa.Const:
							if x.Value != nil {
								good, why = false, path(x)
							}
						default:
							good, why = false, path(lf.v)
						}
					}
					r.ok(good, "stream.BatchFunc|batch-after-handover#"+itoa(n), st.Pos(), "after a batch was handed to the consumer the next one is started in "+why+" instead of a new allocation: the consumer's slice and the pending batch share a backing array (an append by the consumer overwrites items of the next batch)")
				}
			}
		})
	}
	if n == 0 {
		r.undecided("stream.BatchFunc|batch-after-handover", token.NoPos, "no assignment to the batch after a hand-over found")
	}
}

// merge-defer-order (C12-r7m3): in a worker of stream.Merge the deferred calls run, at exit, in this order: the last-one-out
// accounting (which ends the merged stream), then the Close of the worker's input, then wg.Done(). The merged End therefore
// does not wait for any input's Close. Registered the other way round, End is reported only after every input's Close has
// returned - a Close that waits for something the consumer does after End never returns.
func ruleMergeDeferOrder(c *Ctx, r *R) {
	bi := bgAnalyse(c, "stream.Merge")
	if bi == nil || len(bi.spawned) == 0 {
		r.undecided("stream.Merge|workers", token.NoPos, "worker goroutines not found")
		return
	}
	for _, w := range bi.spawned {
		var closeD, acctD *ssa.Defer
		// (the worker's body may live in a helper the goroutine calls: go func() { defer wg.Done(); m.forward(i) }())
		var frames []*ssa.Function
		for _, fr := range deepFrames(w, 2) {
			frames = append(frames, fr.f)
		}
		for _, wf := range frames {
			if closeD != nil && acctD != nil {
				break
			}
			closeD, acctD = nil, nil
			instrs(wf, func(b *ssa.BasicBlock, _ int, in ssa.Instruction) {
				d, ok := in.(*ssa.Defer)
				if !ok {
					return
				}
				if d.Call.IsInvoke() && d.Call.Method.Name() == "Close" && streamKind(d.Call.Value.Type()) != 0 {
					closeD = d
					return
				}
				// the accounting: a deferred function (literal or helper) that can close the pipe's sender
				if cal := staticCallee(&d.Call); cal != nil && cal.Blocks != nil {
					for _, di := range deepInstrs(cal, 2) {
						if call, ok := di.in.(*ssa.Call); ok {
							if cc := staticCallee(&call.Call); cc != nil && fname(cc) == "Close" && cc.Signature.Recv() != nil && isNamedTypeDeep(cc.Signature.Recv().Type(), "stream", "PipeSender") {
								acctD = d
							}
						}
					}
				}
			})
		}
		if closeD == nil || acctD == nil {
			r.undecided("stream.Merge|defers", w.Pos(), "the deferred Close of the input / the deferred last-one-out accounting were not found")
			continue
		}
		good := closeD.Block() == acctD.Block() && idxIn(closeD) < idxIn(acctD)
		r.ok(good, "stream.Merge|accounting-before-input-close", acctD.Pos(), "the last-one-out accounting must be deferred AFTER the input's Close (so that it runs before it): otherwise the merged stream's end waits for every input's Close to return")
	}
}

// bg-ctx-arm-returns-err (C14-r7m2): a MapStream goroutine that gives up because the group's context ended (it drops a result
// it could not hand over, or stops reading the source) returns the context's error from that arm. Returning nil makes the
// group finish "cleanly": when the caller's context is cancelled after the source was read to its end, Next reports End with
// results missing.
func ruleBgCtxArmReturnsErr(c *Ctx, r *R) {
	bi := bgAnalyse(c, "parallel.MapStream")
	if bi == nil {
		r.undecided("parallel.MapStream|goroutines", token.NoPos, "goroutines not found")
		return
	}
	n := 0
	for _, g := range bi.all {
		if !lastIsError(g.Signature) {
			continue
		}
		for _, op := range chanOpsOf(g) {
			if op.kind != "select" {
				continue
			}
			for _, a := range op.arms {
				if a.send || a.kind != "ctx-done" || a.body == nil {
					continue
				}
				for _, b := range g.Blocks {
					if b != a.body && !a.body.Dominates(b) {
						continue
					}
					ret, ok := b.Instrs[len(b.Instrs)-1].(*ssa.Return)
					if !ok || len(ret.Results) == 0 {
						continue
					}
					n++
					r.ok(isCtxErrAfterDone(returnedValue(ret, len(ret.Results)-1)), "parallel.MapStream|"+c.nameOf(g)+"|ctx-arm-return#"+itoa(n), retPos(ret), "a goroutine of MapStream leaves through its <-ctx.Done() arm without returning ctx.Err(): the errgroup records no error, and Next reports a clean End although results were dropped")
				}
			}
		}
	}
	if n == 0 {
		// the waits are written with module helpers (chans.SendContext / RecvContext) whose error is handed on: no arm of the
		// goroutines' own to get wrong (the helpers' arms are decided by C10 / C18.ctx-arm-returns-err)
		r.discharged("parallel.MapStream|ctx-arms", token.NoPos, "MapStream's goroutines have no <-ctx.Done() arm of their own")
	}
}

// default-covers-negatives (C14-r7m3): "parallelism <= 0 means GOMAXPROCS" - the test that installs the default must be true for
// every non-positive value. `== 0` lets a negative value through: no worker is started and nothing ever receives.
func ruleDefaultCoversNegatives(c *Ctx, r *R) {
	for _, name := range []string{"parallel.MapIterator", "parallel.MapStream"} {
		fn := c.fn(name)
		if fn == nil {
			r.undecided(name+"|missing", token.NoPos, "function not found")
			continue
		}
		n := 0
		for _, p := range fn.Params {
			if !isIntType(p.Type()) {
				continue
			}
			isRaw := func(v ssa.Value) bool {
				v = resolveVal(v)
				if v == ssa.Value(p) {
					return true
				}
				// a load of the spill cell before any other store reaches it is still the raw value: accept any load of the
				// parameter's own cell (the defaulting assignment is what the test guards)
				if ld, ok := v.(*ssa.UnOp); ok && ld.Op == token.MUL {
					if cell := cellOf(ld.X); cell != nil {
						for _, st := range storesTo(cell) {
							if st.Val == ssa.Value(p) {
								return true
							}
						}
					}
				}
				return false
			}
			for _, g := range withAnon(fn) {
				instrs(g, func(_ *ssa.BasicBlock, _ int, in ssa.Instruction) {
					bin, ok := in.(*ssa.BinOp)
					if !ok {
						return
					}
					x, y, op := bin.X, bin.Y, bin.Op
					if isRaw(y) {
						x, y, op = y, x, flip(op)
					}
					if !isRaw(x) {
						return
					}
					k, isK := y.(*ssa.Const)
					if !isK || k.Value == nil {
						return
					}
					if op != token.EQL && op != token.NEQ {
						return
					}
					if !isConstInt(y, 0) {
						return
					}
					n++
					r.violated(name+"|"+p.Name()+"-default-test#"+itoa(n), bin.Pos(), p.Name()+" is tested against 0 by "+op.String()+": the documented default applies to every value <= 0, a negative argument is not replaced and (for parallelism) no worker is ever started")
				})
			}
		}
		if n == 0 {
			r.discharged(name+"|default-tests", fn.Pos(), "no equality test of an int parameter against 0")
		}
	}
}

// gen-only-incremented (C15-r7m3): the modification counter of a container only ever goes up. Any other store - in particular
// replacing the whole container value (*d = Deque[T]{}) - rewinds it, and a history of the right length brings it back to the
// value a live iterator recorded: the iterator then reads the refilled buffer as if nothing had happened.
func ruleGenOnlyIncremented(c *Ctx, r *R) {
	for _, t := range []struct{ rel, typ string }{{"container/deque", "Deque"}, {"internal/heap", "Heap"}} {
		n := 0
		for _, fn := range c.funcsOfPkg(t.rel) {
			name := c.nameOf(fn)
			instrs(fn, func(_ *ssa.BasicBlock, _ int, in ssa.Instruction) {
				// d.gen.bump(): the counter is a small type of its own and is written by its methods, which are handed the
				// field's address - every store such a method makes through its receiver must be *g + 1
				if call, isCall := in.(*ssa.Call); isCall && len(call.Call.Args) > 0 {
					if fa, ok := call.Call.Args[0].(*ssa.FieldAddr); ok && isNamedType(fa.X.Type(), t.rel, t.typ) && fieldName(fa.X.Type(), fa.Field) == "gen" {
						if cal := staticCallee(&call.Call); cal != nil && storesThroughParam0(cal) {
							n++
							onlyInc := true
							instrs(cal, func(_ *ssa.BasicBlock, _ int, hin ssa.Instruction) {
								hst, ok := hin.(*ssa.Store)
								if !ok {
									return
								}
								bin, ok := resolveVal(hst.Val).(*ssa.BinOp)
								if !ok || bin.Op != token.ADD || !isConstInt(bin.Y, 1) {
									onlyInc = false
									return
								}
								if ld, ok := resolveVal(bin.X).(*ssa.UnOp); !ok || ld.Op != token.MUL || ld.X != ssa.Value(cal.Params[0]) {
									onlyInc = false
								}
							})
							r.ok(onlyInc, name+"|gen-store#"+itoa(n), call.Pos(), "the modification counter is assigned something other than gen + 1 (by "+fname(cal)+"): a counter that can go back makes a modified container look unmodified to a live iterator")
						}
					}
					return
				}
				st, ok := in.(*ssa.Store)
				if !ok {
					return
				}
				// a store to the gen field
				if fa, ok := st.Addr.(*ssa.FieldAddr); ok && isNamedType(fa.X.Type(), t.rel, t.typ) && fieldName(fa.X.Type(), fa.Field) == "gen" {
					if _, fresh := resolveVal(fa.X).(*ssa.Alloc); fresh {
						// a value under construction: fine when it carries the old counter on (checked at the whole-value store)
						return
					}
					n++
					r.ok(isFieldIncDec(st, "gen", +1), name+"|gen-store#"+itoa(n), st.Pos(), "the modification counter is assigned something other than gen + 1: a counter that can go back makes a modified container look unmodified to a live iterator")
					return
				}
				// the whole container replaced through its pointer
				if pt, ok := st.Addr.Type().Underlying().(*types.Pointer); ok && isNamedType(pt.Elem(), t.rel, t.typ) {
					if _, isAlloc := st.Addr.(*ssa.Alloc); isAlloc {
						return // initialising a local / the constructor's result
					}
					if _, isParam := resolveVal(st.Addr).(*ssa.Parameter); !isParam {
						return
					}
					n++
					// the new value's gen must derive from the old one
					carried := false
					if ld, ok := st.Val.(*ssa.UnOp); ok && ld.Op == token.MUL {
						if al, ok := ld.X.(*ssa.Alloc); ok {
							for _, ref := range refsOf(al) {
								if fa, ok := ref.(*ssa.FieldAddr); ok && fieldName(fa.X.Type(), fa.Field) == "gen" {
									for _, r2 := range refsOf(fa) {
										if s2, ok := r2.(*ssa.Store); ok && dependsOnField(s2.Val, "gen", 0) {
											carried = true
										}
									}
								}
							}
						}
					}
					r.ok(carried, name+"|whole-value-store#"+itoa(n), st.Pos(), "the whole "+t.typ+" is replaced and its modification counter is not carried over from the old value: the counter restarts, and after the right number of operations equals what a live iterator recorded")
				}
			})
		}
		if n == 0 {
			r.undecided(t.rel+"."+t.typ+"|gen-stores", token.NoPos, "no store to the modification counter found")
		}
	}
}

var _ = late(func() {
	properties["C11"].Rules = append(properties["C11"].Rules,
		&Rule{ID: "C11.fresh-batch-after-handover", Floor: 1, Clause: "after a batch was sent on batchC the batch variable is assigned only a new allocation (make) or nil - never a reslice of the slice that was handed out", Run: ruleFreshBatchAfterHandover})
	properties["C12"].Rules = append(properties["C12"].Rules,
		&Rule{ID: "C12.merge-defer-order", Floor: 1, Clause: "in stream.Merge's workers the last-one-out accounting (which closes the pipe's sender) is deferred after - and therefore runs before - the Close of the worker's input", Run: ruleMergeDeferOrder})
	properties["C14"].Rules = append(properties["C14"].Rules,
		&Rule{ID: "C14.bg-ctx-arm-returns-err", Floor: 1, Clause: "every return inside a <-ctx.Done() arm of MapStream's goroutines yields ctx.Err() (a goroutine that drops work because the context ended reports it to the errgroup)", Run: ruleBgCtxArmReturnsErr},
		&Rule{ID: "C14.default-covers-negatives", Floor: 2, Clause: "MapIterator / MapStream never test a raw int parameter (parallelism, bufferSize) against 0 by == or != (the documented defaults apply to every value <= 0)", Run: ruleDefaultCoversNegatives})
	properties["C15"].Rules = append(properties["C15"].Rules,
		&Rule{ID: "C15.gen-only-incremented", Floor: 8, Clause: "every store to the modification counter of Deque / internal/heap.Heap is gen + 1, and a whole-value replacement through the receiver carries the old counter over", Run: ruleGenOnlyIncremented})
})

// done-after-f (C17-r7m3): the goroutine spawn starts releases its WaitGroup slot only AFTER f has returned (or through a
// deferred call). Done before f makes StopAndWait return while f is still running.
func ruleDoneAfterF(c *Ctx, r *R) {
	sp := c.fn("xsync.Group.spawn")
	if sp == nil {
		r.undecided("xsync.Group.spawn|missing", token.NoPos, "anchor not found")
		return
	}
	var clo *ssa.Function
	instrs(sp, func(_ *ssa.BasicBlock, _ int, in ssa.Instruction) {
		if g, ok := in.(*ssa.Go); ok {
			if f := staticCallee(&g.Call); f != nil && f.Blocks != nil {
				clo = f
			}
		}
	})
	if clo == nil {
		r.undecided("xsync.Group.spawn|goroutine", sp.Pos(), "the goroutine's body was not found")
		return
	}
	// state 1 = the function handed to spawn has been called
	isF := func(call *ssa.Call) bool {
		if call.Call.IsInvoke() {
			return false
		}
		switch call.Call.Value.(type) {
		case *ssa.Function, *ssa.Builtin, *ssa.MakeClosure:
			return false
		}
		for _, lf := range valueLeaves(call.Call.Value, nil, 0) {
			if p, ok := lf.v.(*ssa.Parameter); ok && (rootFn(p.Parent()) == sp || p.Parent() == clo) {
				if _, isSig := p.Type().Underlying().(*types.Signature); isSig {
					return true // (go g.runSpawned(f): the goroutine body is a named method that is handed f)
				}
			}
		}
		return false
	}
	pkg := rootFn(sp).Pkg
	pf := &PF{N: 2, DeepVisit: true, InScope: func(f *ssa.Function) bool { return rootFn(f).Pkg == pkg && f.Blocks != nil && f != clo }}
	pf.Instr = func(f *ssa.Function, in ssa.Instruction, q int) (StateSet, bool) {
		if call, ok := in.(*ssa.Call); ok && isF(call) {
			return ss(1), true
		}
		return 0, false
	}
	n, nf := 0, 0
	pf.Visit = func(f *ssa.Function, in ssa.Instruction, before StateSet) {
		var cc *ssa.CallCommon
		switch x := in.(type) {
		case *ssa.Call:
			cc = &x.Call
			if isF(x) {
				nf++
			}
		case deferredCall:
			cc = &x.Defer.Call
		}
		if cc == nil {
			return
		}
		if cal := cc.StaticCallee(); cal != nil && cal.Name() == "Done" && cal.Pkg != nil && cal.Pkg.Pkg.Path() == "sync" {
			n++
			r.ok(before == ss(1), "xsync.Group.spawn|done-after-f#"+itoa(n), in.Pos(), "wg.Done() can run before the spawned function has been called and has returned: StopAndWait's wg.Wait() is released while the function is still running")
		}
	}
	pf.Exits(clo, ss(0))
	if n == 0 || nf == 0 {
		r.undecided("xsync.Group.spawn|done", clo.Pos(), "wg.Done() / the call of the spawned function not found in the goroutine")
	}
}

// set-always-publishes (C18-r7m2): every call of Watchable.Set installs a new inner value (and closes the previous channel):
// "closed iff a later Set happened" holds only if no Set is skipped. A shortcut for "the value has not changed" leaves an
// observer that started before the first Set of the zero value waiting for ever.
func ruleSetAlwaysPublishes(c *Ctx, r *R) {
	fn := c.fn("xsync.Watchable.Set")
	if fn == nil {
		r.undecided("xsync.Watchable.Set|missing", token.NoPos, "anchor not found")
		return
	}
	pkg := rootFn(fn).Pkg
	pf := &PF{N: 2, InScope: func(f *ssa.Function) bool { return rootFn(f).Pkg == pkg && f.Blocks != nil && f != fn }}
	pf.Instr = func(f *ssa.Function, in ssa.Instruction, q int) (StateSet, bool) {
		call, ok := in.(*ssa.Call)
		if !ok {
			return 0, false
		}
		cal := call.Call.StaticCallee()
		if cal == nil || calleePkgPath(cal) != "sync/atomic" {
			return 0, false
		}
		switch baseName(cal) {
		case "Swap", "Store", "SwapPointer", "StorePointer":
			return ss(1), true
		}
		return 0, false
	}
	pf.Edge = func(f *ssa.Function, g guard, q int) (StateSet, bool) {
		// a successful CompareAndSwap publishes too
		if bv, val := g.boolVal(); val {
			if call, ok := bv.(*ssa.Call); ok {
				if cal := call.Call.StaticCallee(); cal != nil && calleePkgPath(cal) == "sync/atomic" && strings.HasPrefix(baseName(cal), "CompareAndSwap") {
					return ss(1), true
				}
			}
		}
		return 0, false
	}
	n := 0
	for _, e := range pf.Exits(fn, ss(0)) {
		n++
		r.ok(e.States == ss(1), "xsync.Watchable.Set|publishes#"+itoa(n), retPos(e.Ret), "a path through Set returns without having installed a new value: that Set wakes nobody, so a channel handed out by Value() is not closed although a later Set happened")
	}
	if n == 0 {
		r.undecided("xsync.Watchable.Set|returns", fn.Pos(), "no return found")
	}
}

// backward-scan-reaches-zero (C19-r7m1): LastIndex / LastIndexFunc scan from len(s)-1 down to AND INCLUDING 0.
func ruleBackwardScanReachesZero(c *Ctx, r *R) {
	for _, name := range []string{"xslices.LastIndex", "xslices.LastIndexFunc"} {
		fn := c.fn(name)
		if fn == nil {
			r.undecided(name+"|missing", token.NoPos, "anchor not found")
			continue
		}
		n := 0
		instrs(fn, func(b *ssa.BasicBlock, _ int, in ssa.Instruction) {
			iff, ok := in.(*ssa.If)
			if !ok {
				return
			}
			bin, ok := iff.Cond.(*ssa.BinOp)
			if !ok {
				return
			}
			// the count-down index: a merge of len(s)-1 and itself minus one
			phi, ok := bin.X.(*ssa.Phi)
			x, y, op := bin.X, bin.Y, bin.Op
			if !ok {
				if phi, ok = bin.Y.(*ssa.Phi); !ok {
					return
				}
				x, y, op = bin.Y, bin.X, flip(bin.Op)
			}
			_ = x
			down := false
			for _, e := range phi.Edges {
				if sub, ok := e.(*ssa.BinOp); ok && sub.Op == token.SUB && sub.X == ssa.Value(phi) && isConstInt(sub.Y, 1) {
					down = true
				}
			}
			if !down {
				return
			}
			n++
			good := (op == token.GEQ && isConstInt(y, 0)) || (op == token.GTR && isConstInt(y, -1))
			r.ok(good, name+"|scan-bound#"+itoa(n), bin.Pos(), "the backward scan continues while i "+op.String()+" "+path(y)+": it must include index 0 (i >= 0), otherwise a match in the first element is not found")
		})
		if n == 0 && name == "xslices.LastIndex" {
			// LastIndex(s, x) as LastIndexFunc(s, func(item T) bool { return item == x }): the scan is LastIndexFunc's (judged
			// above / below); here: the same slice, the result handed back, and a predicate that is equality with x
			lf := c.fn("xslices.LastIndexFunc")
			delegated := false
			instrs(fn, func(_ *ssa.BasicBlock, _ int, in ssa.Instruction) {
				ret, ok := in.(*ssa.Return)
				if !ok || len(ret.Results) != 1 {
					return
				}
				call, ok := returnedValue(ret, 0).(*ssa.Call)
				if !ok || lf == nil || origin(staticCallee(&call.Call)) != origin(lf) || len(call.Call.Args) != 2 || call.Call.Args[0] != ssa.Value(fn.Params[0]) {
					return
				}
				pred := resolveFuncValue(call.Call.Args[1], 0)
				if pred == nil || pred.Parent() != fn || len(pred.Params) != 1 {
					return
				}
				eq := true
				nr := 0
				instrs(pred, func(_ *ssa.BasicBlock, _ int, in2 ssa.Instruction) {
					r2, ok := in2.(*ssa.Return)
					if !ok {
						return
					}
					nr++
					bin, ok := returnedValue(r2, 0).(*ssa.BinOp)
					if !ok || bin.Op != token.EQL {
						eq = false
						return
					}
					a, b := resolveVal(bin.X), resolveVal(bin.Y)
					isItem := func(v ssa.Value) bool { return v == ssa.Value(pred.Params[0]) }
					isX := func(v ssa.Value) bool {
						if v == ssa.Value(fn.Params[1]) {
							return true
						}
						if ld, ok := v.(*ssa.UnOp); ok && ld.Op == token.MUL {
							if cell := cellOf(ld.X); cell != nil {
								return cellHolds(cell, fn.Params[1])
							}
						}
						if fv, ok := v.(*ssa.FreeVar); ok {
							return fv.Name() == fn.Params[1].Name()
						}
						return false
					}
					if !((isItem(a) && isX(b)) || (isItem(b) && isX(a))) {
						eq = false
					}
				})
				if eq && nr == 1 {
					delegated = true
				}
			})
			if delegated {
				r.discharged(name+"|scan-bound#1", fn.Pos(), "delegates to LastIndexFunc with the same slice and the predicate item == x")
				continue
			}
		}
		if n == 0 {
			r.undecided(name+"|scan", fn.Pos(), "no count-down loop found")
		}
	}
}

// mink-allocation (C19-r7m2): MinK's memory follows the items it has seen, never the caller's k ("fewer than k items: all of
// them" makes a huge k a legal way to ask for everything): no allocation or Grow in MinK is sized from k.
func ruleMinKAllocation(c *Ctx, r *R) {
	fn := c.fn("xsort.MinK")
	if fn == nil {
		r.undecided("xsort.MinK|missing", token.NoPos, "anchor not found")
		return
	}
	var k *ssa.Parameter
	for _, p := range fn.Params {
		if isIntType(p.Type()) {
			k = p
		}
	}
	if k == nil {
		r.undecided("xsort.MinK|k", fn.Pos(), "parameter k not found")
		return
	}
	var dependsOnK func(v ssa.Value, d int) bool
	dependsOnK = func(v ssa.Value, d int) bool {
		if d > 6 {
			return false
		}
		switch x := resolveVal(v).(type) {
		case *ssa.Parameter:
			return x == k
		case *ssa.BinOp:
			return dependsOnK(x.X, d+1) || dependsOnK(x.Y, d+1)
		case *ssa.Convert:
			return dependsOnK(x.X, d+1)
		case *ssa.Phi:
			for _, e := range x.Edges {
				if e != ssa.Value(x) && dependsOnK(e, d+1) {
					return true
				}
			}
		case *ssa.Call:
			for _, a := range x.Call.Args {
				if dependsOnK(a, d+1) {
					return true
				}
			}
		}
		return false
	}
	n := 0
	instrs(fn, func(_ *ssa.BasicBlock, _ int, in ssa.Instruction) {
		switch x := in.(type) {
		case *ssa.MakeSlice:
			n++
			r.ok(!dependsOnK(x.Len, 0) && !dependsOnK(x.Cap, 0), "xsort.MinK|alloc#"+itoa(n), x.Pos(), "MinK allocates a slice sized from k: a very large k (a legal way to ask for all items, sorted) makes it allocate without bound or panic")
		case *ssa.Call:
			cal := staticCallee(&x.Call)
			if cal == nil || (fname(cal) != "Grow" && fname(cal) != "New") {
				return
			}
			dep := false
			for _, a := range x.Call.Args {
				if isIntType(a.Type()) && dependsOnK(a, 0) {
					dep = true
				}
			}
			n++
			r.ok(!dep, "xsort.MinK|alloc#"+itoa(n), x.Pos(), "MinK grows its heap by an amount computed from k: a very large k (a legal way to ask for all items, sorted) makes it allocate without bound or panic")
		}
	})
	if n == 0 {
		r.undecided("xsort.MinK|allocs", fn.Pos(), "no allocation found")
	}
}

// merge-result-in-out (C19-r7m3): MergeSlices builds its result in `out` (grown from out[:0]): every return yields that slice,
// never one of the inputs (a caller that appends to or edits the result would change its input).
func ruleMergeResultInOut(c *Ctx, r *R) {
	fn := c.fn("xsort.MergeSlices")
	if fn == nil || len(fn.Params) < 3 {
		r.undecided("xsort.MergeSlices|missing", token.NoPos, "anchor not found")
		return
	}
	in := fn.Params[len(fn.Params)-1]
	n := 0
	instrs(fn, func(_ *ssa.BasicBlock, _ int, x ssa.Instruction) {
		ret, ok := x.(*ssa.Return)
		if !ok || len(ret.Results) != 1 {
			return
		}
		for _, vr := range virtualReturnsOf(ret, 0) {
			n++
			bad := false
			var walk func(v ssa.Value, d int)
			walk = func(v ssa.Value, d int) {
				if d > 8 || bad {
					return
				}
				switch y := v.(type) {
				case *ssa.UnOp:
					if y.Op == token.MUL {
						if ia, ok := y.X.(*ssa.IndexAddr); ok && resolveVal(ia.X) == ssa.Value(in) {
							bad = true
							return
						}
						if cell := cellOf(y.X); cell != nil {
							for _, st := range storesTo(cell) {
								walk(st.Val, d+1)
							}
						}
					}
				case *ssa.Phi:
					for _, e := range y.Edges {
						if e != ssa.Value(y) {
							walk(e, d+1)
						}
					}
				case *ssa.Slice:
					walk(y.X, d+1)
				case *ssa.Index:
					if resolveVal(y.X) == ssa.Value(in) {
						bad = true
					}
				case *ssa.Parameter:
					if y == in {
						bad = true
					}
				}
			}
			walk(vr.val, 0)
			r.ok(!bad, "xsort.MergeSlices|result-not-an-input#"+itoa(n), retPos(ret), "MergeSlices returns one of its input slices instead of the merged copy built in out: the result aliases the caller's input, and the pre-allocated out is ignored")
		}
	})
	if n == 0 {
		r.undecided("xsort.MergeSlices|returns", fn.Pos(), "no return found")
	}
}

// sleep-returns (C20-r7m3): SleepContext returns nil only when d <= 0 or its timer for d has fired, and ctx.Err() only inside the
// <-ctx.Done() arm (anywhere else ctx.Err() may be nil: a shortcut for short sleeps returns nil before d has elapsed).
func ruleSleepReturns(c *Ctx, r *R) {
	fn := c.fn("xtime.SleepContext")
	if fn == nil || len(fn.Params) < 2 {
		r.undecided("xtime.SleepContext|missing", token.NoPos, "anchor not found")
		return
	}
	dP := fn.Params[1]
	n := 0
	for _, di := range deepInstrs(fn, 2) {
		ret, ok := di.in.(*ssa.Return)
		if !ok || len(ret.Results) == 0 || ret.Parent() != fn {
			continue
		}
		for _, vr := range virtualReturnsOf(ret, len(ret.Results)-1) {
			n++
			v := vr.val
			good, why := false, ""
			switch {
			case isNilConst(v):
				// d <= 0, or the timer arm
				for _, g := range guardsOf(vr.blk) {
					if cf, ok := g.asCmp(); ok {
						if cf.x == ssa.Value(dP) && ((cf.op == token.LEQ && isConstInt(cf.y, 0)) || (cf.op == token.LSS && isConstInt(cf.y, 1))) {
							good = true
						}
						// select index == the timer arm
						if ex, ok := cf.x.(*ssa.Extract); ok && ex.Index == 0 && cf.op == token.EQL {
							if sel, ok := ex.Tuple.(*ssa.Select); ok {
								if k, isK := cf.y.(*ssa.Const); isK && k.Value != nil {
									idx := int(k.Int64())
									if idx >= 0 && idx < len(sel.States) {
										if kind, _ := classifyChan(sel.States[idx].Chan); kind == "timer" {
											good = true
										}
									}
								}
							}
						}
					}
				}
				// after a helper that waited under the context reported no error (chans.RecvContext(ctx, timer.C))
				if !good {
					for _, g := range guardsOf(vr.blk) {
						if cf, ok := g.asCmp(); ok && cf.op == token.EQL && isNilConst(cf.y) {
							if call, _ := resultCall(cf.x); call != nil {
								if cal := staticCallee(&call.Call); cal != nil && ctxBlockingHelper(c, origin(cal)) {
									good = true
								}
							}
						}
					}
				}
				// one `return nil` at the bottom that both ways share (`if d > 0 { … select { … case <-t.C: } }; return nil`): every
				// path to it has taken the d <= 0 edge or the timer arm (typestate over the edges)
				if !good && vr.blk == ret.Block() {
					pfn := &PF{N: 2}
					pfn.Edge = func(_ *ssa.Function, g guard, q int) (StateSet, bool) {
						cf, ok := g.asCmp()
						if !ok {
							return 0, false
						}
						if cf.x == ssa.Value(dP) && ((cf.op == token.LEQ && isConstInt(cf.y, 0)) || (cf.op == token.LSS && isConstInt(cf.y, 1))) {
							return ss(1), true
						}
						if ex, ok := cf.x.(*ssa.Extract); ok && ex.Index == 0 && cf.op == token.EQL {
							if sel, ok := ex.Tuple.(*ssa.Select); ok {
								if k, isK := cf.y.(*ssa.Const); isK && k.Value != nil {
									idx := int(k.Int64())
									if idx >= 0 && idx < len(sel.States) {
										if kind, _ := classifyChan(sel.States[idx].Chan); kind == "timer" {
											return ss(1), true
										}
									}
								}
							}
						}
						return 0, false
					}
					all, seen := true, false
					for _, e := range pfn.Exits(fn, ss(0)) {
						if e.Ret == ret {
							seen = true
							if e.States != ss(1) {
								all = false
							}
						}
					}
					good = seen && all
				}
				why = "nil is returned on a path on which neither d <= 0 holds nor the timer for d has fired: the caller is told the sleep completed before d has elapsed"
			default:
				if ec, ok := v.(*ssa.Call); ok && ec.Call.IsInvoke() && ec.Call.Method.Name() == "Err" {
					good = isCtxErrAfterDone(ec)
					why = "ctx.Err() is returned outside the <-ctx.Done() arm: it is nil while the context is live, so the sleep reports completion early"
				} else {
					good = true // DeadlineTooSoonError, a helper's error: other rules
				}
			}
			r.ok(good, "xtime.SleepContext|return#"+itoa(n), retPos(ret), why)
		}
	}
	if n == 0 {
		r.undecided("xtime.SleepContext|returns", fn.Pos(), "no return found")
	}
}

var _ = late(func() {
	properties["C17"].Rules = append(properties["C17"].Rules,
		&Rule{ID: "C17.done-after-f", Floor: 1, Clause: "in the goroutine that Group.spawn starts, wg.Done() runs only after the spawned function has returned (after its call, or deferred)", Run: ruleDoneAfterF})
	properties["C18"].Rules = append(properties["C18"].Rules,
		&Rule{ID: "C18.set-always-publishes", Floor: 1, Clause: "every path through Watchable.Set installs a new inner value (atomic Swap / Store / successful CompareAndSwap)", Run: ruleSetAlwaysPublishes})
	properties["C19"].Rules = append(properties["C19"].Rules,
		&Rule{ID: "C19.backward-scan-reaches-zero", Floor: 2, Clause: "the count-down loops of xslices.LastIndex and LastIndexFunc continue while i >= 0", Run: ruleBackwardScanReachesZero},
		&Rule{ID: "C19.mink-allocation", Floor: 1, Clause: "no allocation, Grow or heap construction in xsort.MinK is sized from the parameter k", Run: ruleMinKAllocation},
		&Rule{ID: "C19.merge-result-in-out", Floor: 1, Clause: "xsort.MergeSlices never returns (a reslice of) one of its input slices", Run: ruleMergeResultInOut})
	properties["C20"].Rules = append(properties["C20"].Rules,
		&Rule{ID: "C20.sleep-returns", Floor: 3, Clause: "SleepContext returns nil only under d <= 0 or in the arm in which its timer fired, and ctx.Err() only inside the <-ctx.Done() arm", Run: ruleSleepReturns})
})

// calleePkgPath: the import path of the package a function (or the generic origin of an instantiated method) belongs to.
func calleePkgPath(f *ssa.Function) string {
	if o := origin(f); o != nil && o.Pkg != nil {
		return o.Pkg.Pkg.Path()
	}
	if obj := f.Object(); obj != nil && obj.Pkg() != nil {
		return obj.Pkg().Path()
	}
	if o := origin(f); o != nil {
		if obj := o.Object(); obj != nil && obj.Pkg() != nil {
			return obj.Pkg().Path()
		}
	}
	return ""
}

var _ = late(func() {
	// C02-r7m3: a lost child pointer (rotateRight shifting children one short) makes an iterator walk into a nil child
	properties["C02"].Rules = append(properties["C02"].Rules,
		&Rule{ID: "C02.children-one-more", Floor: 4, Clause: "same rule as C03.children-one-more: a node with n keys has n+1 children wherever keys and children are shifted together - an iterator that reaches a node whose last child pointer was dropped dereferences nil or skips the subtree's keys", Run: ruleChildrenOneMore})
})

// literalCallSite: the one call of function literal lit among the functions of its family (see literalCallArg), nil otherwise.
func literalCallSite(lit *ssa.Function) *ssa.Call {
	if lit == nil || lit.Parent() == nil {
		return nil
	}
	var site *ssa.Call
	n := 0
	for _, host := range withAnon(rootFn(lit)) {
		if host == lit {
			continue
		}
		instrs(host, func(_ *ssa.BasicBlock, _ int, in ssa.Instruction) {
			call, ok := in.(*ssa.Call)
			if !ok || call.Call.IsInvoke() {
				return
			}
			var f *ssa.Function
			switch v := call.Call.Value.(type) {
			case *ssa.MakeClosure:
				f, _ = v.Fn.(*ssa.Function)
			case *ssa.Function:
				f = v
			case *ssa.UnOp:
				f = resolveFuncValue(v, 0)
			}
			if f == lit {
				site = call
				n++
			}
		})
	}
	if n != 1 {
		return nil
	}
	return site
}
