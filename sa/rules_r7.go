package main

import (
	"go/token"
	"go/types"
	"strings"

	"golang.org/x/tools/go/ssa"
)

// Rules written for the mutations of seed round 7 that the analyser missed at import (each is a necessary condition of the
// property it is registered under; the seed it was written for is named in the comment).

// stealFailedAt: when control is in block b, t.steal(v) is known to have returned false: a guard on the way tests the boolean
// result of a steal call on v for false, or v merges alternatives for each of which that holds on its own edge (nil
// alternatives are excluded by the caller's nil test).
func stealFailedAt(v ssa.Value, b *ssa.BasicBlock, depth int, seen map[ssa.Value]bool) bool {
	return stealFailedOn(v, b, nil, depth, seen)
}

// stealFailedOn: ... on the edge b -> to when to is given.
func stealFailedOn(v ssa.Value, b, to *ssa.BasicBlock, depth int, seen map[ssa.Value]bool) bool {
	if depth > 6 || seen[v] {
		return false
	}
	seen[v] = true
	defer delete(seen, v)
	if isNilConst(v) {
		return true
	}
	var gs []guard
	gs = append(gs, guardsOf(b)...)
	gs = append(gs, guardsOfSelf(b)...)
	if len(b.Preds) == 1 {
		gs = append(gs, edgeGuard(b.Preds[0], b)...)
	}
	if to != nil {
		gs = append(gs, edgeGuard(b, to)...)
	}
	for _, g := range gs {
		bv, val := g.boolVal()
		if val {
			continue
		}
		call, ok := bv.(*ssa.Call)
		if !ok {
			continue
		}
		cal := staticCallee(&call.Call)
		if cal == nil || fname(cal) != "steal" {
			continue
		}
		as := argsAs(&call.Call)
		for _, a := range as {
			if a != nil && (a == v || resolveVal(a) == resolveVal(v)) {
				return true
			}
		}
	}
	if phi, ok := v.(*ssa.Phi); ok {
		all := len(phi.Edges) > 0
		for k, e := range phi.Edges {
			if e == ssa.Value(phi) {
				continue
			}
			if !stealFailedOn(e, phi.Block().Preds[k], phi.Block(), depth+1, seen) {
				all = false
			}
		}
		return all
	}
	return false
}

// merge-after-failed-steal (C01-r7m1): merge folds a node into a sibling and relies on "no sibling has a spare entry" - i.e.
// on steal having just failed for that very node. Merging an under-full node next to a richer sibling overflows the merged
// node: copy() truncates silently, entries are lost and n exceeds the arrays.
func ruleMergeAfterFailedSteal(c *Ctx, r *R) {
	n := 0
	for _, fn := range c.funcsOfPkg(treeRel) {
		name := c.nameOf(fn)
		instrs(fn, func(b *ssa.BasicBlock, _ int, in ssa.Instruction) {
			call, ok := in.(*ssa.Call)
			if !ok {
				return
			}
			cal := staticCallee(&call.Call)
			if cal == nil || fname(cal) != "merge" || rootFn(cal).Pkg != rootFn(fn).Pkg {
				return
			}
			as := argsAs(&call.Call)
			if len(as) < 2 || as[1] == nil {
				return
			}
			n++
			r.ok(stealFailedAt(as[1], b, 0, map[ssa.Value]bool{}), name+"|merge-after-failed-steal#"+itoa(n), call.Pos(), "merge("+path(as[1])+") is reached without steal("+path(as[1])+") having failed on this path: with a sibling that could have lent an entry the merged node does not fit (both halves plus the separator exceed maxKVs; copy truncates, entries are lost)")
		})
	}
	if n == 0 {
		r.undecided("tree|merge-calls", token.NoPos, "no call of merge found")
	}
}

// sibling-bounds (C01-r7m2): siblings(x) reads parent.children[idx-1] only under idx > 0 and parent.children[idx+1] only under
// idx < parent.n (a node with n separators has children 0..n): `<=` reads one past the last child - nil for most parents, out
// of range for a full one.
func ruleSiblingBounds(c *Ctx, r *R) {
	fn := bt(c, "siblings")
	if fn == nil {
		r.undecided("tree.btree.siblings|missing", token.NoPos, "anchor not found")
		return
	}
	n := 0
	instrs(fn, func(b *ssa.BasicBlock, _ int, in ssa.Instruction) {
		ia, ok := in.(*ssa.IndexAddr)
		if !ok {
			return
		}
		nd, arr, ok := nodeArray(ia.X)
		if !ok || arr != "children" {
			return
		}
		bin, ok := ia.Index.(*ssa.BinOp)
		if !ok || !isConstInt(bin.Y, 1) || (bin.Op != token.ADD && bin.Op != token.SUB) {
			return
		}
		n++
		idx := bin.X
		good := false
		for _, g := range append(guardsOf(b), guardsOfSelf(b)...) {
			cf, ok := g.asCmp()
			if !ok {
				continue
			}
			x, y, op := cf.x, cf.y, cf.op
			if y == idx {
				x, y, op = y, x, flip(op)
			}
			if x != idx {
				continue
			}
			if bin.Op == token.SUB && op == token.GTR && isConstInt(y, 0) {
				good = true
			}
			if bin.Op == token.SUB && op == token.GEQ && isConstInt(y, 1) {
				good = true
			}
			if bin.Op == token.ADD && op == token.LSS {
				// y is <same node>.n (converted)
				if ld, ok := stripConvs(y).(*ssa.UnOp); ok && ld.Op == token.MUL {
					if fa, ok := ld.X.(*ssa.FieldAddr); ok && fieldName(fa.X.Type(), fa.Field) == "n" && path(fa.X) == path(nd) {
						good = true
					}
				}
			}
		}
		side := "right"
		if bin.Op == token.SUB {
			side = "left"
		}
		r.ok(good, "tree.btree.siblings|"+side+"-sibling-bound#"+itoa(n), ia.Pos(), "the "+side+" sibling is read at "+path(ia.Index)+" without the strict bound (idx > 0 / idx < parent.n): a parent with n separators has children 0..n, one further is nil - or out of range when the parent is full")
	})
	if n < 2 {
		r.undecided("tree.btree.siblings|reads", fn.Pos(), "expected a read of children[idx-1] and of children[idx+1]")
	}
}

// cursor-lands-on-leaf (C01-r7m3): the in-order neighbour of a separator of an interior node is the extreme entry of the
// adjacent subtree, which lives in a LEAF: when Next / Prev step off a separator they position the cursor through
// leftmostLeaf / rightmostLeaf respectively. Assigning the child itself is right only for two-level trees; deeper down the
// whole extreme leaf is skipped.
func ruleCursorLandsOnLeaf(c *Ctx, r *R) {
	for _, m := range []struct{ name, helper string }{{"Next", "leftmostLeaf"}, {"Prev", "rightmostLeaf"}} {
		fn := cur(c, m.name)
		if fn == nil {
			r.undecided("tree.cursor."+m.name+"|missing", token.NoPos, "anchor not found")
			continue
		}
		n := 0
		for _, di := range deepInstrs(fn, 1) {
			st, ok := di.in.(*ssa.Store)
			if !ok {
				continue
			}
			fa, ok := st.Addr.(*ssa.FieldAddr)
			if !ok || !isNamedType(fa.X.Type(), treeRel, "cursor") || fieldName(fa.X.Type(), fa.Field) != "curr" {
				continue
			}
			var alts []ssa.Value
			var expand func(v ssa.Value, d int)
			expand = func(v ssa.Value, d int) {
				if phi, ok := v.(*ssa.Phi); ok && d < 4 {
					for _, e := range phi.Edges {
						if e != ssa.Value(phi) {
							expand(e, d+1)
						}
					}
					return
				}
				alts = append(alts, v)
			}
			expand(st.Val, 0)
			for _, v := range alts {
				if isNilConst(v) {
					continue
				}
				// descending: a child pointer (directly, or as the argument of a descent helper)
				desc := ""
				childOf := func(x ssa.Value) bool {
					ld, ok := x.(*ssa.UnOp)
					if !ok || ld.Op != token.MUL {
						return false
					}
					ia, ok := ld.X.(*ssa.IndexAddr)
					if !ok {
						return false
					}
					_, arr, ok := nodeArray(ia.X)
					return ok && arr == "children"
				}
				if childOf(v) {
					desc = "the child itself"
				}
				if call, ok := v.(*ssa.Call); ok {
					if cal := staticCallee(&call.Call); cal != nil && len(call.Call.Args) > 0 && childOf(call.Call.Args[len(call.Call.Args)-1]) {
						desc = fname(cal)
					}
				}
				if desc == "" {
					continue // ascending (parent) or a seek: other rules
				}
				n++
				r.ok(desc == m.helper, "tree.cursor."+m.name+"|descends-to-leaf#"+itoa(n), st.Pos(), "stepping off a separator, "+m.name+" must move the cursor to "+m.helper+"(child) - the neighbouring entry is in a leaf; found "+desc+": in a tree of three or more levels the entries of the skipped leaf are never visited")
			}
		}
		if n == 0 {
			r.undecided("tree.cursor."+m.name+"|descent", fn.Pos(), "no descent into a child found")
		}
	}
}

var _ = late(func() {
	properties["C01"].Rules = append(properties["C01"].Rules,
		&Rule{ID: "C01.merge-after-failed-steal", Floor: 2, Clause: "every call of merge(x) is reached only on paths on which steal(x) has just returned false (merge's precondition: no sibling can lend an entry, so the two halves plus the separator fit one node)", Run: ruleMergeAfterFailedSteal},
		&Rule{ID: "C01.sibling-bounds", Floor: 2, Clause: "siblings reads children[idx-1] only under idx > 0 and children[idx+1] only under idx < parent.n", Run: ruleSiblingBounds},
		&Rule{ID: "C01.cursor-lands-on-leaf", Floor: 2, Clause: "when cursor.Next / cursor.Prev step off a separator of an interior node they position the cursor with leftmostLeaf / rightmostLeaf of the adjacent child (the in-order neighbour of a separator is in a leaf)", Run: ruleCursorLandsOnLeaf})
	properties["C03"].Rules = append(properties["C03"].Rules,
		&Rule{ID: "C03.merge-after-failed-steal", Floor: 2, Clause: "same rule as C01.merge-after-failed-steal: merge is reached only after steal failed for the same node - otherwise the merged node exceeds maxKVs", Run: ruleMergeAfterFailedSteal},
		&Rule{ID: "C03.sibling-bounds", Floor: 2, Clause: "same rule as C01.sibling-bounds", Run: ruleSiblingBounds})
	properties["C02"].Rules = append(properties["C02"].Rules,
		&Rule{ID: "C02.cursor-lands-on-leaf", Floor: 2, Clause: "same rule as C01.cursor-lands-on-leaf: iteration in either direction visits every entry only if stepping off a separator goes all the way down to the adjacent leaf", Run: ruleCursorLandsOnLeaf})
})

var _ = strings.HasPrefix
var _ types.Type

// isZeroValueR7: v is the zero value of its type: a nil-valued constant, or the load of a local that is never assigned.
func isZeroValueR7(v ssa.Value) bool {
	switch x := v.(type) {
	case *ssa.Const:
		if x.Value == nil {
			return true
		}
		return isConstInt(x, 0)
	case *ssa.UnOp:
		if x.Op == token.MUL {
			if al, ok := x.X.(*ssa.Alloc); ok {
				return len(storesTo(al)) == 0
			}
		}
	}
	return isZeroStruct(v)
}

// remove-zeroes-tail (C03-r7m1): removeOne vacates the last slot of the slice it shifts - on EVERY path: an early return for
// "nothing to shift" leaves the removed key / value / child in the first unused slot, where nothing ever clears it (retained
// garbage; for children, a whole unlinked subtree stays reachable).
func ruleRemoveZeroesTail(c *Ctx, r *R) {
	fn := c.fn(treeRel + ".removeOne")
	if fn == nil || len(fn.Params) < 1 {
		r.undecided("tree.removeOne|missing", token.NoPos, "anchor not found")
		return
	}
	a := fn.Params[0]
	pf := &PF{N: 2}
	pf.Instr = func(f *ssa.Function, in ssa.Instruction, q int) (StateSet, bool) {
		st, ok := in.(*ssa.Store)
		if !ok || !isZeroValueR7(st.Val) {
			return 0, false
		}
		ia, ok := st.Addr.(*ssa.IndexAddr)
		if !ok || resolveVal(ia.X) != ssa.Value(a) {
			return 0, false
		}
		// index len(a)-1
		if bin, ok := ia.Index.(*ssa.BinOp); ok && bin.Op == token.SUB && isConstInt(bin.Y, 1) {
			if lc, ok := bin.X.(*ssa.Call); ok {
				if bi, ok := lc.Call.Value.(*ssa.Builtin); ok && bi.Name() == "len" && resolveVal(lc.Call.Args[0]) == ssa.Value(a) {
					return ss(1), true
				}
			}
		}
		return 0, false
	}
	n := 0
	for _, e := range pf.Exits(fn, ss(0)) {
		n++
		r.ok(e.States == ss(1), "tree.removeOne|zeroes-tail#"+itoa(n), retPos(e.Ret), "a path through removeOne returns without having cleared a[len(a)-1]: the removed entry (or an unlinked child subtree) stays referenced from the node's first unused slot")
	}
	if n == 0 {
		r.undecided("tree.removeOne|returns", fn.Pos(), "no return found")
	}
}

// reachesAvoiding: is there a path from block a to block b that does not pass through block avoid?
func reachesAvoiding(a, b, avoid *ssa.BasicBlock) bool {
	seen := map[*ssa.BasicBlock]bool{}
	var walk func(x *ssa.BasicBlock) bool
	walk = func(x *ssa.BasicBlock) bool {
		for _, s := range x.Succs {
			if s == avoid || seen[s] {
				continue
			}
			if s == b {
				return true
			}
			seen[s] = true
			if walk(s) {
				return true
			}
		}
		return false
	}
	return walk(a)
}

// split-reads-before-writes (C03-r7m3): in overfill the left half IS the node being split, and the amalgam is only a view over
// its arrays: everything the new right node receives must be read through the view BEFORE the left half is rewritten (within
// one pass of the split). A right-half read placed after a left-half write picks up entries the write has already moved.
func ruleSplitReadsBeforeWrites(c *Ctx, r *R) {
	fn := bt(c, "overfill")
	if fn == nil {
		r.undecided("tree.btree.overfill|missing", token.NoPos, "anchor not found")
		return
	}
	// the block in which the view is built (start of one pass)
	var viewBlk *ssa.BasicBlock
	var view *ssa.Call
	instrs(fn, func(b *ssa.BasicBlock, _ int, in ssa.Instruction) {
		if call, ok := in.(*ssa.Call); ok {
			if cal := staticCallee(&call.Call); cal != nil && strings.HasPrefix(fname(cal), "newAmalgam") {
				viewBlk, view = b, call
			}
		}
	})
	if view == nil {
		r.undecided("tree.btree.overfill|view", fn.Pos(), "the amalgam view was not found")
		return
	}
	isFresh := func(nd ssa.Value) bool {
		_, ok := resolveVal(nd).(*ssa.Alloc)
		return ok
	}
	// reads through the view whose result is stored into the fresh right node; writes into the node being split
	var rightReads []*ssa.Call
	var leftWrites []*ssa.Store
	instrs(fn, func(b *ssa.BasicBlock, _ int, in ssa.Instruction) {
		st, ok := in.(*ssa.Store)
		if !ok {
			return
		}
		nd, _, ok := nodeArray(st.Addr)
		if !ok {
			return
		}
		if isFresh(nd) {
			if call, ok := resolveVal(st.Val).(*ssa.Call); ok {
				if cal := staticCallee(&call.Call); cal != nil && cal.Signature.Recv() != nil && isNamedTypeDeep(cal.Signature.Recv().Type(), treeRel, "amalgam1") {
					rightReads = append(rightReads, call)
				}
			}
			return
		}
		leftWrites = append(leftWrites, st)
	})
	if len(rightReads) == 0 || len(leftWrites) == 0 {
		r.undecided("tree.btree.overfill|halves", fn.Pos(), "the reads for the right half / the writes of the left half were not found")
		return
	}
	n := 0
	for _, rd := range rightReads {
		n++
		late := false
		var at token.Pos
		for _, w := range leftWrites {
			if w.Block() == rd.Block() || reachesAvoiding(w.Block(), rd.Block(), viewBlk) {
				late, at = true, w.Pos()
			}
		}
		_ = at
		r.ok(!late, "tree.btree.overfill|right-read-before-left-write#"+itoa(n), rd.Pos(), "an entry for the new right node is read through the amalgam view after the left half (the very arrays the view reads) has been rewritten in the same split: it picks up a moved entry - a subtree is linked twice and another one dropped")
	}
}

// grow-capacity (C04-r7m1): Grow asks resize for the CURRENT CAPACITY (or the current length) plus n. Anything derived from the
// ring positions (d.back + 1 + n) is smaller than the number of items when the contents wrap around, and resize then copies
// into a buffer that is too short: items are silently dropped.
func ruleGrowCapacity(c *Ctx, r *R) {
	fn := c.fn("container/deque.Deque.Grow")
	if fn == nil || len(fn.Params) < 2 {
		r.undecided("deque.Deque.Grow|missing", token.NoPos, "anchor not found")
		return
	}
	n := 0
	for _, di := range deepInstrs(fn, 1) {
		call, ok := di.in.(*ssa.Call)
		if !ok {
			continue
		}
		cal := staticCallee(&call.Call)
		if cal == nil || fname(cal) != "resize" || len(call.Call.Args) < 2 {
			continue
		}
		n++
		e := symOf(call.Call.Args[len(call.Call.Args)-1], provEnv{chain: di.calls})
		good := false
		if e.op == "+" && len(e.args) == 2 {
			for i := 0; i < 2; i++ {
				base, extra := e.args[i], e.args[1-i]
				isBase := (base.op == "len" && base.args[0].fieldSuffix("a")) || (base.op == "cap" && base.args[0].fieldSuffix("a")) || (base.op == "call" && base.s == "Len") || base.inl == "Len"
				if isBase && extra.op == "leaf" && extra.s == "param:"+pname(fn.Params[1]) {
					good = true
				}
			}
		}
		r.ok(good, "deque.Deque.Grow|resize-arg#"+itoa(n), call.Pos(), "Grow must resize to len(d.a) + n (or Len() + n): "+e.String()+" can be smaller than the number of items when the contents wrap around the ring, and resize then truncates them")
	}
	if n == 0 {
		r.undecided("deque.Deque.Grow|resize", fn.Pos(), "no call of resize found")
	}
}

// iter-end-is-equality (C04-r7m3): positions in the ring are not ordered (front > back whenever the contents wrap), so the
// iterator recognises the last item by i == back; an ordering test ends a wrapped iteration after its first item.
func ruleIterEndIsEquality(c *Ctx, r *R) {
	fn := c.fn("container/deque.dequeIterator.Next")
	if fn == nil {
		r.undecided("deque.dequeIterator.Next|missing", token.NoPos, "anchor not found")
		return
	}
	n := 0
	for _, di := range deepInstrs(fn, 1) {
		bin, ok := di.in.(*ssa.BinOp)
		if !ok {
			continue
		}
		switch bin.Op {
		case token.EQL, token.NEQ, token.LSS, token.LEQ, token.GTR, token.GEQ:
		default:
			continue
		}
		env := provEnv{chain: di.calls}
		x, y := symOf(bin.X, env), symOf(bin.Y, env)
		isPos := func(e *sx) bool { return e.fieldSuffix("i") || e.fieldSuffix("back") || e.fieldSuffix("front") }
		if !isPos(x) || !isPos(y) || !(x.fieldSuffix("i") || y.fieldSuffix("i")) {
			continue // (front <= back inside Len() is the wrapped-or-not test of the deque itself)
		}
		n++
		r.ok(bin.Op == token.EQL || bin.Op == token.NEQ, "deque.dequeIterator.Next|position-test#"+itoa(n), bin.Pos(), "the iterator compares two ring positions ("+x.String()+" "+bin.Op.String()+" "+y.String()+") by order: positions wrap around, so only equality tells that the last item was reached - a wrapped deque yields one item")
	}
	if n == 0 {
		r.undecided("deque.dequeIterator.Next|end-test", fn.Pos(), "no comparison of the iterator's position with the deque's end found")
	}
}

var _ = late(func() {
	properties["C03"].Rules = append(properties["C03"].Rules,
		&Rule{ID: "C03.remove-zeroes-tail", Floor: 1, Clause: "every path through removeOne clears the vacated last slot a[len(a)-1] (no retained garbage, also when the removed entry is the last one)", Run: ruleRemoveZeroesTail},
		&Rule{ID: "C03.split-reads-before-writes", Floor: 2, Clause: "within one split in overfill every read (through the amalgam view) of an entry destined for the new right node precedes every write into the node being split (whose arrays the view reads)", Run: ruleSplitReadsBeforeWrites})
	properties["C01"].Rules = append(properties["C01"].Rules,
		&Rule{ID: "C01.split-reads-before-writes", Floor: 2, Clause: "same rule as C03.split-reads-before-writes: a right-half read after a left-half write loses a subtree - keys that were put are no longer found", Run: ruleSplitReadsBeforeWrites})
	properties["C04"].Rules = append(properties["C04"].Rules,
		&Rule{ID: "C04.grow-capacity", Floor: 1, Clause: "Deque.Grow resizes to len(d.a) + n (or Len() + n), never to something derived from the ring positions", Run: ruleGrowCapacity},
		&Rule{ID: "C04.iter-end-is-equality", Floor: 1, Clause: "dequeIterator.Next compares its own ring position with the deque's front / back by == / != only", Run: ruleIterEndIsEquality})
	properties["C15"].Rules = append(properties["C15"].Rules,
		&Rule{ID: "C15.iter-end-is-equality", Floor: 1, Clause: "same rule as C04.iter-end-is-equality", Run: ruleIterEndIsEquality})
})

// new-notifies-all (C05-r7m3): heap.New reports the final index of EVERY initial item through indexChanged before it returns
// (PriorityQueue registers its keys with a placeholder index and learns the real one from this call). A shortcut return for
// "trivially a heap" inputs skips the notification: a queue built from a single initial key keeps index -1 and Priority /
// Update / Remove of that key index out of range.
func ruleNewNotifiesAll(c *Ctx, r *R) {
	fn := c.fn("internal/heap.New")
	if fn == nil || len(fn.Params) < 3 {
		r.undecided("heap.New|missing", token.NoPos, "anchor not found")
		return
	}
	initial := fn.Params[len(fn.Params)-1]
	// the notification loop: a call of notifyIndexChanged (or of the callback) with a loop index; its header is the block of
	// that index
	var header *ssa.BasicBlock
	for _, di := range deepInstrs(fn, 1) {
		call, ok := di.in.(*ssa.Call)
		if !ok || len(di.calls) > 0 {
			continue
		}
		cal := staticCallee(&call.Call)
		isNotify := cal != nil && fname(cal) == "notifyIndexChanged"
		if !isNotify {
			if p, isP := resolveVal(call.Call.Value).(*ssa.Parameter); isP && p.Parent() == fn {
				isNotify = true
			}
		}
		if !isNotify || len(call.Call.Args) == 0 {
			continue
		}
		// the innermost loop around the call: the closest dominator the call's block can get back to
		for d := call.Block(); d != nil; d = d.Idom() {
			if d != call.Block() && reaches(call.Block(), d) {
				header = d
				break
			}
			if d == call.Block() && len(d.Succs) == 2 && reaches(d, d) {
				header = d
				break
			}
		}
	}
	if header == nil {
		r.violated("heap.New|notify-loop", fn.Pos(), "New has no loop that reports the index of every initial item")
		return
	}
	n := 0
	instrs(fn, func(b *ssa.BasicBlock, _ int, in ssa.Instruction) {
		ret, ok := in.(*ssa.Return)
		if !ok {
			return
		}
		n++
		good := header.Dominates(b)
		if !good {
			// nothing to report: the return is under len(initial) == 0
			for _, g := range guardsOf(b) {
				cf, ok := g.asCmp()
				if !ok {
					continue
				}
				lc, isCall := resolveVal(cf.x).(*ssa.Call)
				if !isCall {
					continue
				}
				if bi, ok := lc.Call.Value.(*ssa.Builtin); !ok || bi.Name() != "len" || resolveVal(lc.Call.Args[0]) != ssa.Value(initial) {
					continue
				}
				if (cf.op == token.EQL && isConstInt(cf.y, 0)) || (cf.op == token.LSS && isConstInt(cf.y, 1)) || (cf.op == token.LEQ && isConstInt(cf.y, 0)) {
					good = true
				}
			}
		}
		r.ok(good, "heap.New|notifies-before-return#"+itoa(n), retPos(ret), "New returns without having gone through the loop that reports every initial item's index (and the list is not known to be empty): the index map of a PriorityQueue built from it keeps its placeholder")
	})
}

// close-waits-on-every-path (C09-r7m3): the Close of a goroutine-backed stream (mergeStream, batchStream, parallel.mapStream)
// returns only after the goroutines that own the sources have finished - on EVERY path; a shortcut ("End was already reported,
// nobody left to wait for") returns while deferred Closes of the inputs are still pending.
func ruleCloseWaitsEveryPath(c *Ctx, r *R) {
	for _, name := range []string{"stream.mergeStream.Close", "stream.batchStream.Close", "parallel.mapStream.Close"} {
		fn := c.fn(name)
		if fn == nil {
			r.undecided(name+"|missing", token.NoPos, "anchor not found")
			continue
		}
		pkg := rootFn(fn).Pkg
		pf := &PF{N: 2, InScope: func(f *ssa.Function) bool { return rootFn(f).Pkg == pkg && f.Blocks != nil && f != fn }}
		pf.Instr = func(f *ssa.Function, in ssa.Instruction, q int) (StateSet, bool) {
			var cc *ssa.CallCommon
			switch x := in.(type) {
			case *ssa.Call:
				cc = &x.Call
			case deferredCall:
				cc = &x.Defer.Call
			}
			if cc == nil {
				return 0, false
			}
			if cal := cc.StaticCallee(); cal != nil && cal.Name() == "Wait" && cal.Pkg != nil && (cal.Pkg.Pkg.Path() == "sync" || strings.HasSuffix(cal.Pkg.Pkg.Path(), "errgroup")) {
				return ss(1), true
			}
			return 0, false
		}
		n := 0
		for _, e := range pf.Exits(fn, ss(0)) {
			n++
			r.ok(e.States == ss(1), name+"|waits#"+itoa(n), retPos(e.Ret), "a path through Close returns without waiting for the background goroutines: their deferred Close of the sources may still be pending (or not yet begun) when Close returns")
		}
		if n == 0 {
			r.undecided(name+"|returns", fn.Pos(), "no return found")
		}
	}
}

// signal-channels-fixed (C10-r7m1): the terminal state of a pipe is held in two close-only signal channels (senderDone,
// streamDone); the halves read them on every call. They are set once, by Pipe; a half that overwrites one (nil "to release
// it") can no longer observe the terminal state - after reporting End once, Next blocks for ever.
func ruleSignalChannelsFixed(c *Ctx, r *R) {
	n := 0
	for _, fn := range c.funcsOfPkg("stream") {
		name := c.nameOf(fn)
		instrs(fn, func(_ *ssa.BasicBlock, _ int, in ssa.Instruction) {
			st, ok := in.(*ssa.Store)
			if !ok {
				return
			}
			fa, ok := st.Addr.(*ssa.FieldAddr)
			if !ok || !chanElemIsEmptyStruct(derefType(fa.Type())) {
				return
			}
			base := fa.X
			for {
				inner, ok := base.(*ssa.FieldAddr)
				if !ok {
					break
				}
				base = inner.X
			}
			t := typeShort(base.Type())
			if t != "PipeSender" && t != "pipeStream" && !strings.HasPrefix(strings.ToLower(t), "pipe") {
				return
			}
			n++
			_, fresh := resolveVal(base).(*ssa.Alloc)
			r.ok(fresh, name+"|signal-store:"+fieldName(fa.X.Type(), fa.Field)+"#"+itoa(n), st.Pos(), "a terminal-signal channel of the pipe is overwritten outside its construction: the half can no longer see that the other side (or the sender itself) has finished - the reported end / error is not sticky")
		})
	}
	if n == 0 {
		r.undecided("stream.Pipe|signal-channels", token.NoPos, "no store to a signal channel of the pipe found (not even in Pipe)")
	}
}

// ctx-err-only-after-done (C10-r7m2): ctx.Err() is nil until the context's Done channel is closed. The pipe's operations may
// return it only where that is known - inside a <-ctx.Done() arm, or under an explicit test that it is non-nil. Returned from a
// wall-clock shortcut ("the deadline has passed") it can still be nil: Send then reports success for a value it never enqueued.
func ruleCtxErrOnlyAfterDone(c *Ctx, r *R) {
	n := 0
	for _, name := range []string{"stream.PipeSender.Send", "stream.PipeSender.TrySend", "stream.pipeStream.Next"} {
		fn := c.fn(name)
		if fn == nil {
			r.undecided(name+"|missing", token.NoPos, "anchor not found")
			continue
		}
		for _, di := range deepInstrs(fn, 2) {
			ret, ok := di.in.(*ssa.Return)
			if !ok || len(ret.Results) == 0 {
				continue
			}
			for _, vr := range virtualReturnsOf(ret, len(ret.Results)-1) {
				ec, ok := vr.val.(*ssa.Call)
				if !ok || !ec.Call.IsInvoke() || ec.Call.Method.Name() != "Err" || !isContextType(ec.Call.Value.Type()) {
					continue
				}
				n++
				good := isCtxErrAfterDone(ec)
				if !good {
					for _, g := range guardsOf(vr.blk) {
						if cf, ok := g.asCmp(); ok && cf.op == token.NEQ && isNilConst(cf.y) && cf.x == ssa.Value(ec) {
							good = true
						}
					}
				}
				r.ok(good, name+"|ctx-err-known-non-nil#"+itoa(n), retPos(ret), "ctx.Err() is returned outside a <-ctx.Done() arm and without a test that it is non-nil: it is nil until Done is closed (also when the deadline has just passed on the wall clock), so the operation reports success for something it did not do")
			}
		}
	}
	if n == 0 {
		r.undecided("stream.Pipe|ctx-err-returns", token.NoPos, "no return of ctx.Err() found in the pipe's operations")
	}
}

var _ = late(func() {
	properties["C05"].Rules = append(properties["C05"].Rules,
		&Rule{ID: "C05.new-notifies-all", Floor: 1, Clause: "every return of internal/heap.New is dominated by the loop that reports each initial item's index through indexChanged (or is under len(initial) == 0)", Run: ruleNewNotifiesAll})
	properties["C07"].Rules = append(properties["C07"].Rules,
		&Rule{ID: "C07.param-effects", Floor: 6, Clause: "same rule as C19.param-effects, for the xslices namesakes of the combinators (Chunk, Compact, CompactFunc, Filter, Join, Map, Reduce, Runs, Equal): they compute their result without writing through (or aliasing into) the argument slice",
			Run: subRule(ruleParamEffects, "|xslices.Chunk|", "|xslices.Compact|", "|xslices.CompactFunc|", "|xslices.Filter|", "|xslices.Join|", "|xslices.Map|", "|xslices.Reduce|", "|xslices.Runs|", "|xslices.Equal|")})
	properties["C09"].Rules = append(properties["C09"].Rules,
		&Rule{ID: "C09.close-waits-on-every-path", Floor: 3, Clause: "every path through the Close of mergeStream, batchStream and parallel.mapStream passes the wait for the background goroutines (WaitGroup.Wait / errgroup Wait)", Run: ruleCloseWaitsEveryPath})
	properties["C10"].Rules = append(properties["C10"].Rules,
		&Rule{ID: "C10.signal-channels-fixed", Floor: 2, Clause: "the close-only signal channels of the pipe's halves (senderDone, streamDone) are stored only while the halves are constructed", Run: ruleSignalChannelsFixed},
		&Rule{ID: "C10.ctx-err-only-after-done", Floor: 3, Clause: "Send, TrySend and pipeStream.Next return ctx.Err() only inside a <-ctx.Done() arm or under a test that it is non-nil", Run: ruleCtxErrOnlyAfterDone})
})
