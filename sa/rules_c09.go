package main

func init() {
	register(&Property{
		ID:    "C09",
		Title: "every stream handed to the library is closed exactly once, never used after",
		Rules: []*Rule{
			{ID: "C09.own-param", Floor: 22, Clause: "every Stream/Peekable parameter of stream, parallel, xrand has exactly one discharge form: closed-here on all paths, wrapped into the returned stream, handed to an owning function, or owned by one goroutine that defers Close (wg.Done deferred first; no goroutine of its own that no WaitGroup covers uses the stream) while the returned Close cancels then waits",
				Run: ruleOwnParams},
			{ID: "C09.close-forwards", Floor: 13, Clause: "every wrapper type's Close calls Close on each of its stream-typed fields on every path (nil guard allowed); slice fields are closed element-wise",
				Run: ruleOwnCloseForwards},
			{ID: "C09.field-discipline", Floor: 14, Clause: "in every wrapper method: a stream-typed field is closed before it is overwritten/dropped, never used after Close, never closed twice on a path, and never left closed-but-stored at return",
				Run: ruleOwnFieldDiscipline},
		},
		NotCovered: []string{"a consumer calling Close twice or concurrently with its own Next (the consumer's side of the contract)", "sources whose Next ignores context cancellation (Close then waits for them)"},
	})
}
