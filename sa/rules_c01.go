package main

import (
	"go/ast"
	"go/token"
	"go/types"
	"sort"
	"strings"

	"golang.org/x/tools/go/ssa"
)

func init() {
	register(&Property{
		ID:    "C01",
		Title: "tree.Map/Set answer every call exactly like an ideal sorted map",
		Rules: []*Rule{
			{ID: "C01.alias-only", Floor: 21, Clause: "Map and Set hold nothing but a pointer, their methods have value receivers and never assign to a receiver field: a copy denotes the same collection",
				Run: ruleTreeAlias},
			{ID: "C01.put-effect-isolation", Floor: 10, Clause: "a Put that finds its key performs exactly one heap store, into an element of a values array, and nothing else (no gen/size write); Get, Contains, First, Last, Len, searchNode, leftmostLeaf, rightmostLeaf and cursor.find store nothing and call only each other and the comparator (no data race between Puts to distinct present keys and reads of other keys)",
				Run: rulePutIsolation},
			{ID: "C01.cmp-zero-only", Floor: 10, Clause: "the result of the user's three-way compare is only ever compared with the constant 0 (any magnitude is a valid result); xsort.LessCompare has the right signs",
				Run: ruleCmpZeroOnly},
			{ID: "C01.bounds", Floor: 16, Clause: "Range/RangeReverse switch over all three bound kinds (default panics); the far-end predicate compares pair.Key with the far bound's key using <= / < (reverse: >= / >) for Included / Excluded; the near end uses the inclusive seek for Included and the strict one for Excluded; Range and RangeReverse are mirror images",
				Run: ruleTreeBounds},
			{ID: "C01.delegation", Floor: 15, Clause: "every exported Map/Set method that contains exactly one call of a btree method calls the same-named one (Add→Put, Remove→Delete) with its own parameters in order; Len reads size; Set's iterators project the key",
				Run: ruleTreeDelegation},
			{ID: "C01.kv-lockstep", Floor: 20, Clause: "in package tree every statement that writes a keys-rooted location has a twin, in the same function and branch context, that writes the values-rooted location with identical index/slice expressions and the dual operands, and vice versa (one exception: Put's overwrite); amalgam1.Key and Value are duals",
				Run: ruleKVLockstep},
			{ID: "C01.parent-links", Floor: 8, Clause: "a child placed under X gets parent X (iteration climbs through parent pointers)",
				Run: ruleTreeParentLinks},
			{ID: "C01.first-last", Floor: 4, Clause: "First/Last return zero values under root.n == 0 and otherwise the first entry of the leftmost leaf / the last entry (index n-1) of the rightmost leaf, key and value from the same slot",
				Run: ruleTreeFirstLast},
		},
		NotCovered: []string{"that search/insert/split/delete/steal/merge compute the right tree (value-level; needs a functional-correctness verifier for Go)", "distinct-but-equivalent keys, iteration contents"},
		Trusted:    []string{"the comparator is a pure strict weak order"},
	})
}

func ruleTreeAlias(c *Ctx, r *R) {
	for _, tn := range []string{"Map", "Set"} {
		obj, _ := c.Pkgs[treeRel].Types.Scope().Lookup(tn).(*types.TypeName)
		if obj == nil {
			r.undecided("tree."+tn+"|missing", token.NoPos, "type not found")
			continue
		}
		st := obj.Type().Underlying().(*types.Struct)
		good := st.NumFields() >= 1
		for i := 0; i < st.NumFields(); i++ {
			switch st.Field(i).Type().Underlying().(type) {
			case *types.Pointer, *types.Map, *types.Chan, *types.Signature:
			default:
				good = false
			}
		}
		r.ok(good, "tree."+tn+"|only-reference-fields", obj.Pos(), tn+" must hold nothing but reference-typed fields, otherwise a copy of the value does not denote the same collection (e.g. a cached length would go stale in the copy)")
		meths := c.methodsOf(treeRel, tn)
		var names []string
		for n := range meths {
			names = append(names, n)
		}
		sort.Strings(names)
		for _, n := range names {
			fn := meths[n]
			_, ptrRecv := fn.Signature.Recv().Type().(*types.Pointer)
			assigns := false
			instrs(fn, func(b *ssa.BasicBlock, i int, in ssa.Instruction) {
				if st, ok := in.(*ssa.Store); ok {
					if fa, ok := st.Addr.(*ssa.FieldAddr); ok && isNamedType(fa.X.Type(), treeRel, tn) {
						assigns = true
					}
				}
			})
			r.ok(!ptrRecv && !assigns, "tree."+tn+"."+n+"|value-receiver-no-field-write", fn.Pos(), "methods of "+tn+" must have value receivers and never assign to its fields")
		}
	}
}

func rulePutIsolation(c *Ctx, r *R) {
	put := bt(c, "Put")
	if put == nil {
		r.undecided("tree.btree.Put|missing", token.NoPos, "anchor not found")
		return
	}
	// typestate: bit0 = structural change happened, bits1-2 = count of value-slot stores (0,1,2+), bit3 = some other heap store
	tp := c.SSA[treeRel]
	pf := &PF{N: 16, InScope: func(f *ssa.Function) bool { return f.Pkg == tp && f.Name() != "searchNode" }}
	pf.Instr = func(fn *ssa.Function, in ssa.Instruction, q int) (StateSet, bool) {
		if m, _ := treeStructural(in); m {
			return ss(q | 1), true
		}
		if st, ok := in.(*ssa.Store); ok {
			if _, isLocal := st.Addr.(*ssa.Alloc); isLocal {
				return 0, false
			}
			if _, arr, ok := nodeArray(st.Addr); ok && arr == "values" {
				cnt := (q >> 1) & 3
				if cnt < 2 {
					cnt++
				}
				return ss(q&^6 | cnt<<1), true
			}
			return ss(q | 8), true // gen, size, ...
		}
		if call, ok := in.(*ssa.Call); ok {
			name := ""
			if cal := staticCallee(&call.Call); cal != nil {
				name = cal.Name()
			}
			if (name == "insertOne" || name == "removeOne") && len(call.Call.Args) > 0 {
				if _, arr, ok := nodeArray(call.Call.Args[0]); ok && arr == "values" {
					return ss(q | 8), true
				}
			}
		}
		return 0, false
	}
	k := 0
	overwrite := 0
	for _, e := range pf.Exits(put, ss(0)) {
		k++
		good := true
		isOverwrite := false
		e.States.each(func(q int) {
			if q&1 == 0 { // no structural change on this path
				isOverwrite = true
				if (q>>1)&3 != 1 || q&8 != 0 {
					good = false
				}
			}
		})
		if isOverwrite {
			overwrite++
			r.ok(good, "tree.btree.Put|overwrite-return#"+itoa(k), retPos(e.Ret), "a Put that only overwrites must perform exactly one heap store, to a values slot, and must not touch gen, size or anything else: concurrent Puts to distinct present keys and readers of other keys would race on it")
		}
	}
	if overwrite == 0 {
		r.violated("tree.btree.Put|overwrite-path", put.Pos(), "Put has no pure-overwrite path")
	}
	// read-only functions: the lookups and everything they (transitively) call inside the package
	var readOnly func(f *ssa.Function, seen map[*ssa.Function]bool) string
	readOnly = func(f *ssa.Function, seen map[*ssa.Function]bool) string {
		if seen[f] {
			return ""
		}
		seen[f] = true
		bad := ""
		instrs(f, func(b *ssa.BasicBlock, i int, in ssa.Instruction) {
			if bad != "" {
				return
			}
			switch x := in.(type) {
			case *ssa.Store:
				if _, isLocal := x.Addr.(*ssa.Alloc); !isLocal {
					bad = f.Name() + " stores to " + path(x.Addr)
				}
			case *ssa.MapUpdate, *ssa.Send, *ssa.Go:
				bad = f.Name() + " has a side effect"
			case *ssa.Call:
				if cal := staticCallee(&x.Call); cal != nil {
					if cal.Pkg == tp && cal.Blocks != nil {
						if sub := readOnly(cal, seen); sub != "" {
							bad = "calls " + cal.Name() + ": " + sub
						}
					}
				} else if _, isB := x.Call.Value.(*ssa.Builtin); !isB && !strings.HasSuffix(path(x.Call.Value), ".compare") {
					bad = f.Name() + " calls " + path(x.Call.Value)
				}
			}
		})
		return bad
	}
	for _, n := range []string{"btree.Get", "btree.Contains", "btree.First", "btree.Last", "btree.Len", "btree.searchNode", "leftmostLeaf", "rightmostLeaf", "cursor.find", "node.leaf", "node.full"} {
		f := c.fn(treeRel + "." + n)
		if f == nil {
			if n == "node.leaf" || n == "node.full" {
				continue
			}
			r.undecided(treeRel+"."+n+"|missing", token.NoPos, "anchor not found")
			continue
		}
		bad := readOnly(f, map[*ssa.Function]bool{})
		r.ok(bad == "", c.nameOf(f)+"|read-only", f.Pos(), "a lookup must not write shared memory (e.g. a memoised search position): "+bad)
	}
}

func ruleCmpZeroOnly(c *Ctx, r *R) {
	for _, fn := range c.funcsOfPkg(treeRel) {
		name := c.nameOf(fn)
		n := 0
		instrs(fn, func(b *ssa.BasicBlock, i int, in ssa.Instruction) {
			call, ok := in.(*ssa.Call)
			if !ok || call.Call.IsInvoke() {
				return
			}
			if _, isFn := call.Call.Value.(*ssa.Function); isFn {
				return
			}
			vp := path(call.Call.Value)
			if !(strings.HasSuffix(vp, ".compare") || vp == "compare") {
				return
			}
			if call.Referrers() == nil {
				return
			}
			for _, ref := range *call.Referrers() {
				switch x := ref.(type) {
				case *ssa.BinOp:
					n++
					other := x.Y
					if x.Y == ssa.Value(call) {
						other = x.X
					}
					r.ok(isConstInt(other, 0), name+"|compare-result-use#"+itoa(n), x.Pos(), "the three-way compare's result is compared with "+path(other)+": only its sign is defined (a - b is a valid compare), so it may only be compared with 0")
				case *ssa.DebugRef:
				case *ssa.Return:
					n++
					r.discharged(name+"|compare-result-use#"+itoa(n), x.Pos(), "returned unchanged")
				case *ssa.Phi:
					// c := compare(); used in several tests: follow the phi's uses
					for _, r2 := range refsOf(x) {
						if bo, ok := r2.(*ssa.BinOp); ok {
							n++
							other := bo.Y
							if bo.Y == ssa.Value(x) {
								other = bo.X
							}
							r.ok(isConstInt(other, 0), name+"|compare-result-use#"+itoa(n), bo.Pos(), "the three-way compare's result may only be compared with 0")
						}
					}
				default:
					n++
					r.violated(name+"|compare-result-use#"+itoa(n), ref.Pos(), "unexpected use of the compare result: "+ref.String())
				}
			}
		})
	}
	// LessCompare signs (shared with C19)
	sub := &R{rule: r.rule, c: c}
	ruleAbsClampAdapters(c, sub)
	for _, o := range sub.obs {
		if strings.Contains(o.Key, "LessCompare") {
			r.obs = append(r.obs, o)
		}
	}
}

func ruleTreeBounds(c *Ctx, r *R) {
	info := c.info(treeRel)
	consts := []string{"boundInclude", "boundExclude", "boundUnbounded"}
	type spec struct {
		fn        string
		nearParam string // bound positioned with a seek
		farParam  string // bound enforced by the While predicate
		seekIncl  string
		seekExcl  string
		seekUnb   string
		inclOp    token.Token
		exclOp    token.Token
		iter      string
	}
	for _, sp := range []spec{
		{"Range", "lower", "upper", "SeekFirstGreaterOrEqual", "SeekFirstGreater", "SeekFirst", token.LEQ, token.LSS, "Forward"},
		{"RangeReverse", "upper", "lower", "SeekLastLessOrEqual", "SeekLastLess", "SeekLast", token.GEQ, token.GTR, "Backward"},
	} {
		fd := c.decl(treeRel + ".btree." + sp.fn)
		if fd == nil {
			r.undecided("tree.btree."+sp.fn+"|missing", token.NoPos, "anchor not found")
			continue
		}
		nsw := 0
		ast.Inspect(fd.Body, func(n ast.Node) bool {
			sw, ok := n.(*ast.SwitchStmt)
			if !ok {
				return true
			}
			tag := render(c.Fset, sw.Tag, nil)
			nsw++
			which := ""
			if tag == sp.nearParam+".type_" {
				which = "near"
			} else if tag == sp.farParam+".type_" {
				which = "far"
			}
			key := "tree.btree." + sp.fn + "|switch:" + tag
			if which == "" {
				r.violated(key, sw.Pos(), "unexpected switch tag")
				return true
			}
			seen := map[string]bool{}
			hasDefaultPanic := false
			for _, st := range sw.Body.List {
				cc := st.(*ast.CaseClause)
				if cc.List == nil {
					for _, s := range cc.Body {
						if es, ok := s.(*ast.ExprStmt); ok {
							if call, ok := es.X.(*ast.CallExpr); ok {
								if id, ok := call.Fun.(*ast.Ident); ok && id.Name == "panic" {
									hasDefaultPanic = true
								}
							}
						}
					}
					continue
				}
				for _, e := range cc.List {
					id, ok := e.(*ast.Ident)
					if !ok {
						continue
					}
					seen[id.Name] = true
					ckey := key + "|case:" + id.Name
					body := render(c.Fset, &ast.BlockStmt{List: cc.Body}, nil)
					_ = body
					var atoms []string
					collectAtoms(c.Fset, &ast.BlockStmt{List: cc.Body}, nil, nil, &atoms)
					joined := strings.Join(atoms, " ; ")
					if which == "near" {
						want := map[string]string{"boundInclude": sp.seekIncl, "boundExclude": sp.seekExcl, "boundUnbounded": sp.seekUnb}[id.Name]
						arg := "(" + sp.nearParam + ".key)"
						if id.Name == "boundUnbounded" {
							arg = "()"
						}
						r.ok(strings.Contains(joined, "c."+want+arg) && strings.Count(joined, "Seek") == 1, ckey, cc.Pos(), "the "+sp.nearParam+" bound of kind "+id.Name+" must position the cursor with "+want+arg+" (an Excluded bound must not yield its own key, an Included one must)")
					} else {
						// far end: predicate over pair.Key vs far.key
						switch id.Name {
						case "boundUnbounded":
							r.ok(strings.Contains(joined, "return c."+sp.iter+"()") && !strings.Contains(joined, "While"), ckey, cc.Pos(), "an Unbounded "+sp.farParam+" end returns the plain "+sp.iter+" iterator")
						default:
							op := sp.inclOp
							if id.Name == "boundExclude" {
								op = sp.exclOp
							}
							want := ".Key, " + sp.farParam + ".key) " + op.String() + " 0"
							r.ok(strings.Contains(joined, want) && strings.Contains(joined, "compare(") && strings.Contains(joined, "While(c."+sp.iter+"()"), ckey, cc.Pos(), "the "+sp.farParam+" bound of kind "+id.Name+" must cut the iteration with the predicate `"+want+"`")
						}
					}
				}
			}
			for _, k := range consts {
				if !seen[k] {
					r.violated(key+"|case:"+k, sw.Pos(), "the switch over the bound kind does not handle "+k)
				}
			}
			r.ok(hasDefaultPanic, key+"|default-panics", sw.Pos(), "an unknown bound kind must panic rather than fall through")
			return true
		})
		if nsw != 2 {
			r.violated("tree.btree."+sp.fn+"|two-switches", fd.Pos(), "expected one switch per bound, found "+itoa(nsw))
		}
	}
	_ = info
	mirrorPair(c, r, "tree|Range~RangeReverse", treeRel+".btree.Range", treeRel+".btree.RangeReverse", treeSeekDuality)
	// the three bound constructors set the kind their name says
	for ctor, kind := range map[string]string{"Included": "boundInclude", "Excluded": "boundExclude", "Unbounded": "boundUnbounded"} {
		fd := c.decl(treeRel + "." + ctor)
		if fd == nil {
			r.undecided("tree."+ctor+"|missing", token.NoPos, "anchor not found")
			continue
		}
		body := render(c.Fset, fd.Body, nil)
		var atoms []string
		collectAtoms(c.Fset, fd.Body, nil, nil, &atoms)
		j := strings.Join(atoms, ";")
		okK := strings.Contains(j, "type_: "+kind)
		if ctor != "Unbounded" {
			okK = okK && strings.Contains(j, "key: key")
		}
		_ = body
		r.ok(okK, "tree."+ctor+"|kind", fd.Pos(), ctor+" must build a bound of kind "+kind+" carrying its key")
	}
	// the three kinds are distinct non-zero constants (the zero Bound is not a valid kind and panics)
	vals := map[int64]bool{}
	for _, k := range consts {
		v, ok := constOf(c, treeRel, k)
		if ok && v != 0 {
			vals[v] = true
		}
	}
	r.ok(len(vals) == 3, "tree|bound-kinds-distinct", token.NoPos, "the three bound kinds must be distinct non-zero constants")
}

func ruleTreeDelegation(c *Ctx, r *R) {
	rename := map[string]string{"Add": "Put", "Remove": "Delete"}
	for _, tn := range []string{"Map", "Set"} {
		meths := c.methodsOf(treeRel, tn)
		var names []string
		for n := range meths {
			names = append(names, n)
		}
		sort.Strings(names)
		for _, n := range names {
			fn := meths[n]
			key := "tree." + tn + "." + n
			var calls []*ssa.Call
			instrs(fn, func(b *ssa.BasicBlock, i int, in ssa.Instruction) {
				if call, ok := in.(*ssa.Call); ok {
					if cal := staticCallee(&call.Call); cal != nil && cal.Signature.Recv() != nil && isNamedType(cal.Signature.Recv().Type(), treeRel, "btree") {
						calls = append(calls, call)
					}
				}
			})
			if n == "Len" {
				good := false
				instrs(fn, func(b *ssa.BasicBlock, i int, in ssa.Instruction) {
					if ret, ok := in.(*ssa.Return); ok && strings.HasSuffix(path(ret.Results[0]), ".t.size") {
						good = true
					}
				})
				r.ok(good, key, fn.Pos(), "Len must report the tree's size")
				continue
			}
			if n == "Iterate" {
				// delegates to its own Range with two Unbounded bounds
				good := false
				instrs(fn, func(b *ssa.BasicBlock, i int, in ssa.Instruction) {
					if call, ok := in.(*ssa.Call); ok {
						if cal := staticCallee(&call.Call); cal != nil && cal.Name() == "Range" && len(call.Call.Args) == 3 {
							u := 0
							for _, a := range call.Call.Args[1:] {
								if ac, ok := a.(*ssa.Call); ok {
									if f := staticCallee(&ac.Call); f != nil && f.Name() == "Unbounded" {
										u++
									}
								}
							}
							good = u == 2
						}
					}
				})
				r.ok(good, key, fn.Pos(), "Iterate must be Range(Unbounded, Unbounded)")
				continue
			}
			if len(calls) != 1 {
				r.discharged(key+"|not-a-pure-delegate", fn.Pos(), "body is not a single delegation ("+itoa(len(calls))+" btree calls); not covered by this rule")
				continue
			}
			call := calls[0]
			cal := staticCallee(&call.Call)
			want := n
			if m, ok := rename[n]; ok {
				want = m
			}
			good := cal.Name() == want
			why := "calls btree." + cal.Name() + " instead of btree." + want
			// the wrapper's parameters, in order, as a prefix of the callee's arguments
			ps := fn.Params[1:]
			args := call.Call.Args[1:]
			if len(ps) > len(args) {
				good = false
				why = "too few arguments"
			} else {
				for i, p := range ps {
					if args[i] != ssa.Value(p) {
						good = false
						why = "argument " + itoa(i) + " is " + path(args[i]) + ", not parameter " + p.Name()
					}
				}
			}
			r.ok(good, key, fn.Pos(), "wrapper must forward to the same-named tree operation with its parameters in order: "+why)
		}
	}
	// Set's Range/RangeReverse project the key
	for _, n := range []string{"Set.Range$1", "Set.RangeReverse$1"} {
		f := c.fn(treeRel + "." + n)
		if f == nil {
			r.undecided("tree."+n+"|missing", token.NoPos, "anchor not found")
			continue
		}
		good := false
		instrs(f, func(b *ssa.BasicBlock, i int, in ssa.Instruction) {
			if ret, ok := in.(*ssa.Return); ok && path(ret.Results[0]) == f.Params[0].Name()+".Key" {
				good = true
			}
		})
		r.ok(good, "tree."+n+"|projects-key", f.Pos(), "a Set iterator must yield the pair's Key")
	}
}

var kvDuality = newDuality(false, "keys", "values", "key", "value", "k", "v")

func isKVWrite(fset *token.FileSet, atom string) (side string) {
	// atom is "ctx ⊢ stmt"; look only at the statement's written location
	parts := strings.SplitN(atom, " ⊢ ", 2)
	if len(parts) != 2 {
		return ""
	}
	st := parts[1]
	target := ""
	if i := strings.Index(st, " = "); i > 0 && !strings.HasPrefix(st, "if ") && !strings.HasPrefix(st, "for ") && !strings.HasPrefix(st, "return") {
		target = st[:i]
	} else {
		for _, fnc := range []string{"insertOne(", "removeOne(", "copy(", "xslices.Clear("} {
			if strings.HasPrefix(st, fnc) {
				rest := st[len(fnc):]
				if j := strings.IndexAny(rest, ",)"); j > 0 {
					target = rest[:j]
				}
			}
		}
	}
	if target == "" {
		return ""
	}
	switch {
	case strings.Contains(target, ".keys"):
		return "keys"
	case strings.Contains(target, ".values"):
		return "values"
	}
	return ""
}

func ruleKVLockstep(c *Ctx, r *R) {
	p := c.Pkgs[treeRel]
	var decls []*ast.FuncDecl
	for _, f := range p.Syntax {
		for _, d := range f.Decls {
			if fd, ok := d.(*ast.FuncDecl); ok && fd.Body != nil {
				decls = append(decls, fd)
			}
		}
	}
	sort.Slice(decls, func(i, j int) bool { return decls[i].Pos() < decls[j].Pos() })
	for _, fd := range decls {
		name := fd.Name.Name
		if fd.Recv != nil {
			name = recvTypeName(fd.Recv.List[0].Type) + "." + name
		}
		var plain, dual []string
		collectAtomsSplit(c.Fset, fd.Body, nil, nil, &plain)
		collectAtomsSplit(c.Fset, fd.Body, kvDuality, nil, &dual)
		var kPlain, vPlain, kDual []string
		for i, a := range plain {
			switch isKVWrite(c.Fset, a) {
			case "keys":
				kPlain = append(kPlain, a)
				kDual = append(kDual, dual[i])
			case "values":
				vPlain = append(vPlain, a)
			}
		}
		if len(kPlain) == 0 && len(vPlain) == 0 {
			continue
		}
		// exception: Put's overwrite branch writes the value only
		if name == "btree.Put" {
			var vv []string
			for _, a := range vPlain {
				if strings.Contains(a, "inNode ⊢ curr.values[idx] = v") {
					r.excepted("tree."+name+"|overwrite-value-only", fd.Pos(), "Put's overwrite branch stores the new value under the existing key (decided by C01.put-effect-isolation)")
					continue
				}
				vv = append(vv, a)
			}
			vPlain = vv
		}
		oa, ob := multisetDiff(kDual, vPlain)
		for i := range kPlain {
			_ = i
		}
		if len(oa) == 0 && len(ob) == 0 {
			r.add("tree."+name+"|kv-lockstep", fd.Pos(), Discharged, itoa(len(kPlain))+" key writes each have their value twin")
			for i := 1; i < len(kPlain); i++ {
				r.add("tree."+name+"|kv-lockstep#"+itoa(i+1), fd.Pos(), Discharged, kPlain[i])
			}
			continue
		}
		r.violated("tree."+name+"|kv-lockstep", fd.Pos(), "keys and values are not moved in lockstep: key writes without a value twin (shown as the twin expected): ["+strings.Join(oa, " | ")+"]; value writes without a key twin: ["+strings.Join(ob, " | ")+"] - an entry's value would be paired with another key while every structural check still passes")
	}
	d2 := newDuality(false, "keys", "values", "key", "value")
	mirrorPair(c, r, "tree|amalgam1.Key~Value", treeRel+".amalgam1.Key", treeRel+".amalgam1.Value", d2)
}

// collectAtomsSplit is collectAtoms with parallel assignments split into one atom per pair.
func collectAtomsSplit(fset *token.FileSet, n ast.Node, d *duality, ctx []string, out *[]string) {
	var raw []string
	collectAtomsWith(fset, n, d, ctx, &raw, true)
	*out = append(*out, raw...)
}

func collectAtomsWith(fset *token.FileSet, n ast.Node, d *duality, ctx []string, out *[]string, split bool) {
	emit := func(s string) { *out = append(*out, strings.Join(ctx, " & ")+" ⊢ "+s) }
	switch x := n.(type) {
	case nil:
	case *ast.BlockStmt:
		for _, s := range x.List {
			collectAtomsWith(fset, s, d, ctx, out, split)
		}
	case *ast.IfStmt:
		if x.Init != nil {
			collectAtomsWith(fset, x.Init, d, ctx, out, split)
		}
		cond := render(fset, x.Cond, d)
		emit("if " + cond)
		collectAtomsWith(fset, x.Body, d, append(append([]string{}, ctx...), cond), out, split)
		if x.Else != nil {
			collectAtomsWith(fset, x.Else, d, append(append([]string{}, ctx...), "!("+cond+")"), out, split)
		}
	case *ast.ForStmt:
		cnd := "for " + render(fset, x.Cond, d)
		emit(cnd)
		if x.Init != nil {
			collectAtomsWith(fset, x.Init, d, ctx, out, split)
		}
		if x.Post != nil {
			collectAtomsWith(fset, x.Post, d, append(append([]string{}, ctx...), cnd), out, split)
		}
		collectAtomsWith(fset, x.Body, d, append(append([]string{}, ctx...), cnd), out, split)
	case *ast.AssignStmt:
		if split && len(x.Lhs) == len(x.Rhs) && len(x.Lhs) > 1 {
			for i := range x.Lhs {
				emit(render(fset, x.Lhs[i], d) + " = " + render(fset, x.Rhs[i], d))
			}
			return
		}
		emit(render(fset, x, d))
	default:
		var tmp []string
		collectAtoms(fset, n, d, ctx, &tmp)
		*out = append(*out, tmp...)
	}
}

func ruleTreeFirstLast(c *Ctx, r *R) {
	for _, sp := range [][3]string{{"First", "leftmostLeaf", "0"}, {"Last", "rightmostLeaf", "n-1"}} {
		fn := bt(c, sp[0])
		if fn == nil {
			r.undecided("tree.btree."+sp[0]+"|missing", token.NoPos, "anchor not found")
			continue
		}
		zeroOK, entryOK := false, false
		instrs(fn, func(b *ssa.BasicBlock, i int, in ssa.Instruction) {
			ret, ok := in.(*ssa.Return)
			if !ok || len(ret.Results) != 2 {
				return
			}
			empty := false
			for _, g := range append(guardsOf(b), guardsOfSelf(b)...) {
				if cf, ok := g.asCmp(); ok && cf.op == token.EQL && isConstInt(cf.y, 0) && strings.HasSuffix(path(cf.x), "root.n") {
					empty = true
				}
			}
			if empty {
				zeroOK = isZeroValue(ret.Results[0]) && isZeroValue(ret.Results[1])
				return
			}
			kp, vp := path(ret.Results[0]), path(ret.Results[1])
			// same leaf, same index, keys vs values
			if strings.Contains(kp, sp[1]) && strings.Replace(kp, ".keys[", ".values[", 1) == vp {
				if sp[2] == "0" {
					entryOK = strings.HasSuffix(kp, ".keys[0]")
				} else {
					entryOK = strings.Contains(kp, ".n-1)]") || strings.Contains(kp, ".n)-1)]") || strings.HasSuffix(kp, "-1)]")
				}
			}
		})
		r.ok(zeroOK, "tree.btree."+sp[0]+"|zero-when-empty", fn.Pos(), sp[0]+" on an empty tree must return zero values")
		r.ok(entryOK, "tree.btree."+sp[0]+"|extreme-entry", fn.Pos(), sp[0]+" must return key and value from the same slot ("+sp[2]+") of the "+sp[1])
	}
}
