package main

import (
	"go/ast"
	"go/token"
	"go/types"
	"sort"
	"strings"

	"golang.org/x/tools/go/ssa"
)

func init() {
	register(&Property{
		ID:    "C01",
		Title: "tree.Map/Set answer every call exactly like an ideal sorted map",
		Rules: []*Rule{
			{ID: "C01.alias-only", Floor: 21, Clause: "Map and Set hold nothing but a pointer, their methods have value receivers and never assign to a receiver field: a copy denotes the same collection",
				Run: ruleTreeAlias},
			{ID: "C01.put-effect-isolation", Floor: 10, Clause: "a Put that finds its key performs exactly one heap store, into an element of a values array, and nothing else (no gen/size write); Get, Contains, First, Last, Len, searchNode, leftmostLeaf, rightmostLeaf and cursor.find store nothing and call only each other and the comparator (no data race between Puts to distinct present keys and reads of other keys)",
				Run: rulePutIsolation},
			{ID: "C01.cmp-zero-only", Floor: 10, Clause: "the result of the user's three-way compare is only ever compared with the constant 0 (any magnitude is a valid result); xsort.LessCompare has the right signs",
				Run: ruleCmpZeroOnly},
			{ID: "C01.bounds", Floor: 20, Clause: "Range/RangeReverse switch over all three bound kinds (default panics); the far-end predicate compares pair.Key with the far bound's key using <= / < (reverse: >= / >) for Included / Excluded; the near end uses the inclusive seek for Included and the strict one for Excluded; Range and RangeReverse are mirror images",
				Run: ruleTreeBounds},
			{ID: "C01.delegation", Floor: 15, Clause: "every exported Map/Set method that contains exactly one call of a btree method calls the same-named one (Add→Put, Remove→Delete) with its own parameters in order; Len reads size; Set's iterators project the key",
				Run: ruleTreeDelegation},
			{ID: "C01.kv-lockstep", Floor: 20, Clause: "in package tree every statement that writes a keys-rooted location has a twin, in the same function and branch context, that writes the values-rooted location with identical index/slice expressions and the dual operands, and vice versa (one exception: Put's overwrite); amalgam1.Key and Value are duals",
				Run: ruleKVLockstep},
			{ID: "C01.parent-links", Floor: 8, Clause: "a child placed under X gets parent X (iteration climbs through parent pointers)",
				Run: ruleTreeParentLinks},
			{ID: "C01.first-last", Floor: 4, Clause: "First/Last return zero values under root.n == 0 and otherwise the first entry of the leftmost leaf / the last entry (index n-1) of the rightmost leaf, key and value from the same slot",
				Run: ruleTreeFirstLast},
		},
		NotCovered: []string{"that search/insert/split/delete/steal/merge compute the right tree (value-level; needs a functional-correctness verifier for Go)", "distinct-but-equivalent keys, iteration contents"},
		Trusted:    []string{"the comparator is a pure strict weak order"},
	})
}

func ruleTreeAlias(c *Ctx, r *R) {
	for _, tn := range []string{"Map", "Set"} {
		obj, _ := c.Pkgs[treeRel].Types.Scope().Lookup(tn).(*types.TypeName)
		if obj == nil {
			r.undecided("tree."+tn+"|missing", token.NoPos, "type not found")
			continue
		}
		st := obj.Type().Underlying().(*types.Struct)
		// a field that is itself a struct of reference-typed fields only (Set holding a Map by value) is as good as those
		var refOnly func(t types.Type, d int) bool
		refOnly = func(t types.Type, d int) bool {
			switch u := t.Underlying().(type) {
			case *types.Pointer, *types.Map, *types.Chan, *types.Signature:
				return true
			case *types.Struct:
				if d > 3 || u.NumFields() == 0 {
					return false
				}
				for i := 0; i < u.NumFields(); i++ {
					if !refOnly(u.Field(i).Type(), d+1) {
						return false
					}
				}
				return true
			}
			return false
		}
		good := st.NumFields() >= 1
		for i := 0; i < st.NumFields(); i++ {
			if !refOnly(st.Field(i).Type(), 0) {
				good = false
			}
		}
		r.ok(good, "tree."+tn+"|only-reference-fields", obj.Pos(), tn+" must hold nothing but reference-typed fields, otherwise a copy of the value does not denote the same collection (e.g. a cached length would go stale in the copy)")
		meths := c.methodsOf(treeRel, tn)
		var names []string
		for n := range meths {
			names = append(names, n)
		}
		sort.Strings(names)
		for _, n := range names {
			fn := meths[n]
			_, ptrRecv := fn.Signature.Recv().Type().(*types.Pointer)
			assigns := false
			instrs(fn, func(b *ssa.BasicBlock, i int, in ssa.Instruction) {
				if st, ok := in.(*ssa.Store); ok {
					if fa, ok := st.Addr.(*ssa.FieldAddr); ok && isNamedType(fa.X.Type(), treeRel, tn) {
						assigns = true
					}
				}
			})
			r.ok(!ptrRecv && !assigns, "tree."+tn+"."+n+"|value-receiver-no-field-write", fn.Pos(), "methods of "+tn+" must have value receivers and never assign to its fields")
		}
	}
}

func rulePutIsolation(c *Ctx, r *R) {
	put := bt(c, "Put")
	if put == nil {
		r.undecided("tree.btree.Put|missing", token.NoPos, "anchor not found")
		return
	}
	// typestate: bit0 = structural change happened, bits1-2 = count of value-slot stores (0,1,2+), bit3 = some other heap store
	tp := c.SSA[treeRel]
	pf := &PF{N: 16, InScope: func(f *ssa.Function) bool { return f.Pkg == tp && f.Name() != "searchNode" }}
	pf.Instr = func(fn *ssa.Function, in ssa.Instruction, q int) (StateSet, bool) {
		if m, _ := treeStructural(in); m {
			return ss(q | 1), true
		}
		if st, ok := in.(*ssa.Store); ok {
			if _, isLocal := st.Addr.(*ssa.Alloc); isLocal {
				return 0, false
			}
			if _, arr, ok := nodeArray(st.Addr); ok && arr == "values" {
				cnt := (q >> 1) & 3
				if cnt < 2 {
					cnt++
				}
				return ss(q&^6 | cnt<<1), true
			}
			return ss(q | 8), true // gen, size, ...
		}
		if call, ok := in.(*ssa.Call); ok {
			name := ""
			if cal := staticCallee(&call.Call); cal != nil {
				name = fname(cal)
			}
			if (name == "insertOne" || name == "removeOne") && len(call.Call.Args) > 0 {
				if _, arr, ok := nodeArray(call.Call.Args[0]); ok && arr == "values" {
					return ss(q | 8), true
				}
			}
		}
		return 0, false
	}
	k := 0
	overwrite := 0
	for _, e := range pf.Exits(put, ss(0)) {
		k++
		good := true
		isOverwrite := false
		e.States.each(func(q int) {
			if q&1 == 0 { // no structural change on this path
				isOverwrite = true
				if (q>>1)&3 != 1 || q&8 != 0 {
					good = false
				}
			}
		})
		if isOverwrite {
			overwrite++
			r.ok(good, "tree.btree.Put|overwrite-return#"+itoa(k), retPos(e.Ret), "a Put that only overwrites must perform exactly one heap store, to a values slot, and must not touch gen, size or anything else: concurrent Puts to distinct present keys and readers of other keys would race on it")
		}
	}
	if overwrite == 0 {
		r.violated("tree.btree.Put|overwrite-path", put.Pos(), "Put has no pure-overwrite path")
	}
	// read-only functions: the lookups and everything they (transitively) call inside the package
	var readOnly func(f *ssa.Function, seen map[*ssa.Function]bool) string
	readOnly = func(f *ssa.Function, seen map[*ssa.Function]bool) string {
		if seen[f] {
			return ""
		}
		seen[f] = true
		bad := ""
		instrs(f, func(b *ssa.BasicBlock, i int, in ssa.Instruction) {
			if bad != "" {
				return
			}
			switch x := in.(type) {
			case *ssa.Store:
				// a local variable, or a field / array element of one (a result struct being filled in): fresh memory
				addr := x.Addr
				for {
					if fa, ok := addr.(*ssa.FieldAddr); ok {
						addr = fa.X
						continue
					}
					if ia, ok := addr.(*ssa.IndexAddr); ok {
						if _, isArr := ia.X.Type().Underlying().(*types.Pointer); isArr {
							addr = ia.X
							continue
						}
					}
					break
				}
				if _, isLocal := addr.(*ssa.Alloc); !isLocal {
					bad = f.Name() + " stores to " + path(x.Addr)
				}
			case *ssa.MapUpdate, *ssa.Send, *ssa.Go:
				bad = f.Name() + " has a side effect"
			case *ssa.Call:
				if cal := staticCallee(&x.Call); cal != nil {
					if cal.Pkg == tp && cal.Blocks != nil {
						if sub := readOnly(cal, seen); sub != "" {
							bad = "calls " + fname(cal) + ": " + sub
						}
					}
				} else if _, isB := x.Call.Value.(*ssa.Builtin); !isB && !isComparatorValue(x.Call.Value) {
					bad = f.Name() + " calls " + path(x.Call.Value)
				}
			}
		})
		return bad
	}
	for _, n := range []string{"btree.Get", "btree.Contains", "btree.First", "btree.Last", "btree.Len", "btree.searchNode", "leftmostLeaf", "rightmostLeaf", "cursor.find", "node.leaf", "node.full"} {
		f := c.fn(treeRel + "." + n)
		if f == nil {
			if n == "node.leaf" || n == "node.full" {
				continue
			}
			r.undecided(treeRel+"."+n+"|missing", token.NoPos, "anchor not found")
			continue
		}
		bad := readOnly(f, map[*ssa.Function]bool{})
		r.ok(bad == "", c.nameOf(f)+"|read-only", f.Pos(), "a lookup must not write shared memory (e.g. a memoised search position): "+bad)
	}
}

func ruleCmpZeroOnly(c *Ctx, r *R) {
	for _, fn := range c.funcsOfPkg(treeRel) {
		name := c.nameOf(fn)
		n := 0
		instrs(fn, func(b *ssa.BasicBlock, i int, in ssa.Instruction) {
			call, ok := in.(*ssa.Call)
			if !ok || call.Call.IsInvoke() {
				return
			}
			if _, isFn := call.Call.Value.(*ssa.Function); isFn {
				return
			}
			vp := path(call.Call.Value)
			if !(strings.HasSuffix(vp, ".compare") || vp == "compare") {
				return
			}
			if call.Referrers() == nil {
				return
			}
			for _, ref := range *call.Referrers() {
				switch x := ref.(type) {
				case *ssa.BinOp:
					n++
					other := x.Y
					if x.Y == ssa.Value(call) {
						other = x.X
					}
					r.ok(isConstInt(other, 0), name+"|compare-result-use#"+itoa(n), x.Pos(), "the three-way compare's result is compared with "+path(other)+": only its sign is defined (a - b is a valid compare), so it may only be compared with 0")
				case *ssa.DebugRef:
				case *ssa.Return:
					n++
					r.discharged(name+"|compare-result-use#"+itoa(n), x.Pos(), "returned unchanged")
				case *ssa.Phi:
					// c := compare(); used in several tests: follow the phi's uses
					for _, r2 := range refsOf(x) {
						if bo, ok := r2.(*ssa.BinOp); ok {
							n++
							other := bo.Y
							if bo.Y == ssa.Value(x) {
								other = bo.X
							}
							r.ok(isConstInt(other, 0), name+"|compare-result-use#"+itoa(n), bo.Pos(), "the three-way compare's result may only be compared with 0")
						}
					}
				default:
					n++
					r.violated(name+"|compare-result-use#"+itoa(n), ref.Pos(), "unexpected use of the compare result: "+ref.String())
				}
			}
		})
	}
	// LessCompare signs (shared with C19)
	sub := &R{rule: r.rule, c: c}
	ruleAbsClampAdapters(c, sub)
	for _, o := range sub.obs {
		if strings.Contains(o.Key, "LessCompare") {
			r.obs = append(r.obs, o)
		}
	}
}

func ruleTreeBounds(c *Ctx, r *R) {
	var unbindSeeks func()
	defer func() {
		if unbindSeeks != nil {
			unbindSeeks()
		}
	}()
	consts := []string{"boundInclude", "boundExclude", "boundUnbounded"}
	kindVal := map[string]int64{}
	for _, k := range consts {
		if v, ok := constOf(c, treeRel, k); ok {
			kindVal[k] = v
		}
	}
	type spec struct {
		fn       string
		near     int // parameter index of the bound positioned with a seek
		far      int // parameter index of the bound enforced by the While predicate
		seekIncl string
		seekExcl string
		seekUnb  string
		inclOp   token.Token
		exclOp   token.Token
		iter     string
	}
	for _, sp := range []spec{
		{"Range", 1, 2, "SeekFirstGreaterOrEqual", "SeekFirstGreater", "SeekFirst", token.LEQ, token.LSS, "Forward"},
		{"RangeReverse", 2, 1, "SeekLastLessOrEqual", "SeekLastLess", "SeekLast", token.GEQ, token.GTR, "Backward"},
	} {
		fn := c.fn(treeRel + ".btree." + sp.fn)
		if fn == nil || len(fn.Params) < 3 {
			r.undecided("tree.btree."+sp.fn+"|missing", token.NoPos, "anchor not found")
			continue
		}
		nearP, farP := fn.Params[sp.near], fn.Params[sp.far]
		base := "tree.btree." + sp.fn
		// a helper that is handed the seek methods as method values (seekBound(lower, c.SeekFirstGreaterOrEqual, ...)): its
		// func-typed parameters stand for those methods while this function is analysed
		if unbindSeeks != nil {
			unbindSeeks()
		}
		unbindSeeks = bindFuncParams(fn)
		di := deepInstrs(fn, 3)
		// kindsAt: which kind tests on which bound parameter hold (eq) / are excluded (neq) at this instruction?
		type kf struct {
			param *ssa.Parameter
			kind  int64
			eq    bool
		}
		kindsAt := func(d deepInstr) []kf {
			var out []kf
			add := func(blk *ssa.BasicBlock, chain []*ssa.Call) {
				for _, g := range guardsOf(blk) {
					cf, ok := g.asCmp()
					if !ok || (cf.op != token.EQL && cf.op != token.NEQ) {
						continue
					}
					x, y := cf.x, cf.y
					if _, isK := x.(*ssa.Const); isK {
						x, y = y, x
					}
					k, ok := y.(*ssa.Const)
					if !ok || k.Value == nil || !isIntegerish(k.Type()) {
						continue
					}
					pv := valueProv(x, provEnv{chain: chain})
					pp, ok := pv.root.(*ssa.Parameter)
					if !ok || len(pv.fields) != 1 || pv.fields[0] != "type_" {
						continue
					}
					out = append(out, kf{pp, k.Int64(), cf.op == token.EQL})
				}
			}
			add(d.in.Block(), d.calls)
			// facts that hold at the call sites along the chain
			for i := len(d.calls) - 1; i >= 0; i-- {
				add(d.calls[i].Block(), d.calls[:i])
			}
			return out
		}
		kindOf := func(d deepInstr, p *ssa.Parameter) (int64, bool) {
			for _, f := range kindsAt(d) {
				if f.param == p && f.eq {
					return f.kind, true
				}
			}
			return 0, false
		}
		// near end: one seek per kind
		seeks := map[int64][]deepInstr{}
		whiles := map[int64][]deepInstr{}
		plainIter := map[int64]bool{}
		panics := map[*ssa.Parameter]bool{}
		isSeek := func(cal *ssa.Function) bool {
			return cal != nil && cal.Signature.Recv() != nil && isNamedType(cal.Signature.Recv().Type(), treeRel, "cursor") && strings.HasPrefix(fname(cal), "Seek")
		}
		for _, d := range di {
			inner := false
			for _, cc := range d.calls {
				if isSeek(staticCallee(&cc.Call)) {
					inner = true // inside a seek method itself
				}
			}
			if inner {
				continue
			}
			switch x := d.in.(type) {
			case *ssa.Call:
				cal := staticCallee(&x.Call)
				if cal == nil {
					continue
				}
				if cal.Signature.Recv() != nil && isNamedType(cal.Signature.Recv().Type(), treeRel, "cursor") && strings.HasPrefix(fname(cal), "Seek") {
					if k, ok := kindOf(d, nearP); ok {
						seeks[k] = append(seeks[k], d)
					} else {
						r.violated(base+"|seek-outside-kind-test:"+fname(cal), x.Pos(), "a cursor seek in "+sp.fn+" that is not selected by the kind of its "+nearP.Name()+" bound")
					}
				}
				if fname(cal) == "While" && cal.Pkg != nil && strings.HasSuffix(cal.Pkg.Pkg.Path(), "/iterator") || (cal.Pkg == nil && strings.HasPrefix(fname(cal), "While")) {
					if k, ok := kindOf(d, farP); ok {
						whiles[k] = append(whiles[k], d)
					} else {
						r.violated(base+"|while-outside-kind-test", x.Pos(), "an iterator.While in "+sp.fn+" that is not selected by the kind of its "+farP.Name()+" bound")
					}
				}
			case *ssa.Return:
				if len(x.Results) == 1 && len(d.calls) == 0 || (len(x.Results) == 1) {
					// (the iterator may have been handed to a helper as a parameter: t.stopAbove(c.Forward(), upper))
					all := false
					if isDirIterator(c, resolveVal(argOf(resolveVal(returnedValue(x, 0)), d.calls)), sp.iter) {
						all = true
					}
					if all {
						if k, ok := kindOf(d, farP); ok {
							plainIter[k] = true
							if k != kindVal["boundUnbounded"] {
								r.violated(base+"|plain-iterator-under-bound", x.Pos(), "the plain "+sp.iter+" iterator is returned although the "+farP.Name()+" bound is not Unbounded: nothing stops it at the bound (keys put beyond the bound while iterating are yielded)")
							}
						} else {
							r.violated(base+"|plain-iterator-outside-kind-test", x.Pos(), "the plain "+sp.iter+" iterator is returned on a path that is not selected by the Unbounded kind of the "+farP.Name()+" bound: a shortcut decided from the tree's contents at creation time does not hold for keys put later, which the iterator must still stop at")
						}
					}
				}
			case *ssa.Panic:
				for _, p := range []*ssa.Parameter{nearP, farP} {
					neq := map[int64]bool{}
					for _, f := range kindsAt(d) {
						if f.param == p && !f.eq {
							neq[f.kind] = true
						}
					}
					if len(neq) >= 3 {
						panics[p] = true
					}
				}
			}
		}
		for _, kn := range consts {
			kv := kindVal[kn]
			ckey := base + "|near:" + kn
			want := map[string]string{"boundInclude": sp.seekIncl, "boundExclude": sp.seekExcl, "boundUnbounded": sp.seekUnb}[kn]
			ss := seeks[kv]
			if len(ss) != 1 {
				r.violated(ckey, fn.Pos(), "the "+nearP.Name()+" bound of kind "+kn+" must position the cursor with exactly one seek ("+want+"), found "+itoa(len(ss)))
				continue
			}
			call := ss[0].in.(*ssa.Call)
			cal := staticCallee(&call.Call)
			good := fname(cal) == want
			why := "calls " + fname(cal)
			if good && kn != "boundUnbounded" {
				wantArgs := 2
				if _, direct := call.Call.Value.(*ssa.Function); !direct {
					wantArgs = 1 // called through a method value: the receiver is bound
				}
				if len(call.Call.Args) != wantArgs {
					good, why = false, "wrong arity"
				} else if pv := valueProv(call.Call.Args[wantArgs-1], provEnv{chain: ss[0].calls}); !pv.isParamField(nearP, "key") {
					good, why = false, "seeks to "+pv.String()+" instead of "+nearP.Name()+".key"
				}
			}
			r.ok(good, ckey, call.Pos(), "the "+nearP.Name()+" bound of kind "+kn+" must position the cursor with "+want+"("+nearP.Name()+".key) (an Excluded bound must not yield its own key, an Included one must): "+why)
		}
		for _, kn := range consts {
			kv := kindVal[kn]
			ckey := base + "|far:" + kn
			if kn == "boundUnbounded" {
				r.ok(plainIter[kv] && len(whiles[kv]) == 0, ckey, fn.Pos(), "an Unbounded "+farP.Name()+" end returns the plain "+sp.iter+" iterator")
				continue
			}
			ws := whiles[kv]
			if len(ws) != 1 {
				r.violated(ckey, fn.Pos(), "the "+farP.Name()+" bound of kind "+kn+" must cut the iteration with exactly one iterator.While, found "+itoa(len(ws)))
				continue
			}
			call := ws[0].in.(*ssa.Call)
			op := sp.inclOp
			if kn == "boundExclude" {
				op = sp.exclOp
			}
			why := ""
			// first argument: the cursor's iterator in the right direction
			if !isDirIterator(c, resolveVal(argOf(resolveVal(call.Call.Args[0]), ws[0].calls)), sp.iter) {
				why = "the iterated sequence is not c." + sp.iter + "()"
			}
			pred, recv := funcAndReceiver(call.Call.Args[1])
			if pred == nil {
				why = "cannot resolve the predicate"
			} else if why == "" {
				why = boundPredicate(pred, recv, ws[0].calls, farP, op)
			}
			r.ok(why == "", ckey, call.Pos(), "the "+farP.Name()+" bound of kind "+kn+" must cut the iteration with the predicate compare(pair.Key, "+farP.Name()+".key) "+op.String()+" 0: "+why)
		}
		r.ok(panics[nearP], base+"|near:default-panics", fn.Pos(), "an unknown kind of the "+nearP.Name()+" bound must panic rather than fall through")
		r.ok(panics[farP], base+"|far:default-panics", fn.Pos(), "an unknown kind of the "+farP.Name()+" bound must panic rather than fall through")
	}
	// the three bound constructors set the kind their name says
	for ctor, kind := range map[string]string{"Included": "boundInclude", "Excluded": "boundExclude", "Unbounded": "boundUnbounded"} {
		fd := c.decl(treeRel + "." + ctor)
		if fd == nil {
			r.undecided("tree."+ctor+"|missing", token.NoPos, "anchor not found")
			continue
		}
		body := render(c.Fset, fd.Body, nil)
		var atoms []string
		collectAtoms(c.Fset, fd.Body, nil, nil, &atoms)
		j := strings.Join(atoms, ";")
		okK := strings.Contains(j, "type_: "+kind)
		if ctor != "Unbounded" {
			okK = okK && strings.Contains(j, "key: key")
		}
		_ = body
		r.ok(okK, "tree."+ctor+"|kind", fd.Pos(), ctor+" must build a bound of kind "+kind+" carrying its key")
	}
	// the three kinds are distinct non-zero constants (the zero Bound is not a valid kind and panics)
	vals := map[int64]bool{}
	for _, k := range consts {
		v, ok := constOf(c, treeRel, k)
		if ok && v != 0 {
			vals[v] = true
		}
	}
	r.ok(len(vals) == 3, "tree|bound-kinds-distinct", token.NoPos, "the three bound kinds must be distinct non-zero constants")
}

func ruleTreeDelegation(c *Ctx, r *R) {
	rename := map[string]string{"Add": "Put", "Remove": "Delete"}
	for _, tn := range []string{"Map", "Set"} {
		meths := c.methodsOf(treeRel, tn)
		var names []string
		for n := range meths {
			names = append(names, n)
		}
		sort.Strings(names)
		for _, n := range names {
			fn := meths[n]
			key := "tree." + tn + "." + n
			var calls []*ssa.Call
			instrs(fn, func(b *ssa.BasicBlock, i int, in ssa.Instruction) {
				if call, ok := in.(*ssa.Call); ok {
					if cal := staticCallee(&call.Call); cal != nil && cal.Signature.Recv() != nil && isNamedType(cal.Signature.Recv().Type(), treeRel, "btree") {
						calls = append(calls, call)
					}
				}
			})
			if n == "Len" {
				good := returnsField(fn, "size")
				r.ok(good, key, fn.Pos(), "Len must report the tree's size")
				continue
			}
			if n == "Iterate" {
				// delegates to its own Range with two Unbounded bounds
				good := false
				instrs(fn, func(b *ssa.BasicBlock, i int, in ssa.Instruction) {
					if call, ok := in.(*ssa.Call); ok {
						if cal := staticCallee(&call.Call); cal != nil && fname(cal) == "Range" && len(call.Call.Args) == 3 {
							u := 0
							for _, a := range call.Call.Args[1:] {
								if ac, ok := a.(*ssa.Call); ok {
									if f := staticCallee(&ac.Call); f != nil && f.Name() == "Unbounded" {
										u++
									}
								}
							}
							good = u == 2
						}
					}
				})
				if !good {
					// ... or what that amounts to, spelled out: a cursor positioned with SeekFirst and handed out as the plain
					// Forward iterator (no bound predicate, no other seek)
					first, fwd, other := 0, 0, 0
					for _, d := range deepInstrs(fn, 2) {
						call, ok := d.in.(*ssa.Call)
						if !ok {
							continue
						}
						cal := staticCallee(&call.Call)
						if cal == nil {
							continue
						}
						isCur := cal.Signature.Recv() != nil && isNamedTypeDeep(cal.Signature.Recv().Type(), treeRel, "cursor")
						switch {
						case isCur && fname(cal) == "SeekFirst":
							first++
						case isCur && fname(cal) == "Forward":
							fwd++
						case isCur && strings.HasPrefix(fname(cal), "Seek"), fname(cal) == "Backward", strings.HasPrefix(fname(cal), "While"):
							other++
						}
					}
					good = first == 1 && fwd == 1 && other == 0
				}
				r.ok(good, key, fn.Pos(), "Iterate must be Range(Unbounded, Unbounded)")
				continue
			}
			if len(calls) != 1 {
				r.discharged(key+"|not-a-pure-delegate", fn.Pos(), "body is not a single delegation ("+itoa(len(calls))+" btree calls); not covered by this rule")
				continue
			}
			call := calls[0]
			cal := staticCallee(&call.Call)
			want := n
			if m, ok := rename[n]; ok {
				want = m
			}
			good := fname(cal) == want
			why := "calls btree." + fname(cal) + " instead of btree." + want
			// the wrapper's parameters, in order, as a prefix of the callee's arguments
			ps := fn.Params[1:]
			args := call.Call.Args[1:]
			if len(ps) > len(args) {
				good = false
				why = "too few arguments"
			} else {
				for i, p := range ps {
					if args[i] != ssa.Value(p) {
						good = false
						why = "argument " + itoa(i) + " is " + path(args[i]) + ", not parameter " + p.Name()
					}
				}
			}
			r.ok(good, key, fn.Pos(), "wrapper must forward to the same-named tree operation with its parameters in order: "+why)
		}
	}
	// Set's Range/RangeReverse project the key
	for _, n := range []string{"Set.Range", "Set.RangeReverse"} {
		outer := c.fn(treeRel + "." + n)
		if outer == nil {
			r.undecided("tree."+n+"$1|missing", token.NoPos, "anchor not found")
			continue
		}
		// the projection: the function handed to iterator.Map (a literal or a named helper)
		var f *ssa.Function
		instrs(outer, func(b *ssa.BasicBlock, i int, in ssa.Instruction) {
			if call, ok := in.(*ssa.Call); ok && len(call.Call.Args) == 2 {
				if cal := calleeOf(&call.Call); cal != nil && origin(cal).Name() == "Map" && origin(cal).Pkg != nil && strings.HasSuffix(origin(cal).Pkg.Pkg.Path(), "/iterator") {
					if pf, _ := funcAndReceiver(call.Call.Args[1]); pf != nil {
						f = origin(pf)
					}
				}
			}
		})
		if f == nil {
			// the projection written as a wrapper type of its own (&keyIterator[T]{pairs: …} whose Next returns pair.Key): its
			// Next hands out the Key of the pair it has just pulled
			okView, found := false, false
			var vpos token.Pos
			instrs(outer, func(_ *ssa.BasicBlock, _ int, in ssa.Instruction) {
				al, ok := in.(*ssa.Alloc)
				if !ok {
					return
				}
				if inner, nx := iterViewOf(c, al); inner != nil && nx != nil {
					found = true
					vpos = nx.Pos()
					instrs(nx, func(_ *ssa.BasicBlock, _ int, in2 ssa.Instruction) {
						ret, ok := in2.(*ssa.Return)
						if !ok || len(ret.Results) != 2 {
							return
						}
						isPulledPair := func(v ssa.Value) bool {
							ex, isEx := v.(*ssa.Extract)
							if !isEx || ex.Index != 0 {
								return false
							}
							pc, isCall := ex.Tuple.(*ssa.Call)
							return isCall && pc.Call.IsInvoke() && pc.Call.Method.Name() == "Next"
						}
						rv := returnedValue(ret, 0)
						if fld, isF := rv.(*ssa.Field); isF && fieldName(fld.X.Type(), fld.Field) == "Key" && isPulledPair(fld.X) {
							okView = true
						}
						// the pair kept in a local variable (pair, ok := iter.pairs.Next(); … return pair.Key, true)
						if ld, isLd := rv.(*ssa.UnOp); isLd && ld.Op == token.MUL {
							if fa, isFA := ld.X.(*ssa.FieldAddr); isFA && fieldName(fa.X.Type(), fa.Field) == "Key" {
								if cell, isAl := fa.X.(*ssa.Alloc); isAl {
									if sts := storesTo(cell); len(sts) == 1 && isPulledPair(sts[0].Val) {
										okView = true
									}
								}
							}
						}
					})
				}
			})
			if found {
				r.ok(okView, "tree."+n+"$1|projects-key", vpos, "a Set iterator must yield the pair's Key")
				continue
			}
		}
		if f == nil || len(f.Params) == 0 {
			r.undecided("tree."+n+"$1|missing", token.NoPos, "anchor not found")
			continue
		}
		good := false
		instrs(f, func(b *ssa.BasicBlock, i int, in ssa.Instruction) {
			if ret, ok := in.(*ssa.Return); ok && path(returnedValue(ret, 0)) == pname(f.Params[len(f.Params)-1])+".Key" {
				good = true
			}
		})
		r.ok(good, "tree."+n+"$1|projects-key", f.Pos(), "a Set iterator must yield the pair's Key")
	}
}

var kvDuality = newDuality(false, "keys", "values", "key", "value", "k", "v")

func isKVWrite(fset *token.FileSet, atom string) (side string) {
	// atom is "ctx ⊢ stmt"; look only at the statement's written location
	parts := strings.SplitN(atom, " ⊢ ", 2)
	if len(parts) != 2 {
		return ""
	}
	st := parts[1]
	target := ""
	if i := strings.Index(st, " = "); i > 0 && !strings.HasPrefix(st, "if ") && !strings.HasPrefix(st, "for ") && !strings.HasPrefix(st, "return") {
		target = st[:i]
	} else {
		for _, fnc := range []string{"insertOne(", "removeOne(", "copy(", "xslices.Clear("} {
			if strings.HasPrefix(st, fnc) {
				rest := st[len(fnc):]
				if j := strings.IndexAny(rest, ",)"); j > 0 {
					target = rest[:j]
				}
			}
		}
	}
	if target == "" {
		return ""
	}
	switch {
	case strings.Contains(target, ".keys"):
		return "keys"
	case strings.Contains(target, ".values"):
		return "values"
	}
	// a local that is assigned an entry's key (k := curr.keys[n-1]) has a twin that is assigned the same entry's value, read
	// from the same node at the same index: the pair travels on (returned, stored into a parent) as one entry
	if i := strings.Index(st, " = "); i > 0 && !strings.HasPrefix(st, "if ") && !strings.HasPrefix(st, "for ") && !strings.HasPrefix(st, "return") {
		lhs, rhs := st[:i], st[i+3:]
		if !strings.ContainsAny(lhs, ".[( ") && strings.HasSuffix(rhs, "]") {
			if j := strings.Index(rhs, "["); j > 0 && !strings.ContainsAny(rhs[:j], "( ") {
				switch {
				case strings.HasSuffix(rhs[:j], ".keys"):
					return "keys"
				case strings.HasSuffix(rhs[:j], ".values"):
					return "values"
				}
			}
		}
	}
	return ""
}

func ruleKVLockstep(c *Ctx, r *R) {
	p := c.Pkgs[treeRel]
	var decls []*ast.FuncDecl
	for _, f := range p.Syntax {
		for _, d := range f.Decls {
			if fd, ok := d.(*ast.FuncDecl); ok && fd.Body != nil {
				decls = append(decls, fd)
			}
		}
	}
	sort.Slice(decls, func(i, j int) bool { return decls[i].Pos() < decls[j].Pos() })
	for _, fd := range decls {
		name := fd.Name.Name
		if fd.Recv != nil {
			name = recvTypeName(fd.Recv.List[0].Type) + "." + name
		}
		var plain, dual []string
		collectAtomsSplit(c.Fset, fd.Body, nil, nil, &plain)
		collectAtomsSplit(c.Fset, fd.Body, kvDuality, nil, &dual)
		var kPlain, vPlain, kDual []string
		for i, a := range plain {
			switch isKVWrite(c.Fset, a) {
			case "keys":
				kPlain = append(kPlain, a)
				kDual = append(kDual, dual[i])
			case "values":
				vPlain = append(vPlain, a)
			}
		}
		if len(kPlain) == 0 && len(vPlain) == 0 {
			continue
		}
		// exception: the overwrite of the value of a key that is already there writes the value only - a store of a parameter into
		// X.values[idx] under the `found` result of the very searchNode(k, X) call that produced idx (Put, or the worker Put
		// delegates to); counted on the SSA form, matched against the value writes that have no key twin
		nOverwrite := 0
		if sfn := c.fn(treeRel + "." + name); sfn != nil {
			nOverwrite = overwriteStores(sfn)
		}
		oa, ob := multisetDiff(kDual, vPlain)
		if len(oa) == 0 && len(ob) > 0 && len(ob) == nOverwrite {
			r.excepted("tree."+name+"|overwrite-value-only", fd.Pos(), "the overwrite branch stores the new value under the existing key (decided by C01.put-effect-isolation)")
			ob = nil
		}
		for i := range kPlain {
			_ = i
		}
		if len(oa) == 0 && len(ob) == 0 {
			r.add("tree."+name+"|kv-lockstep", fd.Pos(), Discharged, itoa(len(kPlain))+" key writes each have their value twin")
			for i := 1; i < len(kPlain); i++ {
				r.add("tree."+name+"|kv-lockstep#"+itoa(i+1), fd.Pos(), Discharged, kPlain[i])
			}
			continue
		}
		r.violated("tree."+name+"|kv-lockstep", fd.Pos(), "keys and values are not moved in lockstep: key writes without a value twin (shown as the twin expected): ["+strings.Join(oa, " | ")+"]; value writes without a key twin: ["+strings.Join(ob, " | ")+"] - an entry's value would be paired with another key while every structural check still passes")
	}
	d2 := newDuality(false, "keys", "values", "key", "value")
	mirrorPair(c, r, "tree|amalgam1.Key~Value", treeRel+".amalgam1.Key", treeRel+".amalgam1.Value", d2)
}

// collectAtomsSplit is collectAtoms with parallel assignments split into one atom per pair.
func collectAtomsSplit(fset *token.FileSet, n ast.Node, d *duality, ctx []string, out *[]string) {
	var raw []string
	collectAtomsWith(fset, n, d, ctx, &raw, true)
	*out = append(*out, raw...)
}

func collectAtomsWith(fset *token.FileSet, n ast.Node, d *duality, ctx []string, out *[]string, split bool) {
	emit := func(s string) { *out = append(*out, strings.Join(ctx, " & ")+" ⊢ "+s) }
	switch x := n.(type) {
	case nil:
	case *ast.BlockStmt:
		for _, s := range x.List {
			collectAtomsWith(fset, s, d, ctx, out, split)
		}
	case *ast.IfStmt:
		if x.Init != nil {
			collectAtomsWith(fset, x.Init, d, ctx, out, split)
		}
		cond := render(fset, x.Cond, d)
		emit("if " + cond)
		collectAtomsWith(fset, x.Body, d, append(append([]string{}, ctx...), cond), out, split)
		if x.Else != nil {
			collectAtomsWith(fset, x.Else, d, append(append([]string{}, ctx...), "!("+cond+")"), out, split)
		}
	case *ast.ForStmt:
		cnd := "for " + render(fset, x.Cond, d)
		emit(cnd)
		if x.Init != nil {
			collectAtomsWith(fset, x.Init, d, ctx, out, split)
		}
		if x.Post != nil {
			collectAtomsWith(fset, x.Post, d, append(append([]string{}, ctx...), cnd), out, split)
		}
		collectAtomsWith(fset, x.Body, d, append(append([]string{}, ctx...), cnd), out, split)
	case *ast.AssignStmt:
		if split && len(x.Lhs) == len(x.Rhs) && len(x.Lhs) > 1 {
			for i := range x.Lhs {
				emit(render(fset, x.Lhs[i], d) + " = " + render(fset, x.Rhs[i], d))
			}
			return
		}
		if split && len(x.Rhs) == 1 && len(x.Lhs) > 1 {
			// a, b, c = f(): one atom per target (the key target and the value target of one call are twins)
			for i := range x.Lhs {
				emit(render(fset, x.Lhs[i], d) + " = " + render(fset, x.Rhs[0], d))
			}
			return
		}
		emit(render(fset, x, d))
	default:
		var tmp []string
		collectAtoms(fset, n, d, ctx, &tmp)
		*out = append(*out, tmp...)
	}
}

func ruleTreeFirstLast(c *Ctx, r *R) {
	for _, sp := range [][3]string{{"First", "leftmostLeaf", "0"}, {"Last", "rightmostLeaf", "n-1"}} {
		fn := bt(c, sp[0])
		if fn == nil {
			r.undecided("tree.btree."+sp[0]+"|missing", token.NoPos, "anchor not found")
			continue
		}
		zeroOK, entryOK := false, false
		instrs(fn, func(b *ssa.BasicBlock, i int, in ssa.Instruction) {
			ret, ok := in.(*ssa.Return)
			if !ok || len(ret.Results) != 2 {
				return
			}
			empty := false
			for _, g := range append(guardsOf(b), guardsOfSelf(b)...) {
				if cf, ok := g.asCmp(); ok && cf.op == token.EQL && isConstInt(cf.y, 0) && strings.HasSuffix(path(cf.x), "root.n") {
					empty = true
				}
			}
			if empty {
				zeroOK = isZeroValue(returnedValue(ret, 0)) && isZeroValue(returnedValue(ret, 1))
				return
			}
			kp, vp := path(returnedValue(ret, 0)), path(returnedValue(ret, 1))
			// same leaf, same index, keys vs values
			if strings.Contains(kp, sp[1]) && strings.Replace(kp, ".keys[", ".values[", 1) == vp {
				if sp[2] == "0" {
					entryOK = strings.HasSuffix(kp, ".keys[0]")
				} else {
					entryOK = strings.Contains(kp, ".n-1)]") || strings.Contains(kp, ".n)-1)]") || strings.HasSuffix(kp, "-1)]")
				}
			}
		})
		r.ok(zeroOK, "tree.btree."+sp[0]+"|zero-when-empty", fn.Pos(), sp[0]+" on an empty tree must return zero values")
		r.ok(entryOK, "tree.btree."+sp[0]+"|extreme-entry", fn.Pos(), sp[0]+" must return key and value from the same slot ("+sp[2]+") of the "+sp[1])
	}
}

// boundPredicate checks that pred (a closure, or a method with receiver value recv bound at the MakeClosure) returns
// compare(<its parameter>.Key, far.key) OP 0 on every return.
func boundPredicate(pred *ssa.Function, recv ssa.Value, chain []*ssa.Call, farP *ssa.Parameter, op token.Token) string {
	env := provEnv{chain: chain, bind: map[*ssa.FreeVar]ssa.Value{}}
	var recvParam *ssa.Parameter
	if recv != nil && len(pred.Params) > 0 {
		recvParam = pred.Params[0]
	}
	nret := 0
	why := ""
	instrs(pred, func(b *ssa.BasicBlock, i int, in ssa.Instruction) {
		ret, ok := in.(*ssa.Return)
		if !ok || len(ret.Results) != 1 || why != "" {
			return
		}
		nret++
		bo, ok := resolveVal(returnedValue(ret, 0)).(*ssa.BinOp)
		if !ok {
			why = "the predicate does not return a comparison"
			return
		}
		x, y, o := bo.X, bo.Y, bo.Op
		if isConstInt(x, 0) {
			x, y, o = y, x, flip(o)
		}
		if !isConstInt(y, 0) || o != op {
			why = "the predicate compares with " + o.String() + " " + path(y)
			return
		}
		call, ok := resolveVal(x).(*ssa.Call)
		if !ok || len(call.Call.Args) != 2 || !strings.HasSuffix(path(call.Call.Value), "compare") {
			why = "the compared value is not a call of the tree's compare"
			return
		}
		// first argument: the pair's key (a field Key of the predicate's own parameter)
		a0 := valueProv(call.Call.Args[0], provEnv{})
		if pp, ok := a0.root.(*ssa.Parameter); !ok || pp.Parent() != pred || len(a0.fields) != 1 || a0.fields[0] != "Key" || pp == recvParam {
			why = "compare's first argument is " + a0.String() + ", not the pair's Key"
			return
		}
		// second argument: far.key
		a1 := valueProv(call.Call.Args[1], env)
		if recvParam != nil && a1.root == ssa.Value(recvParam) {
			// selected from the bound receiver: continue in the creating function
			rp := valueProv(recv, provEnv{chain: chain})
			if al, ok := rp.root.(*ssa.Alloc); ok || rp.root != nil {
				_ = al
				full := prov{rp.root, append(append([]string{}, rp.fields...), a1.fields...), rp.chain}
				if cell, ok := full.root.(*ssa.Alloc); ok {
					full = loadProv(prov{cell, full.fields, rp.chain}, provEnv{chain: rp.chain})
				}
				a1 = full
			}
		}
		if !a1.isParamField(farP, "key") {
			why = "compare's second argument is " + a1.String() + ", not " + farP.Name() + ".key"
		}
	})
	if why == "" && nret == 0 {
		why = "the predicate has no return"
	}
	return why
}

// isDirIterator: v is the cursor's iterator in direction dir ("Forward" / "Backward"): the result of c.Forward(), or an object
// of the very type that method builds, built in place (fwd := &forwardIterator{c: t.Cursor()}; ...; var iter Iterator = fwd).
func isDirIterator(c *Ctx, v ssa.Value, dir string) bool {
	for {
		switch x := v.(type) {
		case *ssa.MakeInterface:
			v = resolveVal(x.X)
			continue
		case *ssa.ChangeInterface:
			v = resolveVal(x.X)
			continue
		}
		break
	}
	if call, ok := v.(*ssa.Call); ok {
		if cal := staticCallee(&call.Call); cal != nil && fname(cal) == dir {
			return true
		}
		return false
	}
	al, ok := v.(*ssa.Alloc)
	if !ok {
		return false
	}
	m := cur(c, dir)
	if m == nil || al.Parent() == m {
		return false // (inside c.Forward() itself the object is what the call stands for)
	}
	built := returnedStruct(m)
	return built != nil && types.Identical(origType(derefType(built.Type())), origType(derefType(al.Type())))
}

// overwriteStores counts the stores `X.values[idx] = param` of fn that are guarded by the found-result of the searchNode call
// on X that produced idx.
func overwriteStores(fn *ssa.Function) int {
	n := 0
	instrs(fn, func(b *ssa.BasicBlock, _ int, in ssa.Instruction) {
		st, ok := in.(*ssa.Store)
		if !ok {
			return
		}
		if _, isParam := st.Val.(*ssa.Parameter); !isParam {
			return
		}
		ia, ok := st.Addr.(*ssa.IndexAddr)
		if !ok {
			return
		}
		fa, ok := ia.X.(*ssa.FieldAddr)
		if !ok || fieldName(fa.X.Type(), fa.Field) != "values" {
			return
		}
		ex, ok := ia.Index.(*ssa.Extract)
		if !ok {
			return
		}
		call, ok := ex.Tuple.(*ssa.Call)
		if !ok {
			return
		}
		cal := staticCallee(&call.Call)
		if cal == nil || cal.Blocks == nil || rootFn(cal).Pkg != rootFn(fn).Pkg {
			return
		}
		// the node searched is the node written: an argument of searchNode, or - the descent living in a helper that hands back
		// (node, idx, found) - another result of the same call
		hit := false
		if fname(cal) == "searchNode" {
			for _, a := range call.Call.Args {
				if a == fa.X {
					hit = true
				}
			}
		}
		if nx, isEx := fa.X.(*ssa.Extract); isEx && nx.Tuple == ex.Tuple && nx != ex {
			hit = true
		}
		if !hit {
			return
		}
		for _, g := range guardsOf(b) {
			if v, val := g.boolVal(); val {
				if fx, ok := v.(*ssa.Extract); ok && fx.Tuple == ex.Tuple && fx != ex && isBoolType(fx.Type()) {
					n++
					return
				}
			}
		}
	})
	return n
}

func isBoolType(t types.Type) bool {
	b, ok := t.Underlying().(*types.Basic)
	return ok && b.Kind() == types.Bool
}
