package main

import (
	"go/token"
	"go/types"
	"sort"

	"golang.org/x/tools/go/ssa"
)

// wrapperTypes: struct types of the ownership packages that have a Close method and stream-shaped fields.
type wrapperField struct {
	rel, typ, field string
	slice           bool
}

func wrapperFields(c *Ctx) []wrapperField {
	var out []wrapperField
	for _, rel := range ownPkgs {
		p := c.Pkgs[rel]
		if p == nil {
			continue
		}
		scope := p.Types.Scope()
		names := scope.Names()
		sort.Strings(names)
		for _, n := range names {
			tn, ok := scope.Lookup(n).(*types.TypeName)
			if !ok {
				continue
			}
			st, ok := tn.Type().Underlying().(*types.Struct)
			if !ok {
				continue
			}
			if c.fn(rel+"."+canonTypeName(rel, n)+".Close") == nil {
				continue
			}
			for i := 0; i < st.NumFields(); i++ {
				ft := st.Field(i).Type()
				if pt, isPtr := ft.(*types.Pointer); isPtr {
					// peek *peekable[T]: a wrapper held under its own type. It is this wrapper's to close when the pointee type
					// owns streams itself and the field only ever receives wrappers made on the spot (a back reference -
					// parent *runsStream - receives an existing one)
					if nt, isN := pt.Elem().(*types.Named); isN && nt.Obj().Pkg() == p.Types && ownsStreams(c, rel, nt) && fieldOnlyFresh(c, tn, i) {
						out = append(out, wrapperField{rel, canonTypeName(rel, n), canonField(tn.Type(), st.Field(i).Name()), false})
					}
					continue
				}
				if streamKind(ft) == 2 {
					out = append(out, wrapperField{rel, canonTypeName(rel, n), canonField(tn.Type(), st.Field(i).Name()), true})
				} else if isStreamNamed(ft) {
					if borrowedStreamField(c, tn, i) {
						continue // a second reference to a stream that another wrapper owns and closes (a run sharing its maker's source)
					}
					out = append(out, wrapperField{rel, canonTypeName(rel, n), canonField(tn.Type(), st.Field(i).Name()), false})
				}
			}
		}
	}
	return out
}

// isFieldLoad: v is a load of recv.<field> (or, for slice fields, of recv.<field>[k]).
func fieldLoadOf(v ssa.Value, field string) (isLoad bool, elemIdx ssa.Value) {
	for {
		switch x := v.(type) {
		case *ssa.MakeInterface:
			v = x.X
			continue
		case *ssa.ChangeInterface:
			v = x.X
			continue
		}
		break
	}
	ld, ok := v.(*ssa.UnOp)
	if !ok || ld.Op != token.MUL {
		return false, nil
	}
	switch a := ld.X.(type) {
	case *ssa.FieldAddr:
		if fieldName(a.X.Type(), a.Field) == field {
			if _, isParam := resolveVal(a.X).(*ssa.Parameter); isParam {
				return true, nil
			}
		}
	case *ssa.IndexAddr:
		if ld2, ok := a.X.(*ssa.UnOp); ok && ld2.Op == token.MUL {
			if fa, ok := ld2.X.(*ssa.FieldAddr); ok && fieldName(fa.X.Type(), fa.Field) == field {
				if _, isParam := resolveVal(fa.X).(*ssa.Parameter); isParam {
					return true, a.Index
				}
			}
		}
	}
	return false, nil
}

// C09.close-forwards: S.Close closes every stream-shaped field on every path (nil-guard allowed).
func ruleOwnCloseForwards(c *Ctx, r *R) {
	for _, wf := range wrapperFields(c) {
		key := wf.rel + "." + wf.typ + ".Close|" + wf.field
		fn := c.fn(wf.rel + "." + wf.typ + ".Close")
		if wf.slice {
			// a loop over the field calling Close on field[i]
			found := false
			cursorBad := ""
			instrs(fn, func(b *ssa.BasicBlock, i int, in ssa.Instruction) {
				call, ok := in.(*ssa.Call)
				if !ok || !call.Call.IsInvoke() || call.Call.Method.Name() != "Close" {
					return
				}
				if isL, idx := fieldLoadOf(call.Call.Value, wf.field); isL && idx != nil {
					if _, isConst := idx.(*ssa.Const); !isConst && reaches(b, b) {
						found = true
						// the elements before a cursor kept in the wrapper (streams[:pos]) were closed as they ended: the loop
						// starts at the cursor, not at 0
						if cur := sliceCursorField(c, wf); cur != "" && !indexStartsAtField(idx, cur) {
							cursorBad = "the wrapper closes each element of " + wf.field + " as it ends and advances " + cur + ": Close must start at " + wf.field + "[" + cur + "] - starting elsewhere closes finished elements a second time and leaves the last ones open"
						}
					}
				}
			})
			if cursorBad != "" {
				r.violated(key, fn.Pos(), cursorBad)
				continue
			}
			if !found {
				found = closedByJoinedGoroutines(c, fn, wf)
			}
			r.ok(found, key, fn.Pos(), "Close must close every remaining element of "+wf.field+" (loop over the slice)")
			continue
		}
		// states: 0 = open, 1 = closed-or-nil
		pf := &PF{N: 2}
		pf.Instr = func(f *ssa.Function, in ssa.Instruction, q int) (StateSet, bool) {
			var cc *ssa.CallCommon
			switch x := in.(type) {
			case *ssa.Call:
				cc = &x.Call
			case deferredCall:
				cc = &x.Defer.Call
			default:
				return 0, false
			}
			if cc.IsInvoke() && cc.Method.Name() == "Close" {
				if isL, _ := fieldLoadOf(cc.Value, wf.field); isL {
					return ss(1), true
				}
			} else if cal := staticCallee(cc); cal != nil && fname(cal) == "Close" && len(cc.Args) > 0 {
				// concrete-typed field: static method call with the field as receiver
				if isL, _ := fieldLoadOf(cc.Args[0], wf.field); isL {
					return ss(1), true
				}
			}
			return 0, false
		}
		pf.Edge = func(f *ssa.Function, g guard, q int) (StateSet, bool) {
			b := g.blk
			_ = b
			cf, ok := g.asCmp()
			if !ok || cf.op != token.EQL {
				return 0, false
			}
			if isL, _ := fieldLoadOf(cf.x, wf.field); isL && isNilConst(cf.y) {
				return ss(1), true
			}
			if isL, _ := fieldLoadOf(cf.y, wf.field); isL && isNilConst(cf.x) {
				return ss(1), true
			}
			return 0, false
		}
		good := true
		var bad *ssa.Return
		for _, e := range pf.Exits(fn, ss(0)) {
			if e.States.has(0) {
				good = false
				bad = e.Ret
			}
		}
		pos := fn.Pos()
		if bad != nil {
			pos = retPos(bad)
		}
		r.ok(good, key, pos, wf.typ+".Close must call Close on field "+wf.field+" on every path (or find it nil)")
	}
}

// C09.field-discipline: inside the methods of a wrapper other than Close, per stream-shaped field:
//
//	state 0 = live (holds a stream that is not closed), 1 = closed but still stored, 2 = nil / freshly replaced.
//
// Violations: Close in state 1 (double close), Next/Peek in state 1 (use after close), overwrite in state 0
// (dropped without Close) unless the field is known nil by a dominating guard, return in state 1 (the wrapper's
// Close would close it a second time, and the next Next would use it after Close).
func ruleOwnFieldDiscipline(c *Ctx, r *R) {
	for _, wf := range wrapperFields(c) {
		meths := c.methodsOf(wf.rel, wf.typ)
		var names []string
		for n := range meths {
			if n != "Close" {
				names = append(names, n)
			}
		}
		sort.Strings(names)
		// private helper methods (s.advance()) are analysed with the states their callers actually reach them in, and are
		// seen by their callers through summaries
		helpers := map[*ssa.Function]bool{}
		for _, mn := range names {
			fn := meths[mn]
			if token.IsExported(mn) {
				continue
			}
			for _, site := range callSitesOf(c, fn) {
				for _, m2 := range meths {
					if site.Parent() == m2 || rootFn(site.Parent()) == m2 {
						helpers[fn] = true
					}
				}
			}
		}
		cursorF := ""
		if wf.slice {
			cursorF = sliceCursorField(c, wf)
		}
		type result struct {
			problems []string
			ppos     token.Pos
			touched  bool
		}
		results := map[string]*result{}
		entries := map[*ssa.Function]StateSet{}
		defEntry := ss(0, 2)
		if wf.slice {
			defEntry = ss(0)
		}
		var queue []string
		for _, mn := range names {
			if !helpers[meths[mn]] {
				entries[meths[mn]] = defEntry
				queue = append(queue, mn)
			}
		}
		nameOfM := map[*ssa.Function]string{}
		for _, mn := range names {
			nameOfM[meths[mn]] = mn
		}
		for steps := 0; len(queue) > 0 && steps < 64; steps++ {
			mn := queue[0]
			queue = queue[1:]
			fn := meths[mn]
			key := wf.rel + "." + wf.typ + "." + mn + "|" + wf.field
			_ = key
			var problems []string
			var ppos token.Pos
			noting := true
			note := func(in ssa.Instruction, msg string) {
				if !noting {
					return
				}
				problems = append(problems, msg)
				if !ppos.IsValid() {
					ppos = posOf(in)
				}
			}
			touched := false
			pf := &PF{N: 3, InScope: func(f *ssa.Function) bool { return helpers[origin(f)] || helpers[f] }}
			callEntries := map[*ssa.Function]StateSet{}
			pf.Visit = func(f *ssa.Function, in ssa.Instruction, before StateSet) {
				if call, ok := in.(*ssa.Call); ok {
					if cal := staticCallee(&call.Call); cal != nil && (helpers[cal] || helpers[origin(cal)]) {
						callEntries[origin(cal)] |= before
					}
				}
			}
			pf.Instr = func(f *ssa.Function, in ssa.Instruction, q int) (StateSet, bool) {
				noting = f == fn // summaries of helpers are computed for hypothetical entry states: report only in the method itself
				switch x := in.(type) {
				case *ssa.Call:
					cc := &x.Call
					recv := ssa.Value(nil)
					mname := ""
					if cc.IsInvoke() {
						recv, mname = cc.Value, cc.Method.Name()
					} else if cal := staticCallee(cc); cal != nil && cal.Signature.Recv() != nil && len(cc.Args) > 0 {
						recv, mname = cc.Args[0], fname(cal)
					}
					if recv == nil {
						return 0, false
					}
					isL, idx := fieldLoadOf(recv, wf.field)
					if !isL || (wf.slice && idx == nil) {
						return 0, false
					}
					touched = true
					switch mname {
					case "Close":
						if q == 1 {
							note(in, "second Close of "+wf.field+" on one path")
						}
						if q == 2 {
							// closing a field known to be nil would panic; not an ownership matter
						}
						return ss(1), true
					case "Next", "Peek":
						if q == 1 {
							note(in, mname+" on "+wf.field+" after it was closed (use after Close)")
						}
					}
				case *ssa.Store:
					fa, ok := x.Addr.(*ssa.FieldAddr)
					if ok && wf.slice && cursorF != "" && fieldName(fa.X.Type(), fa.Field) == cursorF {
						if _, isParam := fa.X.(*ssa.Parameter); isParam && isFieldIncDec(x, cursorF, +1) {
							// s.pos++ moves on to the next element (what s.remaining = s.remaining[1:] does by re-slicing)
							touched = true
							if q == 0 {
								note(in, "the current element of "+wf.field+" is left behind without Close ("+cursorF+" advances)")
							}
							return ss(0), true
						}
					}
					if !ok || fieldName(fa.X.Type(), fa.Field) != wf.field {
						return 0, false
					}
					if _, isParam := fa.X.(*ssa.Parameter); !isParam {
						return 0, false
					}
					touched = true
					if wf.slice {
						// s.remaining = s.remaining[1:] drops element 0
						if sl, ok := x.Val.(*ssa.Slice); ok {
							if isL, _ := fieldLoadOf(sl.X, wf.field); isL || true {
								if q == 0 {
									note(in, "element 0 of "+wf.field+" is dropped without Close")
								}
								return ss(0), true
							}
						}
						return 0, false
					}
					if q == 0 {
						note(in, "field "+wf.field+" is overwritten while it may hold an open stream (dropped without Close)")
					}
					if isNilConst(x.Val) {
						return ss(2), true
					}
					return ss(0), true // fresh stream stored
				}
				return 0, false
			}
			pf.Edge = func(f *ssa.Function, g guard, q int) (StateSet, bool) {
				b := g.blk
				_ = b
				cf, ok := g.asCmp()
				if !ok {
					return 0, false
				}
				var other ssa.Value
				if isL, _ := fieldLoadOf(cf.x, wf.field); isL {
					other = cf.y
				} else if isL, _ := fieldLoadOf(cf.y, wf.field); isL {
					other = cf.x
				} else {
					return 0, false
				}
				if !isNilConst(other) {
					return 0, false
				}
				if cf.op == token.EQL {
					if q == 2 || q == 0 {
						return ss(2), true // known nil
					}
					return 0, true // closed-but-stored is not nil: infeasible
				}
				if cf.op == token.NEQ && q == 2 {
					return 0, true // nil on a != nil edge: infeasible
				}
				return 0, false
			}
			// entry: the field may be live or nil (helpers: what their callers reach them with)
			entry := entries[fn]
			for _, e := range pf.Exits(fn, entry) {
				if e.States.has(1) {
					problems = append(problems, "a path returns with "+wf.field+" closed but still stored: "+wf.typ+".Close would close it a second time and the next call would use it after Close")
					if !ppos.IsValid() {
						ppos = retPos(e.Ret)
					}
				}
			}
			results[mn] = &result{problems, ppos, touched}
			for h, st := range callEntries {
				if entries[h]|st != entries[h] {
					entries[h] |= st
					if hn, ok := nameOfM[h]; ok {
						queue = append(queue, hn)
					}
				}
			}
		}
		for _, mn := range names {
			fn := meths[mn]
			key := wf.rel + "." + wf.typ + "." + mn + "|" + wf.field
			res := results[mn]
			if res == nil {
				continue // a helper that is never reached
			}
			problems, ppos, touched := res.problems, res.ppos, res.touched
			if !touched {
				continue // this method does not close, replace or drop the field: no obligation
			}
			if !ppos.IsValid() {
				ppos = fn.Pos()
			}
			if len(problems) > 0 {
				r.violated(key, ppos, problems[0])
			} else {
				r.discharged(key, ppos, "close-before-drop, no use after close, no structural double close")
			}
		}
	}
}

// closedByJoinedGoroutines: the elements of slice field wf.field are not closed by Close itself but by goroutines that Close
// waits for: Close (or a helper it calls) waits on a WaitGroup field of the receiver; a method of the same type defers
// wg.Done() on that field and defers Close of recv.<field>[i] for its index parameter i; and that method is started with `go`
// inside a loop with a non-constant index (one goroutine per element).
func closedByJoinedGoroutines(c *Ctx, closeFn *ssa.Function, wf wrapperField) bool {
	wgField := ""
	for _, di := range deepInstrs(closeFn, 2) {
		call, ok := di.in.(*ssa.Call)
		if !ok {
			continue
		}
		cal := call.Call.StaticCallee()
		if cal == nil || cal.Name() != "Wait" || cal.Pkg == nil || cal.Pkg.Pkg.Path() != "sync" || len(call.Call.Args) != 1 {
			continue
		}
		if fa, ok := call.Call.Args[0].(*ssa.FieldAddr); ok {
			if _, isParam := argOf(fa.X, di.calls).(*ssa.Parameter); isParam {
				wgField = fieldName(fa.X.Type(), fa.Field)
			}
		}
	}
	if wgField == "" {
		return false
	}
	for _, m := range c.methodsOf(wf.rel, wf.typ) {
		if m == closeFn || len(m.Params) < 2 {
			continue
		}
		var idxParam *ssa.Parameter
		done := false
		instrs(m, func(_ *ssa.BasicBlock, _ int, in ssa.Instruction) {
			d, ok := in.(*ssa.Defer)
			if !ok {
				return
			}
			if d.Call.IsInvoke() && d.Call.Method.Name() == "Close" {
				if isL, idx := fieldLoadOf(d.Call.Value, wf.field); isL && idx != nil {
					if p, isP := resolveVal(idx).(*ssa.Parameter); isP && p.Parent() == m {
						idxParam = p
					}
				}
			}
			if cal := d.Call.StaticCallee(); cal != nil && cal.Name() == "Done" && cal.Pkg != nil && cal.Pkg.Pkg.Path() == "sync" && len(d.Call.Args) == 1 {
				if fa, ok := d.Call.Args[0].(*ssa.FieldAddr); ok && resolveVal(fa.X) == ssa.Value(m.Params[0]) && fieldName(fa.X.Type(), fa.Field) == wgField {
					done = true
				}
			}
		})
		if idxParam == nil || !done {
			continue
		}
		pi := -1
		for i, p := range m.Params {
			if p == idxParam {
				pi = i
			}
		}
		for _, f := range c.Funcs {
			started := false
			instrs(f, func(b *ssa.BasicBlock, _ int, in ssa.Instruction) {
				g, ok := in.(*ssa.Go)
				if !ok {
					return
				}
				if cal := staticCallee(&g.Call); cal == nil || origin(cal) != origin(m) || pi >= len(g.Call.Args) {
					return
				}
				if _, isK := g.Call.Args[pi].(*ssa.Const); !isK && reaches(b, b) {
					started = true
				}
			})
			if started {
				return true
			}
		}
	}
	return false
}

// borrowedStreamField: everything ever stored into field #idx of struct type tn is nil or a load of a stream field of ANOTHER
// struct type of the module that has its own Close method (the owner): the field is a borrowed reference, not an owned stream.
func borrowedStreamField(c *Ctx, tn *types.TypeName, idx int) bool {
	nt, ok := tn.Type().(*types.Named)
	if !ok {
		return false
	}
	n, borrowed := 0, true
	for _, fn := range c.Funcs {
		instrs(fn, func(_ *ssa.BasicBlock, _ int, in ssa.Instruction) {
			st, ok := in.(*ssa.Store)
			if !ok {
				return
			}
			fa, ok := st.Addr.(*ssa.FieldAddr)
			if !ok || fa.Field != idx {
				return
			}
			nt2, ok := derefType(fa.X.Type()).(*types.Named)
			if !ok || nt2.Origin() != nt.Origin() {
				return
			}
			if isNilConst(st.Val) {
				return
			}
			n++
			v := st.Val
			for {
				switch x := v.(type) {
				case *ssa.MakeInterface:
					v = x.X
					continue
				case *ssa.ChangeInterface:
					v = x.X
					continue
				case *ssa.ChangeType:
					v = x.X
					continue
				}
				break
			}
			ld, ok := v.(*ssa.UnOp)
			if !ok || ld.Op != token.MUL {
				borrowed = false
				return
			}
			src, ok := ld.X.(*ssa.FieldAddr)
			if !ok {
				borrowed = false
				return
			}
			ont, ok := derefType(src.X.Type()).(*types.Named)
			if !ok || ont.Origin() == nt.Origin() || ont.Obj().Pkg() == nil {
				borrowed = false
				return
			}
			rel := relOfTypesPkg(ont.Obj().Pkg())
			if c.fn(rel+"."+canonTypeName(rel, ont.Obj().Name())+".Close") == nil {
				borrowed = false
			}
		})
	}
	return n > 0 && borrowed
}

func relOfTypesPkg(p *types.Package) string {
	path := p.Path()
	if len(path) > len(modPath) && path[:len(modPath)] == modPath {
		return path[len(modPath)+1:]
	}
	return path
}

// sliceCursorField: the wrapper reads its slice of streams at an index kept in one of its own integer fields
// (s.streams[s.pos].Next(ctx)): that field's name, "" when the wrapper re-slices instead.
func sliceCursorField(c *Ctx, wf wrapperField) string {
	fn := c.fn(wf.rel + "." + wf.typ + ".Next")
	if fn == nil || len(fn.Params) == 0 {
		return ""
	}
	cur := ""
	instrs(fn, func(_ *ssa.BasicBlock, _ int, in ssa.Instruction) {
		call, ok := in.(*ssa.Call)
		if !ok || !call.Call.IsInvoke() {
			return
		}
		isL, idx := fieldLoadOf(call.Call.Value, wf.field)
		if !isL || idx == nil {
			return
		}
		if ld, ok := idx.(*ssa.UnOp); ok && ld.Op == token.MUL {
			if fa, ok := ld.X.(*ssa.FieldAddr); ok && fa.X == ssa.Value(fn.Params[0]) {
				cur = fieldName(fa.X.Type(), fa.Field)
			}
		}
	})
	return cur
}

// indexStartsAtField: idx is a loop counter whose initial value is the receiver's field (for i := s.pos; ...; i++), or the
// field plus a counter from zero.
func indexStartsAtField(idx ssa.Value, field string) bool {
	isFieldLd := func(v ssa.Value) bool {
		ld, ok := resolveVal(v).(*ssa.UnOp)
		if !ok || ld.Op != token.MUL {
			return false
		}
		fa, ok := ld.X.(*ssa.FieldAddr)
		return ok && fieldName(fa.X.Type(), fa.Field) == field
	}
	switch x := idx.(type) {
	case *ssa.Phi:
		for _, e := range x.Edges {
			if isFieldLd(e) {
				return true
			}
		}
	case *ssa.BinOp:
		if x.Op == token.ADD && (isFieldLd(x.X) || isFieldLd(x.Y)) {
			return true
		}
	}
	return false
}

// ownsStreams: the struct type nt of package rel has a Close method and a stream-typed field that is not borrowed.
func ownsStreams(c *Ctx, rel string, nt *types.Named) bool {
	nt = nt.Origin()
	st, ok := nt.Underlying().(*types.Struct)
	if !ok || c.fn(rel+"."+canonTypeName(rel, nt.Obj().Name())+".Close") == nil {
		return false
	}
	for i := 0; i < st.NumFields(); i++ {
		ft := st.Field(i).Type()
		if streamKind(ft) == 2 || (isStreamNamed(ft) && !borrowedStreamField(c, nt.Obj(), i)) {
			return true
		}
	}
	return false
}

// fieldOnlyFresh: every store to field idx of tn's type, anywhere, writes nil or the address of a composite literal made there
// (and there is at least one such).
func fieldOnlyFresh(c *Ctx, tn *types.TypeName, idx int) bool {
	nt, ok := tn.Type().(*types.Named)
	if !ok {
		return false
	}
	n, fresh := 0, true
	for _, fn := range c.Funcs {
		instrs(fn, func(_ *ssa.BasicBlock, _ int, in ssa.Instruction) {
			st, ok := in.(*ssa.Store)
			if !ok {
				return
			}
			fa, ok := st.Addr.(*ssa.FieldAddr)
			if !ok || fa.Field != idx {
				return
			}
			nt2, ok := derefType(fa.X.Type()).(*types.Named)
			if !ok || nt2.Origin() != nt.Origin() {
				return
			}
			if isNilConst(st.Val) {
				return
			}
			n++
			if al, isAl := st.Val.(*ssa.Alloc); !isAl || !al.Heap {
				fresh = false
			}
		})
	}
	return n > 0 && fresh
}
