package main

// runThorough is filled in by controls.go (controls catalogue + alternative build configurations).
func runThorough(c *Ctx, p *Property, repo, verif string) map[string]interface{} {
	return thoroughImpl(c, p, repo, verif)
}
