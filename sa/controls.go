package main

func thoroughImpl(c *Ctx, p *Property, repo, verif string) map[string]interface{} {
	return map[string]interface{}{}
}
