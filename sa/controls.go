package main

import (
	"bufio"
	"fmt"
	"os"
	"os/exec"
	"path/filepath"
	"sort"
	"strconv"
	"strings"
)

// Thorough tier: (a) the property's rules are re-run under alternative build configurations so that every
// file any configuration compiles is seen; a violation there fails the check; (b) every catalogued control
// (/verif/controls/<prop>/*.diff, my own one-line edits) and every kept seeded mutation (/verif/seeded/<prop>-*/
// patch.diff) is applied IN MEMORY through packages.Config.Overlay, must still type-check, and the property's
// rules must report a violation. Controls never change the exit status: a control that no longer applies
// after someone edited /repo is "stale", not a property violation.

type hunk struct {
	oldStart int
	oldLines []string // context + removed
	newLines []string // context + added
}

type filePatch struct {
	path  string
	hunks []hunk
}

func parseUnifiedDiff(text string) []filePatch {
	var out []filePatch
	var cur *filePatch
	var h *hunk
	sc := bufio.NewScanner(strings.NewReader(text))
	sc.Buffer(make([]byte, 1<<20), 1<<24)
	for sc.Scan() {
		line := sc.Text()
		switch {
		case strings.HasPrefix(line, "+++ "):
			p := strings.TrimSpace(strings.TrimPrefix(line, "+++ "))
			p = strings.TrimPrefix(p, "b/")
			if i := strings.Index(p, "\t"); i >= 0 {
				p = p[:i]
			}
			out = append(out, filePatch{path: p})
			cur = &out[len(out)-1]
			h = nil
		case strings.HasPrefix(line, "--- "), strings.HasPrefix(line, "diff "), strings.HasPrefix(line, "index "):
			h = nil
		case strings.HasPrefix(line, "@@ "):
			if cur == nil {
				continue
			}
			// @@ -l,s +l,s @@
			parts := strings.Fields(line)
			start := 1
			if len(parts) >= 2 {
				o := strings.TrimPrefix(parts[1], "-")
				if i := strings.Index(o, ","); i >= 0 {
					o = o[:i]
				}
				start, _ = strconv.Atoi(o)
			}
			cur.hunks = append(cur.hunks, hunk{oldStart: start})
			h = &cur.hunks[len(cur.hunks)-1]
		default:
			if h == nil {
				continue
			}
			switch {
			case strings.HasPrefix(line, " "):
				h.oldLines = append(h.oldLines, line[1:])
				h.newLines = append(h.newLines, line[1:])
			case strings.HasPrefix(line, "-"):
				h.oldLines = append(h.oldLines, line[1:])
			case strings.HasPrefix(line, "+"):
				h.newLines = append(h.newLines, line[1:])
			case line == "":
				h.oldLines = append(h.oldLines, "")
				h.newLines = append(h.newLines, "")
			}
		}
	}
	return out
}

// applyPatch applies the hunks to content; ok=false if some hunk does not match (stale).
func applyPatch(content string, fp filePatch) (string, bool) {
	lines := strings.Split(content, "\n")
	offset := 0
	for _, h := range fp.hunks {
		pos := -1
		want := h.oldStart - 1 + offset
		match := func(at int) bool {
			if at < 0 || at+len(h.oldLines) > len(lines) {
				return false
			}
			for i, l := range h.oldLines {
				if lines[at+i] != l {
					return false
				}
			}
			return true
		}
		for d := 0; d < len(lines)+1 && pos < 0; d++ {
			if match(want + d) {
				pos = want + d
			} else if match(want - d) {
				pos = want - d
			}
		}
		if pos < 0 {
			return "", false
		}
		nl := append([]string{}, lines[:pos]...)
		nl = append(nl, h.newLines...)
		nl = append(nl, lines[pos+len(h.oldLines):]...)
		offset += len(h.newLines) - len(h.oldLines)
		lines = nl
	}
	return strings.Join(lines, "\n"), true
}

type controlResult struct {
	Name     string   `json:"name"`
	Kind     string   `json:"kind"` // control | seeded
	Outcome  string   `json:"outcome"`
	Reported []string `json:"reported,omitempty"`
}

func runControl(repo, patchFile string, p *Property) (string, []string) {
	b, err := os.ReadFile(patchFile)
	if err != nil {
		return "stale: " + err.Error(), nil
	}
	overlay := map[string][]byte{}
	for _, fp := range parseUnifiedDiff(string(b)) {
		full := filepath.Join(repo, fp.path)
		src, err := os.ReadFile(full)
		if err != nil {
			return "stale: cannot read " + fp.path, nil
		}
		patched, ok := applyPatch(string(src), fp)
		if !ok {
			return "stale: hunk does not apply to " + fp.path, nil
		}
		overlay[full] = []byte(patched)
	}
	if len(overlay) == 0 {
		return "stale: empty patch", nil
	}
	c2, err := loadRepo(repo, overlay)
	if err != nil {
		return "does-not-typecheck: " + err.Error(), nil
	}
	res := runProperty(c2, p)
	var reported []string
	for _, o := range res.Obs {
		if o.Status == Violated || o.Status == Undecided {
			if strings.Contains(o.Key, "wake-up-capacity") {
				continue // the open known finding is not evidence that the control fired
			}
			reported = append(reported, o.Rule+" @ "+o.Pos)
		}
	}
	if len(reported) > 0 {
		return "fired", reported
	}
	return "MISSED", nil
}

func thoroughImpl(c *Ctx, p *Property, repo, verif string) map[string]interface{} {
	out := map[string]interface{}{}
	// (a) alternative build configurations, one subprocess each to bound memory
	type cfg struct{ goos, goarch string }
	var alt []map[string]interface{}
	altViol := 0
	self, _ := os.Executable()
	for _, k := range []cfg{{"linux", "386"}, {"darwin", "arm64"}, {"windows", "amd64"}} {
		cmd := exec.Command(self, "-prop", p.ID, "-repo", repo, "-verif", verif, "-no-evidence")
		cmd.Env = append(os.Environ(), "VERIF_GOOS="+k.goos, "VERIF_GOARCH="+k.goarch, "VERIF_TIER=quick")
		outb, err := cmd.CombinedOutput()
		lines := strings.Split(strings.TrimSpace(string(outb)), "\n")
		last := ""
		if len(lines) > 0 {
			last = lines[len(lines)-1]
		}
		st := "held"
		if err != nil {
			st = "VIOLATION"
			altViol++
			for _, l := range lines {
				if strings.HasPrefix(l, "VIOLATION") || strings.Contains(l, "violated:") {
					fmt.Println("[" + k.goos + "/" + k.goarch + "] " + l)
				}
			}
		}
		alt = append(alt, map[string]interface{}{"GOOS": k.goos, "GOARCH": k.goarch, "status": st, "summary": last})
	}
	out["alt_configs"] = alt
	out["alt_config_violations"] = altViol
	// (b) controls and seeded mutations
	var files []struct{ name, kind, path string }
	if ents, err := os.ReadDir(filepath.Join(verif, "controls", p.ID)); err == nil {
		for _, e := range ents {
			if strings.HasSuffix(e.Name(), ".diff") {
				files = append(files, struct{ name, kind, path string }{p.ID + "/" + e.Name(), "control", filepath.Join(verif, "controls", p.ID, e.Name())})
			}
		}
	}
	if ents, err := os.ReadDir(filepath.Join(verif, "seeded")); err == nil {
		for _, e := range ents {
			if strings.HasPrefix(e.Name(), p.ID+"-") {
				files = append(files, struct{ name, kind, path string }{e.Name(), "seeded", filepath.Join(verif, "seeded", e.Name(), "patch.diff")})
			}
		}
	}
	sort.Slice(files, func(i, j int) bool { return files[i].name < files[j].name })
	var results []controlResult
	fired, missed, stale := 0, 0, 0
	for _, f := range files {
		outcome, rep := runControl(repo, f.path, p)
		if len(rep) > 3 {
			rep = rep[:3]
		}
		results = append(results, controlResult{Name: f.name, Kind: f.kind, Outcome: outcome, Reported: rep})
		switch {
		case outcome == "fired":
			fired++
		case outcome == "MISSED":
			missed++
			fmt.Println("control " + f.name + ": NOT detected by " + p.ID + "'s rules (recorded in the evidence; does not change the verdict on /repo)")
		default:
			stale++
		}
	}
	out["controls_applied"] = len(files)
	out["controls_fired"] = fired
	out["controls_missed"] = missed
	out["controls_stale"] = stale
	out["controls"] = results
	fmt.Printf("%s thorough: %d alternative build configurations (%d with violations); %d controls/seeded mutations applied through Overlay: %d fired, %d missed, %d stale\n", p.ID, len(alt), altViol, len(files), fired, missed, stale)
	return out
}
