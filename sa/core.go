package main

import (
	"crypto/sha1"
	"encoding/json"
	"fmt"
	"go/token"
	"os"
	"path/filepath"
	"runtime/debug"
	"sort"
	"strconv"
	"strings"
	"time"
)

// Status of one obligation.
const (
	Discharged = "discharged"
	Violated   = "violated"
	Excepted   = "excepted"
	Undecided  = "undecided"
)

// Obligation is one (rule, construct) pair a rule has formed on the analysed tree.
type Obligation struct {
	Rule   string `json:"rule"`
	Key    string `json:"construct"` // rule + function + normalised construct, never a line number
	Pos    string `json:"pos"`       // file:line, for the reader only
	Status string `json:"status"`
	Detail string `json:"detail,omitempty"`
}

// Rule is one numbered clause of DESIGN.md §4.
type Rule struct {
	ID     string // e.g. "C15.gen-bump"
	Clause string // short description of the decided clause
	Floor  int    // minimum number of obligations (confirmed by reading)
	Run    func(c *Ctx, r *R)
}

// R collects the obligations of one rule run.
type R struct {
	rule *Rule
	c    *Ctx
	obs  []Obligation
}

func (r *R) add(key string, pos token.Pos, status, detail string) {
	p := ""
	if pos.IsValid() {
		pp := r.c.Fset.Position(pos)
		p = relPath(r.c.RepoDir, pp.Filename) + ":" + strconv.Itoa(pp.Line)
	}
	r.obs = append(r.obs, Obligation{Rule: r.rule.ID, Key: r.rule.ID + "|" + key, Pos: p, Status: status, Detail: detail})
}

// ok records an obligation that is discharged when cond holds and violated otherwise.
func (r *R) ok(cond bool, key string, pos token.Pos, detail string) bool {
	if cond {
		r.add(key, pos, Discharged, "holds; would be reported as: "+detail)
	} else {
		r.add(key, pos, Violated, detail)
	}
	return cond
}
func (r *R) violated(key string, pos token.Pos, detail string)   { r.add(key, pos, Violated, detail) }
func (r *R) discharged(key string, pos token.Pos, detail string) { r.add(key, pos, Discharged, detail) }
func (r *R) excepted(key string, pos token.Pos, reason string)   { r.add(key, pos, Excepted, reason) }
func (r *R) undecided(key string, pos token.Pos, detail string)  { r.add(key, pos, Undecided, detail) }

func relPath(base, p string) string {
	if rel, err := filepath.Rel(base, p); err == nil && !strings.HasPrefix(rel, "..") {
		return rel
	}
	return p
}

// Property groups the rules that decide the structural clauses of one property.
type Property struct {
	ID         string
	Title      string
	Rules      []*Rule
	NotCovered []string
	Trusted    []string
}

var properties = map[string]*Property{}

func register(p *Property) { properties[p.ID] = p }

// late registrations (rules appended to a property declared in another file) run after all init functions.
var lateInits []func()

func late(f func()) bool { lateInits = append(lateInits, f); return true }

// Known findings ---------------------------------------------------------------------------

type KnownFinding struct {
	Status    string `json:"status"` // open | fixed
	Property  string `json:"property"`
	Rule      string `json:"rule"`
	Construct string `json:"construct"`
	What      string `json:"what"`
	Commit    string `json:"commit,omitempty"`
}

func loadKnownFindings(path string) ([]KnownFinding, error) {
	b, err := os.ReadFile(path)
	if err != nil {
		return nil, err
	}
	var f struct {
		Findings []KnownFinding `json:"findings"`
	}
	if err := json.Unmarshal(b, &f); err != nil {
		return nil, err
	}
	return f.Findings, nil
}

// Result of running a property -------------------------------------------------------------

type RunResult struct {
	Prop        *Property
	Obs         []Obligation
	RuleCounts  map[string]int
	Vacuous     []string
	MachineErrs []string
}

func runProperty(c *Ctx, p *Property) *RunResult {
	res := &RunResult{Prop: p, RuleCounts: map[string]int{}}
	for _, rule := range p.Rules {
		r := &R{rule: rule, c: c}
		func() {
			defer func() {
				if e := recover(); e != nil {
					// A checker that cannot decide must not say "held".
					msg := fmt.Sprint(e)
					if os.Getenv("VERIF_DEBUG") != "" {
						msg += "\n" + string(debug.Stack())
					}
					r.add("analyser-panic", token.NoPos, Undecided, msg)
				}
			}()
			rule.Run(c, r)
		}()
		// de-duplicate keys deterministically (same construct reached twice keeps the worst status)
		res.RuleCounts[rule.ID] = len(r.obs)
		// Floor is the number of obligations confirmed by reading on the pinned tree. Merging duplicated code into a helper
		// legitimately lowers the count, so the vacuity alarm is raised only when fewer than 60% of them are formed.
		eff := (rule.Floor*3 + 4) / 5
		if rule.Floor > 0 && eff < 1 {
			eff = 1
		}
		if len(r.obs) < eff {
			res.Vacuous = append(res.Vacuous, fmt.Sprintf("%s: %d obligations < floor %d", rule.ID, len(r.obs), eff))
			r.add("vacuous", token.NoPos, Violated, fmt.Sprintf("rule formed %d obligations, fewer than 60%% (%d) of the %d confirmed by reading: the rule no longer matches the code it was written for", len(r.obs), eff, rule.Floor))
		}
		res.Obs = append(res.Obs, r.obs...)
	}
	sort.SliceStable(res.Obs, func(i, j int) bool {
		a, b := res.Obs[i], res.Obs[j]
		if a.Rule != b.Rule {
			return a.Rule < b.Rule
		}
		af, al := splitPos(a.Pos)
		bf, bl := splitPos(b.Pos)
		if af != bf {
			return af < bf
		}
		if al != bl {
			return al < bl
		}
		return a.Key < b.Key
	})
	return res
}

func splitPos(p string) (string, int) {
	i := strings.LastIndex(p, ":")
	if i < 0 {
		return p, 0
	}
	n, _ := strconv.Atoi(p[i+1:])
	return p[:i], n
}

func keyHash(k string) string {
	h := sha1.Sum([]byte(k))
	return fmt.Sprintf("%x", h[:6])
}

// Evidence ---------------------------------------------------------------------------------

type evidence struct {
	PropertyID  string                 `json:"property_id"`
	Tier        string                 `json:"tier"`
	Seed        int                    `json:"seed"`
	Level       string                 `json:"level"`
	Coverage    map[string]interface{} `json:"coverage"`
	Assumptions []string               `json:"assumptions"`
	WallS       float64                `json:"wall_s"`
	Violations  int                    `json:"violations"`
}

func writeEvidence(dir string, c *Ctx, res *RunResult, tier string, seed int, start time.Time, nviol int, known []string, controls map[string]interface{}) error {
	p := res.Prop
	counts := map[string]int{}
	for _, o := range res.Obs {
		counts[o.Status]++
	}
	var clauses []string
	perRule := []map[string]interface{}{}
	for _, rule := range p.Rules {
		clauses = append(clauses, rule.ID+": "+rule.Clause)
		st := map[string]int{}
		for _, o := range res.Obs {
			if o.Rule == rule.ID {
				st[o.Status]++
			}
		}
		perRule = append(perRule, map[string]interface{}{"rule": rule.ID, "clause": rule.Clause, "floor": rule.Floor,
			"obligations": res.RuleCounts[rule.ID], "discharged": st[Discharged], "excepted": st[Excepted], "violated": st[Violated], "undecided": st[Undecided]})
	}
	// samples: up to 3 obligations per rule, written out
	var samples []Obligation
	seen := map[string]int{}
	for _, o := range res.Obs {
		if seen[o.Rule] < 3 {
			samples = append(samples, o)
			seen[o.Rule]++
		}
	}
	var excepted []Obligation
	for _, o := range res.Obs {
		if o.Status == Excepted {
			excepted = append(excepted, o)
		}
	}
	distinct := map[string]bool{}
	for _, o := range res.Obs {
		distinct[o.Key] = true
	}
	cov := map[string]interface{}{
		"explanation":         "Static analysis of /repo's current source (go/packages + go/types + go/ssa, nothing executed). Decided structural necessary conditions of " + p.ID + " (" + p.Title + "): " + strings.Join(clauses, "; ") + ". Each rule enumerates every obligation it can form on this tree (all functions, all CFG paths) and an obligation that is violated or undecided fails the check; these clauses are necessary for the property, not sufficient - see not_covered.",
		"obligations":         len(res.Obs),
		"discharged":          counts[Discharged],
		"excepted":            counts[Excepted],
		"violated":            counts[Violated],
		"undecided":           counts[Undecided],
		"evaluations":         len(res.Obs),
		"distinct_nontrivial": len(distinct),
		"rule":                "one evaluation = one obligation (rule, construct) formed from the source; distinct = distinct construct keys; every obligation is non-trivial in the sense that its rule names a concrete instruction, call site, path or declaration that must satisfy it",
		"rules":               perRule,
		"samples":             samples,
		"excepted_list":       excepted,
		"known_findings":      known,
		"packages_analysed":   c.PkgCount,
		"functions_analysed":  len(c.Funcs),
		"not_covered":         p.NotCovered,
		"exhaustive":          true,
		"checker_cmd":         "/verif/check " + p.ID,
		"trusted_base":        append([]string{"go/types and go/ssa of golang.org/x/tools v0.29.0", "the go toolchain's parser and type checker", "Go memory model and channel semantics as specified"}, p.Trusted...),
	}
	if controls != nil {
		cov["controls"] = controls
	}
	ev := evidence{PropertyID: p.ID, Tier: tier, Seed: seed, Level: "other", Coverage: cov,
		Assumptions: append([]string{"user callbacks and comparators are pure and do not call back into the container", "only the default build configuration (linux/amd64, current go release tags) is analysed; *_old.go (!go1.21) variants cannot be type-checked by any installed toolchain"}, p.Trusted...),
		WallS:       time.Since(start).Seconds(), Violations: nviol}
	b, err := json.MarshalIndent(ev, "", " ")
	if err != nil {
		return err
	}
	if err := os.MkdirAll(dir, 0o755); err != nil {
		return err
	}
	return os.WriteFile(filepath.Join(dir, p.ID+".json"), append(b, '\n'), 0o644)
}
