package main

import (
	"go/constant"
	"go/token"
	"go/types"
	"sort"
	"strings"

	"golang.org/x/tools/go/ssa"
)

// Rules written for the mutations of seed round 8 that the analyser missed at import (each is a necessary condition of the
// property it is registered under; the seed it was written for is named in the comment).

// rootLockPath: the path of a mutex named in the innermost callee of chain, in the root function's terms (a prefix that is a
// parameter of a callee is replaced by the path of the argument, frame by frame).
func rootLockPath(m string, chain []*ssa.Call) string {
	for i := len(chain) - 1; i >= 0; i-- {
		cal := staticCallee(&chain[i].Call)
		if cal == nil {
			break
		}
		for k, a := range chain[i].Call.Args {
			if k >= len(cal.Params) {
				continue
			}
			pn := pname(cal.Params[k])
			if m == pn || strings.HasPrefix(m, pn+".") {
				if mi, ok := a.(*ssa.MakeInterface); ok {
					a = mi.X
				}
				m = path(a) + m[len(pn):]
				break
			}
		}
	}
	return m
}

// no-recursive-lock (C16-r8m2): sync.Mutex and sync.RWMutex are not reentrant. Taking a lock that the goroutine already holds
// deadlocks at once for a write lock - and for a READ lock it deadlocks as soon as a writer arrives between the two
// acquisitions (the writer waits for the first read lock, the second read lock queues behind the writer). Decided on the
// must-held lockset along the static call chain: no Lock/RLock of a mutex that is certainly held at that point.
func ruleNoRecursiveLock(pkgRel string) func(c *Ctx, r *R) {
	return func(c *Ctx, r *R) {
		fns := c.funcsOfPkg(pkgRel)
		sort.Slice(fns, func(i, j int) bool { return c.nameOf(fns[i]) < c.nameOf(fns[j]) })
		for _, fn := range fns {
			if fn.Parent() != nil || fn.Blocks == nil {
				continue
			}
			n := 0
			for _, d := range deepInstrs(fn, 3) {
				call, ok := d.in.(*ssa.Call)
				if !ok {
					continue
				}
				m, op := lockEvent(&call.Call)
				if m == "" {
					m, op = boundLockEvent(call)
				}
				if m == "" || (op != "Lock" && op != "RLock") {
					continue
				}
				n++
				rm := rootLockPath(m, d.calls)
				held := deepLocks(fn, d)
				_, h1 := held[rm]
				_, h2 := held["outer:"+rm]
				key := c.nameOf(fn) + "|acquire " + rm + "#" + itoa(n)
				r.ok(!h1 && !h2, key, call.Pos(), op+" of "+rm+" while "+c.nameOf(fn)+" already holds it ("+held.String()+"): sync mutexes are not reentrant - a second read lock deadlocks as soon as a writer queues between the two, a second write lock at once")
			}
		}
	}
}

// no-wait-under-lock (C17-r8m3): the group's functions may themselves call Do / Trigger / Stop while they wind down, and each
// of those takes g.m. A StopAndWait that still holds g.m while it waits for them never returns. wg.Wait must be called with no
// mutex of the group held.
func ruleNoWaitUnderLock(c *Ctx, r *R) {
	n := 0
	for _, fn := range c.funcsOfPkg("xsync") {
		if fn.Parent() != nil || fn.Blocks == nil || fn.Signature.Recv() == nil || !isNamedTypeDeep(fn.Signature.Recv().Type(), "xsync", "Group") {
			continue
		}
		for _, d := range deepInstrs(fn, 3) {
			call, ok := d.in.(*ssa.Call)
			if !ok {
				continue
			}
			cal := call.Call.StaticCallee()
			if cal == nil || fname(cal) != "Wait" || cal.Signature.Recv() == nil {
				continue
			}
			rt := cal.Signature.Recv().Type()
			if !(isNamedType(rt, "sync", "WaitGroup") || isNamedType(rt, "errgroup", "Group")) {
				continue
			}
			n++
			held := deepLocks(fn, d)
			r.ok(len(held) == 0, c.nameOf(fn)+"|wait#"+itoa(n), call.Pos(), "the wait for the group's goroutines runs with "+held.String()+" held: a function of the group that calls Do, Trigger or Stop while it winds down blocks on that mutex, and the wait never ends")
		}
	}
	if n == 0 {
		r.undecided("xsync.Group|wait", token.NoPos, "no WaitGroup.Wait found in Group's methods")
	}
}

var _ = late(func() {
	properties["C16"].Rules = append(properties["C16"].Rules,
		&Rule{ID: "C16.no-recursive-lock", Floor: 4, Clause: "no function of xsync takes (for reading or writing) a mutex it certainly already holds, directly or through a helper it calls: a recursive read lock of ContextCond.m deadlocks Signal, Broadcast and every later Wait as soon as a Broadcast queues between the two acquisitions", Run: ruleNoRecursiveLock("xsync")})
	properties["C17"].Rules = append(properties["C17"].Rules,
		&Rule{ID: "C17.no-recursive-lock", Floor: 4, Clause: "same rule as C16.no-recursive-lock over xsync: Group's methods never re-acquire g.m", Run: ruleNoRecursiveLock("xsync")},
		&Rule{ID: "C17.no-wait-under-lock", Floor: 1, Clause: "Group never waits for its goroutines (WaitGroup.Wait) while holding a mutex: the functions it waits for may call Do / Trigger / Stop, which take g.m", Run: ruleNoWaitUnderLock})
	properties["C20"].Rules = append(properties["C20"].Rules,
		&Rule{ID: "C20.no-recursive-lock", Floor: 3, Clause: "same rule as C16.no-recursive-lock over xtime: JitterTicker's methods and its timer callback never re-acquire t.m (schedule is called with it held and must not lock)", Run: ruleNoRecursiveLock("xtime")})
})

var _ = types.Typ
var _ = token.NoPos

// periodTree walks the expression tree of a duration handed to a timer: additions, subtractions, multiplications, divisions,
// negations, conversions between signed integers and floats, constants, rand.Float64() and the results of in-package
// helpers. It reports the first construct outside that vocabulary and collects the root function's parameters the value
// depends on.
type periodTree struct {
	params    map[*ssa.Parameter]bool
	bad       string
	seenField map[string]bool
}

func (pt *periodTree) walk(v ssa.Value, chain []*ssa.Call, depth int) {
	if pt.bad != "" {
		return
	}
	if depth > 24 {
		pt.bad = "expression too deep"
		return
	}
	switch x := v.(type) {
	case *ssa.Const:
	case *ssa.Parameter:
		if a := argOf(x, chain); a != ssa.Value(x) {
			// a helper's parameter: what the caller passes (evaluated in the caller's frame)
			for i := len(chain) - 1; i >= 0; i-- {
				if staticCallee(&chain[i].Call) == x.Parent() {
					pt.walk(callArgFor(chain[i], x), chain[:i], depth+1)
					return
				}
			}
			pt.bad = "parameter " + x.Name() + " of a helper could not be mapped to its argument"
			return
		}
		pt.params[x] = true
	case *ssa.BinOp:
		switch x.Op {
		case token.ADD, token.SUB, token.MUL, token.QUO:
			pt.walk(x.X, chain, depth+1)
			pt.walk(x.Y, chain, depth+1)
		default:
			pt.bad = "operator " + x.Op.String() + " (a remainder or bit operation on a signed duration wraps for negative operands)"
		}
	case *ssa.UnOp:
		switch x.Op {
		case token.SUB:
			pt.walk(x.X, chain, depth+1)
		case token.MUL:
			if cell := cellOf(x.X); cell != nil {
				sts := storesTo(cell)
				if len(sts) == 0 {
					pt.bad = "variable that is never assigned"
					return
				}
				for _, st := range sts {
					ch := chain
					if st.Parent() != x.Parent() {
						ch = nil // a captured variable assigned in the enclosing function
					}
					pt.walk(st.Val, ch, depth+1)
				}
				return
			}
			if fa, ok := x.X.(*ssa.FieldAddr); ok && pt.walkField(fa.X.Type(), fa.Field, depth) {
				return
			}
			pt.bad = "value loaded from " + path(x.X)
		default:
			pt.bad = "operator " + x.Op.String()
		}
	case *ssa.Field:
		if !pt.walkField(x.X.Type(), x.Field, depth) {
			pt.bad = "field " + path(x)
		}
	case *ssa.Convert:
		if bt, ok := x.Type().Underlying().(*types.Basic); ok && bt.Info()&types.IsUnsigned != 0 {
			pt.bad = "conversion to " + x.Type().String() + ": a negative duration wraps to a huge unsigned value"
			return
		}
		pt.walk(x.X, chain, depth+1)
	case *ssa.ChangeType:
		pt.walk(x.X, chain, depth+1)
	case *ssa.Phi:
		for _, e := range x.Edges {
			if e != ssa.Value(x) {
				pt.walk(e, chain, depth+1)
			}
		}
	case *ssa.Call:
		cal := staticCallee(&x.Call)
		if cal == nil {
			pt.bad = "dynamic call"
			return
		}
		if calleePkgPath(cal) == "math/rand" && (fname(cal) == "Float64" || fname(cal) == "Float32") {
			return
		}
		if cal.Blocks != nil && curCtx != nil && curCtx.inModule(cal) && cal.Signature.Results().Len() == 1 {
			for _, c2 := range chain {
				if c2 == x {
					pt.bad = "recursive helper"
					return
				}
			}
			ch := append(append([]*ssa.Call{}, chain...), x)
			for _, rv := range returnedBy(cal, 0) {
				pt.walk(rv, ch, depth+1)
			}
			return
		}
		pt.bad = "call of " + calleeName(&x.Call) + " (only rand.Float64 and the package's own helpers are understood: rand.Int63n panics for a bound <= 0, an unsigned draw wraps for a negative jitter)"
	default:
		pt.bad = "unrecognised value " + path(v)
	}
}

// walkField: a field of a struct type of the module that groups the period (schedule{interval, jitter}, jitterTimer{…}): what
// is stored into that field anywhere in the module, each store judged in its own function.
func (pt *periodTree) walkField(t types.Type, field int, depth int) bool {
	nt, ok := derefType(t).(*types.Named)
	if !ok || curCtx == nil {
		return false
	}
	if pt.seenField == nil {
		pt.seenField = map[string]bool{}
	}
	key := nt.Origin().String() + "#" + itoa(field)
	if pt.seenField[key] {
		return true
	}
	pt.seenField[key] = true
	n := 0
	for _, f := range curCtx.Funcs {
		instrs(f, func(_ *ssa.BasicBlock, _ int, in ssa.Instruction) {
			st, ok := in.(*ssa.Store)
			if !ok {
				return
			}
			fa, ok := st.Addr.(*ssa.FieldAddr)
			if !ok || fa.Field != field {
				return
			}
			nt2, ok := derefType(fa.X.Type()).(*types.Named)
			if !ok || nt2.Origin() != nt.Origin() {
				return
			}
			n++
			pt.walk(st.Val, nil, depth+1)
		})
	}
	return n > 0
}

// callArgFor: the argument call passes for parameter p of its static callee.
func callArgFor(call *ssa.Call, p *ssa.Parameter) ssa.Value {
	cal := staticCallee(&call.Call)
	if cal == nil {
		return p
	}
	for i, q := range cal.Params {
		if q == p && i < len(call.Call.Args) {
			return call.Call.Args[i]
		}
	}
	return p
}

// period-formula (C17-r8m2): every duration with which Periodic / PeriodicOrTrigger arm their timer is computed from BOTH of
// the function's duration parameters with signed / floating arithmetic only. (What is decided is the vocabulary of the
// expression, not its distribution.)
func rulePeriodFormula(c *Ctx, r *R) {
	n := 0
	for _, name := range []string{"xsync.Group.Periodic", "xsync.Group.PeriodicOrTrigger"} {
		fn := c.fn(name)
		if fn == nil {
			r.undecided(name+"|missing", token.NoPos, "anchor not found")
			continue
		}
		var durs []*ssa.Parameter
		for _, p := range fn.Params {
			if isNamedType(p.Type(), "time", "Duration") {
				durs = append(durs, p)
			}
		}
		k := 0
		for _, g := range withAnon(fn) {
			for _, d := range deepInstrs(g, 2) {
				call, ok := d.in.(*ssa.Call)
				if !ok {
					continue
				}
				cal := call.Call.StaticCallee()
				if cal == nil || calleePkgPath(cal) != "time" {
					continue
				}
				var dur ssa.Value
				switch fname(cal) {
				case "NewTimer", "After", "AfterFunc", "NewTicker", "Tick":
					if cal.Signature.Recv() == nil && len(call.Call.Args) > 0 {
						dur = call.Call.Args[0]
					}
				case "Reset":
					if cal.Signature.Recv() != nil && len(call.Call.Args) > 1 {
						dur = call.Call.Args[1]
					}
				}
				if dur == nil {
					continue
				}
				k++
				n++
				pt := &periodTree{params: map[*ssa.Parameter]bool{}}
				pt.walk(dur, d.calls, 0)
				key := name + "|" + fname(cal) + "#" + itoa(k)
				if pt.bad != "" {
					r.violated(key, call.Pos(), "the wait handed to "+fname(cal)+" is computed with "+pt.bad+": for some interval / jitter the timer is armed with a wait that is not within jitter of the interval, and the periodic function silently stops being invoked")
					continue
				}
				// the two duration parameters by role (the first is the interval, the second the jitter), of Periodic itself or
				// of the constructor that stores them (newJitterTimer(interval, jitter))
				roles := map[string]bool{}
				for p := range pt.params {
					roles[periodRole(p)] = true
				}
				_ = durs
				r.ok(roles["d"] && roles["jitter"], key, call.Pos(), "the wait handed to "+fname(cal)+" must be computed from both the interval and the jitter the caller gave")
			}
		}
	}
	if n == 0 {
		r.undecided("xsync.Group|period", token.NoPos, "no timer is armed in Periodic / PeriodicOrTrigger")
	}
}

var _ = late(func() {
	properties["C17"].Rules = append(properties["C17"].Rules,
		&Rule{ID: "C17.period-formula", Floor: 5, Clause: "every wait with which Periodic / PeriodicOrTrigger arm their timer depends on both the interval and the jitter parameter and is built from signed / floating arithmetic, rand.Float64 and package helpers only: no conversion to an unsigned type, no remainder, no bounded integer draw (those wrap or panic for a zero or negative jitter, after which f is never invoked again)", Run: rulePeriodFormula})
})

// armedInterval classifies the expression handed to time.AfterFunc by the ticker: "d" (the period), "j" (the jitter), "r" (a
// bounded random draw), "" for sums of those, or an error text for anything else.
func armedInterval(v ssa.Value, chain []*ssa.Call, depth int) (kind string, bad string) {
	if depth > 24 {
		return "", "expression too deep"
	}
	switch x := v.(type) {
	case *ssa.Const:
		if isConstInt(x, 0) {
			return "0", ""
		}
		return "", "constant " + x.String()
	case *ssa.Parameter:
		for i := len(chain) - 1; i >= 0; i-- {
			if staticCallee(&chain[i].Call) == x.Parent() {
				return armedInterval(callArgFor(chain[i], x), chain[:i], depth+1)
			}
		}
		switch periodRole(x) {
		case "d":
			return "d", ""
		case "jitter":
			return "j", ""
		}
		return "", "parameter " + x.Name()
	case *ssa.Convert:
		if bt, ok := x.Type().Underlying().(*types.Basic); ok && bt.Info()&types.IsUnsigned != 0 {
			return "", "conversion to an unsigned type"
		}
		return armedInterval(x.X, chain, depth+1)
	case *ssa.ChangeType:
		return armedInterval(x.X, chain, depth+1)
	case *ssa.UnOp:
		if x.Op != token.MUL {
			return "", "operator " + x.Op.String()
		}
		if fa, ok := x.X.(*ssa.FieldAddr); ok {
			switch fieldName(fa.X.Type(), fa.Field) {
			case "d":
				return "d", ""
			case "jitter":
				return "j", ""
			}
			return "", "field " + fieldName(fa.X.Type(), fa.Field)
		}
		if cell := cellOf(x.X); cell != nil {
			sts := storesTo(cell)
			if len(sts) == 1 {
				ch := chain
				if sts[0].Parent() != x.Parent() {
					ch = nil
				}
				return armedInterval(sts[0].Val, ch, depth+1)
			}
		}
		return "", "value loaded from " + path(x.X)
	case *ssa.Phi:
		// next := t.d; if t.jitter > 0 { next += … }: every alternative must be an interval of its own
		// also: var offset Duration; if jitter > 0 { offset = draw - jitter }: zero or a jitter term
		kinds := map[string]bool{}
		for _, e := range x.Edges {
			if e == ssa.Value(x) {
				continue
			}
			k, bad := armedInterval(e, chain, depth+1)
			if bad != "" {
				return "", bad
			}
			if k != "0" {
				kinds[k] = true
			}
		}
		switch {
		case len(kinds) == 0:
			return "0", ""
		case len(kinds) == 1 && kinds["d"]:
			return "d", ""
		case len(kinds) == 1 && kinds["r"]:
			return "r", ""
		}
		return "", "alternatives of different kinds (some based on the period, some not)"
	case *ssa.BinOp:
		kx, bad := armedInterval(x.X, chain, depth+1)
		if bad != "" {
			return "", bad
		}
		ky, bad := armedInterval(x.Y, chain, depth+1)
		if bad != "" {
			return "", bad
		}
		switch x.Op {
		case token.ADD:
			if kx == "d" && ky == "d" {
				return "", "the period added twice"
			}
			if kx == "d" || ky == "d" {
				return "d", "" // the period plus a jitter term
			}
			if kx == "0" && ky == "0" {
				return "0", ""
			}
			return "r", ""
		case token.SUB:
			// only the jitter is ever subtracted: (d + draw) - jitter, d + (draw - jitter)
			if ky != "j" {
				return "", "something other than the jitter is subtracted (" + path(x.Y) + ")"
			}
			if kx == "d" {
				return "d", ""
			}
			return "r", ""
		}
		return "", "operator " + x.Op.String()
	case *ssa.Call:
		cal := staticCallee(&x.Call)
		if cal == nil {
			return "", "dynamic call"
		}
		if calleePkgPath(cal) == "math/rand" {
			return "r", "" // the bound is decided by interval-formula / positive-arg
		}
		if cal.Blocks != nil && curCtx != nil && curCtx.inModule(cal) && cal.Signature.Results().Len() == 1 {
			for _, c2 := range chain {
				if c2 == x {
					return "", "recursive helper"
				}
			}
			ch := append(append([]*ssa.Call{}, chain...), x)
			kind := ""
			for i, rv := range returnedBy(cal, 0) {
				k, bad := armedInterval(rv, ch, depth+1)
				if bad != "" {
					return "", bad
				}
				if i > 0 && k != kind {
					return "", "a helper whose returns are of different kinds"
				}
				kind = k
			}
			return kind, ""
		}
		return "", "call of " + calleeName(&x.Call)
	}
	return "", "unrecognised value " + path(v)
}

// armed-interval (C20-r8m1, C20-r8m3): the wait with which the ticker arms its timer IS the interval the formula yields - the
// period, plus a draw, minus the jitter - and nothing else: nothing but the jitter is subtracted from it (no "lateness
// compensation") and it is not passed through a rounding call (Truncate can shorten it below d - jitter).
func ruleArmedInterval(c *Ctx, r *R) {
	sch := c.fn("xtime.JitterTicker.schedule")
	if sch == nil {
		r.undecided("xtime.JitterTicker.schedule|missing", token.NoPos, "anchor not found")
		return
	}
	n := 0
	for _, d := range deepInstrs(sch, 2) {
		call, ok := d.in.(*ssa.Call)
		if !ok {
			continue
		}
		cal := call.Call.StaticCallee()
		if cal == nil || calleePkgPath(cal) != "time" {
			continue
		}
		var dur ssa.Value
		switch fname(cal) {
		case "AfterFunc", "NewTimer", "After":
			if cal.Signature.Recv() == nil && len(call.Call.Args) > 0 {
				dur = call.Call.Args[0]
			}
		case "Reset":
			if cal.Signature.Recv() != nil && len(call.Call.Args) > 1 {
				dur = call.Call.Args[1]
			}
		}
		if dur == nil {
			continue
		}
		n++
		kind, bad := armedInterval(dur, d.calls, 0)
		key := "xtime.JitterTicker.schedule|" + fname(cal) + "#" + itoa(n)
		if bad != "" {
			r.violated(key, call.Pos(), "the timer is armed with a wait that is not the interval itself ("+bad+"): anything subtracted from it or any rounding of it lets a tick arrive less than d - jitter after the previous one")
			continue
		}
		r.ok(kind == "d", key, call.Pos(), "the timer must be armed with the period plus the jitter term")
	}
	if n == 0 {
		r.undecided("xtime.JitterTicker.schedule|arm", sch.Pos(), "schedule arms no timer")
	}
}

var _ = late(func() {
	properties["C20"].Rules = append(properties["C20"].Rules,
		&Rule{ID: "C20.armed-interval", Floor: 1, Clause: "the wait schedule hands to time.AfterFunc is the period, plus a random draw, minus the jitter - through additions and subtractions of exactly those, with nothing else subtracted and no call (Truncate, Round, time.Since) in between: the armed wait is never shorter than d - jitter", Run: ruleArmedInterval})
})

// published-immutable (C18-r8m3): an object handed to atomic.Pointer Store / Swap / CompareAndSwap is visible to every other
// goroutine from that instant: all of its fields are written BEFORE the call. A field filled in afterwards ("only pay for the
// channel if we won the race") lets a concurrent Set close a nil channel and a concurrent Value hand out a nil channel that
// never closes.
func rulePublishedImmutable(c *Ctx, r *R) {
	n := 0
	perFn := map[*ssa.Function]int{}
	// what comes OUT of the atomic pointer (the result of Load, the old object Swap hands back) has been published: readers
	// that loaded it copy its fields with no further synchronisation, so it is never written again - not even "to let the old
	// value be collected" (oldInner.t = zero after the Swap makes a concurrent Value return a value that was never set)
	for _, fn := range c.funcsOfPkg("xsync") {
		if fn.Blocks == nil {
			continue
		}
		k := 0
		instrs(fn, func(_ *ssa.BasicBlock, _ int, in ssa.Instruction) {
			st, ok := in.(*ssa.Store)
			if !ok {
				return
			}
			fa, ok := st.Addr.(*ssa.FieldAddr)
			if !ok {
				return
			}
			for _, lf := range valueLeaves(fa.X, nil, 0) {
				call, isCall := lf.v.(*ssa.Call)
				if !isCall {
					continue
				}
				if op, _, ok := atomicPtrOp(call); ok && (op == "Load" || op == "Swap") {
					k++
					r.violated(c.nameOf(fn)+"|write-to-loaded#"+itoa(k), st.Pos(), "a field of an object obtained from the atomic pointer ("+op+") is written: that object has been published - a concurrent reader that loaded it copies its fields without synchronisation and can see the new (zeroed, half-written) contents, a value that was never Set")
				}
			}
		})
	}
	for _, fn := range c.funcsOfPkg("xsync") {
		if fn.Blocks == nil {
			continue
		}
		instrs(fn, func(_ *ssa.BasicBlock, _ int, in ssa.Instruction) {
			call, ok := in.(*ssa.Call)
			if !ok {
				return
			}
			cc := &call.Call
			pubArgs := cc.Args
			if op, args, ok := atomicPtrOp(call); ok && (op == "Store" || op == "Swap" || op == "CompareAndSwap") {
				pubArgs = args // (also through a thin accessor: w.publish(next))
			} else if !(isCallTo(cc, "sync/atomic", "Value", "Store") || isCallTo(cc, "sync/atomic", "Value", "Swap") || isCallTo(cc, "sync/atomic", "Value", "CompareAndSwap")) {
				return
			}
			if len(pubArgs) == 0 {
				return
			}
			obj := resolveVal(pubArgs[len(pubArgs)-1])
			if mi, ok := obj.(*ssa.MakeInterface); ok {
				obj = resolveVal(mi.X)
			}
			if isNilConst(obj) {
				return
			}
			n++
			perFn[fn]++
			key := c.nameOf(fn) + "|" + calleeName(cc) + "#" + itoa(perFn[fn])
			var late *ssa.Store
			instrs(fn, func(_ *ssa.BasicBlock, _ int, in2 ssa.Instruction) {
				st, ok := in2.(*ssa.Store)
				if !ok {
					return
				}
				fa, ok := st.Addr.(*ssa.FieldAddr)
				if !ok || resolveVal(fa.X) != obj {
					return
				}
				// after the publication of THIS object: on a path from the call that does not pass through the instruction that
				// creates the object (a retry loop makes a new one per round)
				var born *ssa.BasicBlock
				if oi, ok := obj.(ssa.Instruction); ok && oi.Parent() == fn {
					born = oi.Block()
				}
				after := false
				switch {
				case st.Block() == call.Block() && idxIn(st) > idxIn(call):
					after = true
				case born != nil && born == st.Block():
					// every way into the store's block creates the object anew before the store
				case born != nil:
					after = reachesAvoiding(call.Block(), st.Block(), born)
				default:
					after = reaches(call.Block(), st.Block())
				}
				if after && late == nil {
					late = st
				}
			})
			if late != nil {
				r.violated(key, late.Pos(), "a field of the object is written after it was published with "+calleeName(cc)+": other goroutines can already load it and see the field unset (a nil channel that a concurrent Set closes - panic - or a concurrent Value hands out - it never closes)")
			} else {
				r.discharged(key, call.Pos(), "every field store of the published object precedes the publication")
			}
		})
	}
	if n == 0 {
		r.undecided("xsync|publications", token.NoPos, "no atomic publication found")
	}
}

var _ = late(func() {
	properties["C18"].Rules = append(properties["C18"].Rules,
		&Rule{ID: "C18.published-immutable", Floor: 2, Clause: "an object handed to atomic.Pointer Store / Swap / CompareAndSwap in xsync (Watchable's cells) is complete before the call: no field of it is written on any path after the publication, and none through a cell obtained from Load / Swap", Run: rulePublishedImmutable})
})

// no-blocking-under-lock (C14-r8m2): the dispatcher, the workers and the consumer of MapIterator hand items to each other over
// unbuffered channels and share one mutex for the in-flight count. A goroutine that blocks on a channel while it holds that
// mutex stops everybody who needs the mutex to make the channel ready (the consumer must lock to free a slot, but is the one
// who empties the workers' output): a three-way deadlock once the buffer is large enough. Decided on the must-held lockset: no
// channel send, receive, select without default or range over a channel with a mutex held. (sync.Cond.Wait releases its lock
// and is not a channel operation.)
func ruleNoBlockingUnderLock(pkgRel string) func(c *Ctx, r *R) {
	return func(c *Ctx, r *R) {
		n := 0
		fns := c.funcsOfPkg(pkgRel)
		sort.Slice(fns, func(i, j int) bool { return c.nameOf(fns[i]) < c.nameOf(fns[j]) })
		for _, fn := range fns {
			if fn.Blocks == nil {
				continue
			}
			hasLock := false
			instrs(fn, func(_ *ssa.BasicBlock, _ int, in ssa.Instruction) {
				if call, ok := in.(*ssa.Call); ok {
					if m, op := lockEvent(&call.Call); m != "" && (op == "Lock" || op == "RLock") {
						hasLock = true
					}
				}
			})
			if !hasLock {
				continue
			}
			n++
			locks := locksIn(fn, entryLocks(c, fn, 0))
			var bad ssa.Instruction
			what := ""
			instrs(fn, func(_ *ssa.BasicBlock, _ int, in ssa.Instruction) {
				if bad != nil {
					return
				}
				kind := ""
				switch x := in.(type) {
				case *ssa.Send:
					kind = "send on " + path(x.Chan)
				case *ssa.UnOp:
					if x.Op == token.ARROW {
						kind = "receive from " + path(x.X)
					}
				case *ssa.Select:
					if x.Blocking {
						kind = "blocking select"
					}
				case *ssa.Next:
					if _, isChan := x.Iter.Type().Underlying().(*types.Chan); isChan {
						kind = "range over a channel"
					}
				}
				if kind == "" {
					return
				}
				if held := locks[in]; len(held) > 0 {
					bad, what = in, kind+" with "+held.String()+" held"
				}
			})
			key := c.nameOf(fn) + "|no-channel-op-under-lock"
			if bad != nil {
				r.violated(key, posOf(bad), what+": whoever must take that mutex before the channel can become ready (the consumer frees a slot under it, and is the one who drains the workers) is locked out - a deadlock once enough items are in flight")
			} else {
				r.discharged(key, fn.Pos(), "no channel operation while a mutex is held")
			}
		}
		if n == 0 {
			r.undecided(pkgRel+"|lockers", token.NoPos, "no function of "+pkgRel+" takes a lock")
		}
	}
}

var _ = late(func() {
	properties["C14"].Rules = append(properties["C14"].Rules,
		&Rule{ID: "C14.no-blocking-under-lock", Floor: 2, Clause: "no function of parallel performs a blocking channel operation (send, receive, select without default, range) while it holds a mutex: MapIterator's dispatcher releases mapIterator.m before it hands the item to a worker", Run: ruleNoBlockingUnderLock("parallel")})
})

var _ = late(func() {
	// C09-r8m2: the goroutine that owns the source reads it under the caller's context instead of the one Close cancels: Close
	// can no longer interrupt a reader blocked in the source's Next, and that reader is the only one who closes the source
	properties["C09"].Rules = append(properties["C09"].Rules,
		&Rule{ID: "C09.owner-ctx", Floor: 6, Clause: "same rule as C11/C12/C14.bg-ctx restricted to the context arguments: inside the goroutines of BatchFunc, Merge and MapStream every call - in particular the owned source's Next - is given the context that the returned stream's Close cancels; under any other context Close cannot stop the goroutine that is the only one to close the source",
			Run: subRule(func(c *Ctx, r *R) { ruleBgCtx(c, r, "stream.BatchFunc", "stream.Merge", "parallel.MapStream") }, "|ctx-arg|")})
})

// root-replacement (C02-r8m1): a cursor recognises a node that has left the tree by n == 0 (lost() compares its slot with n).
// Wherever the tree's root pointer is replaced, the node that was the root either stays in the tree (it becomes a child of the
// new root: a split) or is known to hold nothing (n == 0: the last merge below an emptied root). A root dropped with its keys
// still in place lets an iterator parked in it yield a deleted key - paired with a stale value - and then end early.
func ruleRootReplacement(c *Ctx, r *R) {
	n := 0
	for _, fn := range c.funcsOfPkg(treeRel) {
		if fn.Blocks == nil || fn.Signature.Recv() == nil {
			continue
		}
		k := 0
		instrs(fn, func(b *ssa.BasicBlock, _ int, in ssa.Instruction) {
			st, ok := in.(*ssa.Store)
			if !ok {
				return
			}
			fa, ok := st.Addr.(*ssa.FieldAddr)
			if !ok || fieldName(fa.X.Type(), fa.Field) != "root" || !isNamedTypeDeep(fa.X.Type(), treeRel, "btree") {
				return
			}
			if _, fresh := fa.X.(*ssa.Alloc); fresh {
				return // the constructor
			}
			n++
			k++
			key := c.nameOf(fn) + "|root-store#" + itoa(k)
			rootPath := path(fa.X) + ".root"
			// who was the root: values known equal to t.root here, and t.root itself
			var olds []string
			olds = append(olds, rootPath)
			var gs []guard
			gs = append(gs, guardsOf(b)...)
			for _, g := range gs {
				if cf, ok := g.asCmp(); ok && cf.op == token.EQL {
					if path(cf.x) == rootPath {
						olds = append(olds, path(cf.y))
					} else if path(cf.y) == rootPath {
						olds = append(olds, path(cf.x))
					}
				}
			}
			// the store lives in an unexported helper (growRoot(left, right, …)): a parameter that every caller hands the node
			// it has just found to be the root
			if !token.IsExported(fn.Name()) {
				sites := callSitesOf(c, fn)
				for pi, p := range fn.Params {
					if pi == 0 || len(sites) == 0 {
						continue
					}
					all := true
					for _, site := range sites {
						if pi >= len(site.Call.Args) {
							all = false
							break
						}
						callerRoot := path(site.Call.Args[0]) + ".root"
						ap := path(site.Call.Args[pi])
						hit := false
						for _, g := range guardsOf(site.Block()) {
							if cf, ok := g.asCmp(); ok && cf.op == token.EQL {
								if (path(cf.x) == callerRoot && path(cf.y) == ap) || (path(cf.y) == callerRoot && path(cf.x) == ap) {
									hit = true
								}
							}
						}
						if !hit {
							all = false
						}
					}
					if all {
						olds = append(olds, path(p))
					}
				}
			}
			newRoot := path(resolveVal(st.Val))
			good := false
			why := ""
			for _, o := range olds {
				// (b) known empty
				for _, g := range gs {
					if cf, ok := g.asCmp(); ok && cf.op == token.EQL && isConstInt(cf.y, 0) && path(cf.x) == o+".n" {
						good, why = true, o+" is the old root and has n == 0"
					}
				}
				// (a) kept as a child of the new root
				instrs(fn, func(_ *ssa.BasicBlock, _ int, in2 ssa.Instruction) {
					st2, ok := in2.(*ssa.Store)
					if !ok || path(st2.Val) != o {
						return
					}
					if ap := path(st2.Addr); strings.HasPrefix(ap, newRoot+".children[") || strings.HasPrefix(ap, "&"+newRoot+".children[") {
						good, why = true, o+" is the old root and becomes a child of the new one"
					}
				})
			}
			if good {
				r.discharged(key, st.Pos(), why)
			} else {
				r.violated(key, st.Pos(), "the root is replaced while the node that was the root neither stays in the tree (as a child of the new root) nor is known to be empty (n == 0): cursors tell an unlinked node by n == 0, so an iterator parked in the dropped root keeps yielding from it - a key that was deleted, with a stale value - and then reports the end without seeing what was put since")
			}
		})
	}
	if n == 0 {
		r.undecided("tree|root-stores", token.NoPos, "no store to btree.root found")
	}
}

var _ = late(func() {
	properties["C02"].Rules = append(properties["C02"].Rules,
		&Rule{ID: "C02.root-replacement", Floor: 2, Clause: "wherever btree.root is replaced, the previous root stays in the tree as a child of the new root or is known to have n == 0: no node leaves the tree with entries still in it (lost() recognises unlinked nodes by n == 0)", Run: ruleRootReplacement})
	properties["C01"].Rules = append(properties["C01"].Rules,
		&Rule{ID: "C01.root-replacement", Floor: 2, Clause: "same rule as C02.root-replacement: a range iterator parked in a dropped root would yield entries that are no longer in the map", Run: ruleRootReplacement})
})

// arm-once (C15-r8m2): an iterator that takes its snapshot on the first Next tells "not started yet" by one of its fields
// holding a sentinel (gen == -1, inner == nil). Next never writes that sentinel back: an iterator that puts itself back
// into the not-started state when it is exhausted takes a NEW snapshot on the following call - on an unchanged container
// it yields everything a second time, on a changed one it yields the new contents instead of panicking.
func ruleArmOnce(c *Ctx, r *R) {
	n := 0
	for _, name := range []string{"internal/heap.heapIterator.Next", "container/deque.dequeIterator.Next"} {
		fn := c.fn(name)
		if fn == nil {
			continue
		}
		recv := fn.Params[0]
		// arming stores: the container's generation copied into the iterator
		type sentinel struct {
			field string
			k     *ssa.Const
		}
		var sens []sentinel
		for _, d := range deepInstrs(fn, 2) {
			st, ok := d.in.(*ssa.Store)
			if !ok {
				continue
			}
			fa, ok := st.Addr.(*ssa.FieldAddr)
			if !ok || argOf(fa.X, d.calls) != ssa.Value(recv) {
				continue
			}
			ld, ok := st.Val.(*ssa.UnOp)
			if !ok || ld.Op != token.MUL {
				continue
			}
			if fa2, ok := ld.X.(*ssa.FieldAddr); !ok || fieldName(fa2.X.Type(), fa2.Field) != "gen" || fa2.X == fa.X {
				continue
			}
			// the test that leads here: a field of the iterator against a constant
			for _, g := range guardsOf(st.Block()) {
				cf, ok := g.asCmp()
				if !ok || cf.op != token.EQL {
					continue
				}
				k, isK := cf.y.(*ssa.Const)
				if !isK {
					continue
				}
				if fl, ok := cf.x.(*ssa.UnOp); ok && fl.Op == token.MUL {
					if fa3, ok := fl.X.(*ssa.FieldAddr); ok && argOf(fa3.X, d.calls) == ssa.Value(recv) {
						sens = append(sens, sentinel{fieldName(fa3.X.Type(), fa3.Field), k})
					}
				}
			}
		}
		if len(sens) == 0 {
			n++
			r.discharged(name+"|arm-once|eager", fn.Pos(), "the snapshot is not taken lazily under a sentinel test: there is no not-started state to fall back into")
		}
		for _, sn := range sens {
			n++
			var bad *ssa.Store
			for _, d := range deepInstrs(fn, 2) {
				st, ok := d.in.(*ssa.Store)
				if !ok {
					continue
				}
				fa, ok := st.Addr.(*ssa.FieldAddr)
				if !ok || argOf(fa.X, d.calls) != ssa.Value(recv) || fieldName(fa.X.Type(), fa.Field) != sn.field {
					continue
				}
				k, isK := st.Val.(*ssa.Const)
				if !isK {
					continue
				}
				same := (k.Value == nil && sn.k.Value == nil) || (k.Value != nil && sn.k.Value != nil && k.Value.String() == sn.k.Value.String())
				if same && bad == nil {
					bad = st
				}
			}
			key := name + "|arm-once|" + sn.field
			if bad != nil {
				r.violated(key, bad.Pos(), "Next writes the not-started sentinel back into "+sn.field+": the following call takes a new snapshot and starts over - every element is yielded again, or the contents of a container that was changed in between are yielded instead of the panic")
			} else {
				r.discharged(key, fn.Pos(), "the not-started sentinel of "+sn.field+" is never written by Next")
			}
		}
	}
	if n == 0 {
		r.undecided("iterators|arm-once", token.NoPos, "neither heapIterator.Next nor dequeIterator.Next found")
	}
}

var _ = late(func() {
	properties["C15"].Rules = append(properties["C15"].Rules,
		&Rule{ID: "C15.arm-once", Floor: 1, Clause: "an iterator that snapshots the generation on its first Next under a sentinel test (heapIterator: gen == -1) never stores that sentinel again in Next: it cannot return to the not-started state, so an exhausted iterator stays exhausted (or panics) and never silently starts over on new contents", Run: ruleArmOnce})
})

// recv-channel-fixed (C07-r8m3): a stream / iterator over a channel reports the end when the channel is closed, and a closed
// channel stays closed: every later receive reports it again, which is what makes the end sticky. A Next that replaces the
// channel field it receives from (s.c = nil "because nothing more will arrive") turns the following Next into a receive from a
// nil channel, which blocks until the context expires - or for ever.
func ruleRecvChannelFixed(c *Ctx, r *R) {
	n := 0
	for _, rel := range []string{"iterator", "stream"} {
		fns := c.funcsOfPkg(rel)
		sort.Slice(fns, func(i, j int) bool { return c.nameOf(fns[i]) < c.nameOf(fns[j]) })
		for _, fn := range fns {
			if fn.Parent() != nil || fn.Blocks == nil || fn.Signature.Recv() == nil || fname(fn) != "Next" {
				continue
			}
			recv := fn.Params[0]
			fields := map[string]bool{}
			note := func(ch ssa.Value) {
				if ld, ok := ch.(*ssa.UnOp); ok && ld.Op == token.MUL {
					if fa, ok := ld.X.(*ssa.FieldAddr); ok && fa.X == ssa.Value(recv) {
						fields[fieldName(fa.X.Type(), fa.Field)] = true
					}
				}
			}
			instrs(fn, func(_ *ssa.BasicBlock, _ int, in ssa.Instruction) {
				switch x := in.(type) {
				case *ssa.UnOp:
					if x.Op == token.ARROW {
						note(x.X)
					}
				case *ssa.Select:
					for _, st := range x.States {
						if st.Dir == types.RecvOnly {
							note(st.Chan)
						}
					}
				}
			})
			var names []string
			for f := range fields {
				names = append(names, f)
			}
			sort.Strings(names)
			for _, f := range names {
				n++
				var bad *ssa.Store
				// any method of the same receiver type
				for _, g := range fns {
					if g.Signature.Recv() == nil || g.Blocks == nil || !types.Identical(origType(derefType(g.Signature.Recv().Type())), origType(derefType(fn.Signature.Recv().Type()))) {
						continue
					}
					instrs(g, func(_ *ssa.BasicBlock, _ int, in ssa.Instruction) {
						st, ok := in.(*ssa.Store)
						if !ok {
							return
						}
						if fa, ok := st.Addr.(*ssa.FieldAddr); ok && fa.X == ssa.Value(g.Params[0]) && fieldName(fa.X.Type(), fa.Field) == f && bad == nil {
							bad = st
						}
					})
				}
				key := c.nameOf(fn) + "|recv-channel|" + f
				if bad != nil {
					r.violated(key, bad.Pos(), "the channel field "+f+" that Next receives from is reassigned by a method of the stream: after the end was reported the next receive is from a different (nil) channel and blocks instead of reporting the end again")
				} else {
					r.discharged(key, fn.Pos(), "the channel Next receives from is fixed at construction")
				}
			}
		}
	}
	if n == 0 {
		r.undecided("iterator,stream|recv-channels", token.NoPos, "no Next method receives from a channel field")
	}
}

var _ = late(func() {
	properties["C07"].Rules = append(properties["C07"].Rules,
		&Rule{ID: "C07.recv-channel-fixed", Floor: 3, Clause: "a channel field that a Next method of iterator / stream receives from is assigned at construction only: the closed channel that made Next report the end is still the one the following Next receives from, so the end is reported again", Run: ruleRecvChannelFixed})
})

// total-map-builders (C19-r8m2): xmaps functions that build their result by ranging over the input and storing into the
// result map promise something about EVERY entry of the input ("all values of m are keys of the result"). The loop around
// the store therefore has one exit - the end of the range - and every round reaches the store: a return or break from the
// middle (on the first duplicate, say) leaves the entries not yet visited out of the result, in map iteration order.
func ruleTotalMapBuilders(c *Ctx, r *R) {
	n := 0
	fns := c.funcsOfPkg("xmaps")
	sort.Slice(fns, func(i, j int) bool { return c.nameOf(fns[i]) < c.nameOf(fns[j]) })
	for _, fn := range fns {
		if fn.Parent() != nil || fn.Blocks == nil || !token.IsExported(fn.Name()) {
			continue
		}
		// results that are maps made in the function
		made := map[ssa.Value]bool{}
		instrs(fn, func(_ *ssa.BasicBlock, _ int, in ssa.Instruction) {
			if ret, ok := in.(*ssa.Return); ok {
				for i := range ret.Results {
					if mk, ok := resolveVal(returnedValue(ret, i)).(*ssa.MakeMap); ok {
						made[mk] = true
					}
				}
			}
		})
		if len(made) == 0 {
			continue
		}
		k := 0
		instrs(fn, func(ub *ssa.BasicBlock, _ int, in ssa.Instruction) {
			mu, ok := in.(*ssa.MapUpdate)
			if !ok || !made[resolveVal(mu.Map)] || !reaches(ub, ub) {
				return
			}
			// the innermost loop around the store that ranges over a parameter: the blocks on a cycle with the store
			var loop []*ssa.BasicBlock
			inLoop := map[*ssa.BasicBlock]bool{}
			for _, b := range fn.Blocks {
				if b == ub || (reaches(b, ub) && reaches(ub, b)) {
					loop = append(loop, b)
					inLoop[b] = true
				}
			}
			var header *ssa.BasicBlock
			for _, b := range loop {
				dom := true
				for _, o := range loop {
					if !b.Dominates(o) {
						dom = false
					}
				}
				if dom {
					header = b
				}
			}
			if header == nil {
				return
			}
			// an outer loop over the input with an inner loop (Reverse: for k, v := range m { result[v] = append(...) }) is one loop
			// here; nested ranges (a loop over several maps) make the outer header the header: exits of inner headers are
			// exits to the outer body, which is inside the set
			k++
			n++
			key := c.nameOf(fn) + "|total-loop#" + itoa(k)
			var early *ssa.BasicBlock
			for _, b := range loop {
				for _, s := range b.Succs {
					if !inLoop[s] && b != header && early == nil {
						early = b
					}
				}
			}
			if early != nil {
				pos := fn.Pos()
				if len(early.Instrs) > 0 {
					pos = posOf(early.Instrs[len(early.Instrs)-1])
				}
				r.violated(key, pos, "the loop that fills the result is left from its middle (a return / break before the input is exhausted): the entries not yet visited are missing from the result, although every entry of the input must be represented in it")
				return
			}
			r.discharged(key, mu.Pos(), "the loop ends only when the input is exhausted")
		})
	}
	if n == 0 {
		r.undecided("xmaps|builders", token.NoPos, "no map-building loop found in xmaps")
	}
}

var _ = late(func() {
	properties["C19"].Rules = append(properties["C19"].Rules,
		&Rule{ID: "C19.total-map-builders", Floor: 3, Clause: "in the exported functions of xmaps that return a map they make and fill in a loop, that loop is left only at its head (input exhausted): no return or break from the middle, so every entry of the input is represented in the result (ReverseSingle keeps one key for EVERY value even when it reports duplicates)", Run: ruleTotalMapBuilders})
})

// const-index-guarded (C12-r8m2): chans.Merge dispatches on the number of inputs and then names them in[0], in[1], ...; each
// such constant index is covered by a test of len(in) on the way that makes the slice long enough (len(in) == 1 before in[0];
// `len(in) <= 1` is not one: zero inputs get there too and in[0] panics instead of returning at once).
func ruleConstIndexGuarded(c *Ctx, r *R) {
	n := 0
	for _, name := range []string{"chans.Merge", "stream.Merge"} {
		root := c.fn(name)
		if root == nil {
			r.undecided(name+"|missing", token.NoPos, "anchor not found")
			continue
		}
		for _, fn := range withAnon(root) {
			k := 0
			instrs(fn, func(b *ssa.BasicBlock, _ int, in ssa.Instruction) {
				ia, ok := in.(*ssa.IndexAddr)
				if !ok {
					return
				}
				idx, isK := ia.Index.(*ssa.Const)
				if !isK || idx.Value == nil {
					return
				}
				base := resolveVal(ia.X)
				p, isParam := base.(*ssa.Parameter)
				if !isParam || rootFn(p.Parent()) != root {
					return
				}
				if _, isSlice := p.Type().Underlying().(*types.Slice); !isSlice {
					return
				}
				ki := int(idx.Int64())
				k++
				n++
				// lower bound on len(p) from the guards that dominate the access
				lo := 0
				for _, g := range guardsOf(b) {
					cf, ok := g.asCmp()
					if !ok {
						continue
					}
					x, y, op := cf.x, cf.y, cf.op
					if !isLenOf(x, p) && isLenOf(y, p) {
						x, y, op = y, x, flipCmp(op)
					}
					kc, isK := y.(*ssa.Const)
					if !isLenOf(x, p) || !isK || kc.Value == nil {
						continue
					}
					cv := int(kc.Int64())
					switch op {
					case token.EQL, token.GEQ:
						if cv > lo {
							lo = cv
						}
					case token.GTR:
						if cv+1 > lo {
							lo = cv + 1
						}
					case token.NEQ:
						if cv == 0 && lo < 1 {
							lo = 1
						}
					}
				}
				r.ok(lo > ki, c.nameOf(fn)+"|"+p.Name()+"["+itoa(ki)+"]#"+itoa(k), ia.Pos(), p.Name()+"["+itoa(ki)+"] is reached with only len("+p.Name()+") >= "+itoa(lo)+" established: with fewer inputs (none at all) it panics instead of finishing at once")
			})
		}
	}
	if n == 0 {
		r.undecided("chans.Merge|const-indexes", token.NoPos, "no constant index into the inputs found")
	}
}

var _ = late(func() {
	properties["C12"].Rules = append(properties["C12"].Rules,
		&Rule{ID: "C12.const-index-guarded", Floor: 5, Clause: "every constant index into the variadic inputs of chans.Merge / stream.Merge (in[0] … in[2]) is dominated by a test of len(in) that guarantees that many inputs: Merge with zero inputs returns at once and never indexes", Run: ruleConstIndexGuarded})
})

// send-failure-exits (C12-r8m3): a Merge worker whose Send to the output fails (the output was closed, or the shared context
// ended) has nobody left to deliver to and leaves its loop there and then. Going round again relies on the INPUT noticing the
// cancelled context; an input that always has a value ready and never looks at the context keeps the worker spinning, and
// Close of the merged stream waits for it for ever.
func ruleSendFailureExits(c *Ctx, r *R) {
	bi := bgAnalyse(c, "stream.Merge")
	if bi == nil {
		r.undecided("stream.Merge|missing", token.NoPos, "anchor not found")
		return
	}
	n := 0
	for _, g := range bi.all {
		for _, d := range deepInstrs(g, 2) {
			call, ok := d.in.(*ssa.Call)
			if !ok {
				continue
			}
			cal := staticCallee(&call.Call)
			if cal == nil || fname(cal) != "Send" || cal.Signature.Results().Len() != 1 || !isErrorType(cal.Signature.Results().At(0).Type()) {
				continue
			}
			if !reaches(call.Block(), call.Block()) {
				continue // not in a loop
			}
			n++
			key := c.nameOf(g) + "|send-failure#" + itoa(n)
			// the branch on the result
			var failSucc *ssa.BasicBlock
			tested := false
			for _, b := range call.Parent().Blocks {
				iff, ok := b.Instrs[len(b.Instrs)-1].(*ssa.If)
				if !ok {
					continue
				}
				cond, neg := ssa.Value(iff.Cond), false
				for {
					if u, ok := cond.(*ssa.UnOp); ok && u.Op == token.NOT {
						cond, neg = u.X, !neg
						continue
					}
					break
				}
				bo, ok := cond.(*ssa.BinOp)
				if !ok || (bo.Op != token.NEQ && bo.Op != token.EQL) {
					continue
				}
				var other ssa.Value
				if resolveVal(bo.X) == ssa.Value(call) {
					other = bo.Y
				} else if resolveVal(bo.Y) == ssa.Value(call) {
					other = bo.X
				} else {
					continue
				}
				if !isNilConst(other) {
					continue
				}
				tested = true
				failIdx := 0
				if (bo.Op == token.EQL) != neg {
					failIdx = 1
				}
				failSucc = b.Succs[failIdx]
			}
			if !tested {
				r.violated(key, call.Pos(), "the result of Send decides nothing (it is not tested, or both outcomes continue the loop): after a failed delivery the worker keeps pulling from its input, and whether it ever stops depends on that input noticing the cancelled context")
				continue
			}
			again := failSucc == call.Block() || reaches(failSucc, call.Block())
			r.ok(!again, key, call.Pos(), "after a failed Send the worker can come round to sending again: nobody is left to deliver to, and whether the worker ever stops depends on its input noticing the cancelled context - an input that never blocks keeps it spinning and Close of the merged stream never returns")
		}
	}
	if n == 0 {
		r.undecided("stream.Merge|sends", token.NoPos, "no Send in a worker loop found")
	}
}

var _ = late(func() {
	properties["C12"].Rules = append(properties["C12"].Rules,
		&Rule{ID: "C12.send-failure-exits", Floor: 1, Clause: "in stream.Merge's workers the branch taken when sender.Send fails leaves the loop (it cannot reach the Send again): after the output has been closed the goroutines finish without needing further input", Run: ruleSendFailureExits})
})

func isErrorType(t types.Type) bool {
	nt, ok := t.(*types.Named)
	return ok && nt.Obj().Pkg() == nil && nt.Obj().Name() == "error"
}

// isComparatorValue: v is the tree's comparator - the field btree.compare (by path), or a func parameter of an unexported
// function of the tree package to which every call site hands the comparator (searchNode(t.compare, k, x)).
func isComparatorValue(v ssa.Value) bool {
	p := path(v)
	if strings.HasSuffix(p, ".compare") {
		return true
	}
	prm, ok := v.(*ssa.Parameter)
	if !ok || curCtx == nil || prm.Parent() == nil || token.IsExported(prm.Parent().Name()) {
		return false
	}
	if _, isSig := prm.Type().Underlying().(*types.Signature); !isSig {
		return false
	}
	fn := prm.Parent()
	idx := paramIndex(prm)
	sites := callSitesOf(curCtx, fn)
	if len(sites) == 0 {
		return false
	}
	for _, site := range sites {
		if idx >= len(site.Call.Args) {
			return false
		}
		a := site.Call.Args[idx]
		if a == v {
			continue // recursion
		}
		if !strings.HasSuffix(path(a), ".compare") {
			return false
		}
	}
	return true
}

// wrapStep: the store moves ring index field f one slot with an explicit compare-and-wrap instead of a modulo:
//
//	if F == 0 { F = len(a)-1 } else { F = F-1 }          (dir -1)
//	if F == len(a)-1 { F = 0 } else { F = F+1 }          (dir +1)
//	F = F+1; if F == len(a) { F = 0 }                    (dir +1)
//
// Given 0 <= F < len(a) before (the invariant index-discipline maintains inductively: every other store is a constant, the other
// end or a reduced value), each of these leaves F inside the buffer. ok is false when the store is none of them.
func wrapStep(st *ssa.Store, f string) (dir int, ok bool) {
	isF := func(v ssa.Value) bool {
		ld, ok := v.(*ssa.UnOp)
		if !ok || ld.Op != token.MUL {
			return false
		}
		fa, ok := ld.X.(*ssa.FieldAddr)
		return ok && fieldName(fa.X.Type(), fa.Field) == f
	}
	isLenA := func(v ssa.Value) bool {
		e := symOf(v, provEnv{})
		return e != nil && e.op == "len" && len(e.args) == 1 && e.args[0].fieldSuffix("a")
	}
	isLenAMinus1 := func(v ssa.Value) bool {
		bo, ok := v.(*ssa.BinOp)
		return ok && bo.Op == token.SUB && isLenA(bo.X) && isConstInt(bo.Y, 1)
	}
	guarded := func(op token.Token, rhs func(ssa.Value) bool) bool {
		for _, g := range guardsOf(st.Block()) {
			if cf, ok := g.asCmp(); ok && cf.op == op {
				if isF(cf.x) && rhs(cf.y) {
					return true
				}
				if isF(cf.y) && rhs(cf.x) {
					return true
				}
			}
		}
		return false
	}
	isZero := func(v ssa.Value) bool { return isConstInt(v, 0) }
	switch x := st.Val.(type) {
	case *ssa.Const:
		if isConstInt(x, 0) && guarded(token.EQL, isLenAMinus1) {
			return +1, true
		}
		// the fix-up after an unguarded F = F+1: under F == len(a)
		if isConstInt(x, 0) && guarded(token.EQL, isLenA) {
			return +1, true
		}
	case *ssa.BinOp:
		switch {
		case x.Op == token.SUB && isF(x.X) && isConstInt(x.Y, 1):
			if guarded(token.NEQ, isZero) {
				return -1, true
			}
		case x.Op == token.SUB && isLenA(x.X) && isConstInt(x.Y, 1):
			if guarded(token.EQL, isZero) {
				return -1, true
			}
		case x.Op == token.ADD && isF(x.X) && isConstInt(x.Y, 1):
			if guarded(token.NEQ, isLenAMinus1) {
				return +1, true
			}
			// F = F+1 followed at once by `if F == len(a) { F = 0 }`: the block ends in that test and its true branch stores 0
			b := st.Block()
			iff, isIf := b.Instrs[len(b.Instrs)-1].(*ssa.If)
			if !isIf {
				return 0, false
			}
			// nothing between the store and the test reads the buffer through F
			for i := idxIn(st) + 1; i < len(b.Instrs)-1; i++ {
				switch y := b.Instrs[i].(type) {
				case *ssa.IndexAddr, *ssa.Store:
					return 0, false
				case *ssa.Call:
					if bi, isB := y.Call.Value.(*ssa.Builtin); !isB || bi.Name() != "len" {
						return 0, false
					}
				}
			}
			cf, okc := (guard{cond: iff.Cond, val: true}).asCmp()
			if !okc || cf.op != token.EQL || !((isF(cf.x) && isLenA(cf.y)) || (isF(cf.y) && isLenA(cf.x))) {
				return 0, false
			}
			fixed := false
			for _, in := range b.Succs[0].Instrs {
				if s2, ok := in.(*ssa.Store); ok && isConstInt(s2.Val, 0) {
					if fa, ok := s2.Addr.(*ssa.FieldAddr); ok && fieldName(fa.X.Type(), fa.Field) == f {
						fixed = true
					}
				}
			}
			if fixed {
				return +1, true
			}
		}
	}
	return 0, false
}

// feasibleAlternatives: what v can be when control is in block at. A merge (phi) whose block also merges a boolean flag from
// constants, with a test of that flag on the way to at, keeps only the alternatives that arrive over edges on which the flag
// has the tested value (item and received are assigned together in the arms; under `if received` only those arms count).
func feasibleAlternatives(v ssa.Value, at *ssa.BasicBlock) []ssa.Value {
	phi, ok := v.(*ssa.Phi)
	if !ok {
		return []ssa.Value{v}
	}
	keep := make([]bool, len(phi.Edges))
	for i := range keep {
		keep[i] = true
	}
	for _, g := range guardsOf(at) {
		fv, val := g.boolVal()
		fp, ok := fv.(*ssa.Phi)
		if !ok || fp.Block() != phi.Block() || len(fp.Edges) != len(phi.Edges) {
			continue
		}
		for i, e := range fp.Edges {
			if k, isK := e.(*ssa.Const); isK && k.Value != nil && k.Value.Kind() == constant.Bool && constant.BoolVal(k.Value) != val {
				keep[i] = false
			}
		}
	}
	var out []ssa.Value
	for i, e := range phi.Edges {
		if !keep[i] || e == ssa.Value(phi) {
			continue
		}
		if p2, isPhi := e.(*ssa.Phi); isPhi {
			// a nested merge (the inner select's join): its own alternatives, correlated with the flag merged alongside it
			// when the outer flag alternative on this edge is that flag
			out = append(out, nestedAlternatives(p2, phi, i, at)...)
			continue
		}
		out = append(out, e)
	}
	return out
}

// nestedAlternatives: edge #i of the outer merge is itself a merge; the flag that travels with it on the same edge (the flag
// phi's edge #i, a merge in the same inner block) selects among its alternatives in the same way.
func nestedAlternatives(inner *ssa.Phi, outer *ssa.Phi, i int, at *ssa.BasicBlock) []ssa.Value {
	keep := make([]bool, len(inner.Edges))
	for k := range keep {
		keep[k] = true
	}
	for _, g := range guardsOf(at) {
		fv, val := g.boolVal()
		fp, ok := fv.(*ssa.Phi)
		if !ok || fp.Block() != outer.Block() || i >= len(fp.Edges) {
			continue
		}
		ifp, ok := fp.Edges[i].(*ssa.Phi)
		if !ok || ifp.Block() != inner.Block() || len(ifp.Edges) != len(inner.Edges) {
			continue
		}
		for k, e := range ifp.Edges {
			if kc, isK := e.(*ssa.Const); isK && kc.Value != nil && kc.Value.Kind() == constant.Bool && constant.BoolVal(kc.Value) != val {
				keep[k] = false
			}
		}
	}
	var out []ssa.Value
	for k, e := range inner.Edges {
		if keep[k] && e != ssa.Value(inner) {
			out = append(out, e)
		}
	}
	return out
}
