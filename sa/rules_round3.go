package main

import (
	"go/constant"
	"go/token"
	"go/types"
	"sort"
	"strings"

	"golang.org/x/tools/go/ssa"
)

// Rules added after the third round of seeded mutations (see DESIGN.md §8): each closes a structural clause that an earlier
// rule set did not look at. Registered late so that they extend the properties' rule lists.

// subRule runs an existing rule and keeps only the obligations whose construct key contains one of the substrings.
func subRule(run func(*Ctx, *R), keep ...string) func(*Ctx, *R) {
	return func(c *Ctx, r *R) {
		sub := &R{rule: r.rule, c: c}
		run(c, sub)
		for _, o := range sub.obs {
			for _, k := range keep {
				if strings.Contains(o.Key, k) {
					r.obs = append(r.obs, o)
					break
				}
			}
		}
	}
}

var _ = late(func() {
	// ---- C10 ------------------------------------------------------------------------------------------------------------
	properties["C10"].Rules = append(properties["C10"].Rules, &Rule{ID: "C10.no-discarded-recv", Floor: 1,
		Clause: "a value that the pipe's receiver took off the data channel is returned on every path that follows (same rule as C08.no-discarded-pull, for pipeStream.Next): a later test that returns an error instead drops a value whose Send already reported success",
		Run:    subRule(func(c *Ctx, r *R) { ruleNoDiscardedPull(c, r, "stream") }, "pipeStream")})

	// ---- C12 ------------------------------------------------------------------------------------------------------------
	properties["C12"].Rules = append(properties["C12"].Rules,
		&Rule{ID: "C12.err-propagate", Floor: 1,
			Clause: "in stream.Merge's workers an error returned by an input is delivered to the sender (or is End / lost the first-error race) on every path (same rule as C08.err-propagate restricted to Merge): a worker that treats some other error value as a clean end hides the only error",
			Run: func(c *Ctx, r *R) {
				// Merge's workers: its function literals and the unexported helpers they delegate to (m.forward(i))
				keep := []string{"stream.Merge"}
				if bi := bgAnalyse(c, "stream.Merge"); bi != nil {
					for _, f := range bi.all {
						if f.Parent() == nil {
							keep = append(keep, c.nameOf(f)+"|")
						}
					}
				}
				subRule(ruleErrPropagate, keep...)(c, r)
			}},
		&Rule{ID: "C12.who-may-cancel", Floor: 2,
			Clause: "the merged stream's internal context is cancelled only by mergeStream.Close and by the worker that won the first-error race: a cancel anywhere else (e.g. in Next when the caller's context expired) kills a stream that is still live",
			Run:    ruleMergeWhoMayCancel},
		&Rule{ID: "C12.replicate-until-closed", Floor: 1,
			Clause: "chans.Replicate returns only after it observed src closed (typestate over its returns): an early return leaves the producer blocked on its next send",
			Run:    ruleReplicateUntilClosed})

	// ---- C18 / C20 ------------------------------------------------------------------------------------------------------
	properties["C18"].Rules = append(properties["C18"].Rules, &Rule{ID: "C18.ctx-arm-returns-err", Floor: 1,
		Clause: "in xsync every return inside the <-ctx.Done() arm of a select (ContextCond.Wait, Future.WaitContext) yields ctx.Err() evaluated in that arm: a nil or stale error reports a wait that never completed as a success",
		Run:    func(c *Ctx, r *R) { ruleCtxArmReturnsErr(c, r, "xsync") }})
	properties["C10"].Rules = append(properties["C10"].Rules, &Rule{ID: "C10.ctx-arm-returns-err", Floor: 2,
		Clause: "in stream and chans every return inside the <-ctx.Done() arm of a select yields ctx.Err() evaluated in that arm (Send / Next report the expiry of their own context, not success and not another error)",
		Run:    func(c *Ctx, r *R) { ruleCtxArmReturnsErr(c, r, "stream", "chans") }})
	properties["C18"].Rules = append(properties["C18"].Rules, &Rule{ID: "C18.ctx-interruptible", Floor: 1,
		Clause: "every function of xsync that takes a context can be interrupted by it wherever it blocks: blocking channel operations are selects with a ctx.Done() arm, and it calls neither time.Sleep nor a context-less blocking helper (f.Wait() inside WaitContext)",
		Run:    func(c *Ctx, r *R) { ruleCtxArmIn(c, r, "xsync") }})
	properties["C20"].Rules = append(properties["C20"].Rules,
		&Rule{ID: "C20.ctx-interruptible", Floor: 1,
			Clause: "SleepContext (every context-taking function of xtime) blocks only in selects that have a ctx.Done() arm; no time.Sleep, no context-less blocking helper",
			Run:    func(c *Ctx, r *R) { ruleCtxArmIn(c, r, "xtime") }},
		&Rule{ID: "C20.rearm-gated", Floor: 1,
			Clause: "the timer callback re-arms the ticker (calls schedule) only under the same generation test that gates the tick: a stale callback that re-arms restarts a ticker after Stop",
			Run:    ruleRearmGated},
		&Rule{ID: "C20.nilable-timer", Floor: 2,
			Clause: "JitterTicker.timer is set to nil by Stop, so every method call through it is dominated by a t.timer != nil test or by a store of a fresh timer in the same function (contradiction rule: checked somewhere ⇒ checked everywhere)",
			Run:    ruleNilableTimer})

	// ---- C19 ------------------------------------------------------------------------------------------------------------
	properties["C19"].Rules = append(properties["C19"].Rules, &Rule{ID: "C19.merge-source-tag", Floor: 2,
		Clause: "xsort.Merge / mergeIterator.Next: the source index stored with an item is the index of the iterator the item was pulled from (same value), so the refill after a Pop asks the right input",
		Run:    ruleMergeSourceTag})

	// ---- C05 ------------------------------------------------------------------------------------------------------------
	properties["C05"].Rules = append(properties["C05"].Rules, &Rule{ID: "C05.capacity-ops-keep-len", Floor: 2,
		Clause: "Heap.Grow / Heap.Shrink change capacity only: what they store into the backing slice is the result of xslices.Grow/Shrink (slices.Grow/Clip) applied to it, or a slice cut back to its old length",
		Run:    ruleHeapCapacityOps})

	// ---- C03 ------------------------------------------------------------------------------------------------------------
	properties["C03"].Rules = append(properties["C03"].Rules,
		&Rule{ID: "C03.root-test-target", Floor: 1,
			Clause: "where a repair (merge / steal) is skipped for the root, the node compared with t.root is the very node handed to the repair",
			Run:    ruleRootTestTarget},
		&Rule{ID: "C03.found-before-descend", Floor: 3,
			Clause: "every descent into children[idx] uses an idx from searchNode whose 'found' result was tested (not found) on the way: a descent past a node that holds the key inserts a duplicate / misses it",
			Run:    ruleFoundBeforeDescend})
	properties["C01"].Rules = append(properties["C01"].Rules,
		&Rule{ID: "C01.found-before-descend", Floor: 3,
			Clause: "same rule as C03.found-before-descend: Put/Get/Delete/cursor never walk past a node that holds the key",
			Run:    ruleFoundBeforeDescend})

	// ---- C11 ------------------------------------------------------------------------------------------------------------
	properties["C11"].Rules = append(properties["C11"].Rules,
		&Rule{ID: "C11.who-may-cancel", Floor: 1,
			Clause: "BatchFunc's background context is cancelled only by batchStream.Close: a goroutine that cancels it (e.g. the reader on a source error) makes the batcher's flush select see Done() and drop the items that are still pending, so the error overtakes them",
			Run:    func(c *Ctx, r *R) { ruleWhoMayCancel(c, r, "stream.BatchFunc", "batchStream", "bgCancel", false) }},
		&Rule{ID: "C11.source-closed", Floor: 1,
			Clause: "the source handed to Batch / BatchFunc is owned by the reader goroutine, which defers its Close in its entry block (same rule as C09.own-param restricted to Batch): Close of the batch stream returns only after the source was closed, on every exit of the reader",
			Run:    subRule(ruleOwnParams, "stream.BatchFunc|", "stream.Batch|")},
		&Rule{ID: "C11.cancel-arm-exits", Floor: 1,
			Clause: "in BatchFunc's goroutines the arm of a blocking select that fires on the cancelled background context leaves the loop (the select is not reachable again from it): a `break` that only leaves the select spins on a source that ignores the context and Close never returns",
			Run:    ruleCancelArmExits},
		&Rule{ID: "C11.stop-drains", Floor: 1,
			Clause: "a timer that is re-armed later is stopped with the Stop-and-drain idiom: the result of timer.Stop() is tested and a false result drains timer.C; a bare Stop() leaves a stale tick that cuts the next batch short",
			Run:    ruleStopDrains})
})

// ---------------------------------------------------------------------------------------------------------------------------

func ruleMergeWhoMayCancel(c *Ctx, r *R) {
	ruleWhoMayCancel(c, r, "stream.Merge", "mergeStream", "cancel", true)
}

// ruleWhoMayCancel: the context that anchor creates for its goroutines is cancelled only by wrapper.Close - and, when
// winnerMayCancel, by the goroutine that won the first-error CAS.
func ruleWhoMayCancel(c *Ctx, r *R, anchor, wrapper, cancelField string, winnerMayCancel bool) {
	pkgRel := anchor[:strings.LastIndex(anchor, ".")]
	bi := bgAnalyse(c, anchor)
	if bi == nil || bi.cancel == nil {
		r.undecided(anchor+"|cancel", token.NoPos, "the cancel function of "+anchor+" not found")
		return
	}
	worker := map[*ssa.Function]bool{}
	for _, f := range bi.all {
		worker[f] = true
	}
	n := 0
	isCancelCall := func(call *ssa.Call) bool {
		if call.Call.IsInvoke() {
			return false
		}
		switch call.Call.Value.(type) {
		case *ssa.Function, *ssa.Builtin, *ssa.MakeClosure:
			return false
		}
		// the captured cancel variable of Merge, or the cancel field of mergeStream
		if ld, ok := call.Call.Value.(*ssa.UnOp); ok && ld.Op == token.MUL {
			if fa, ok := ld.X.(*ssa.FieldAddr); ok && isNamedType(fa.X.Type(), pkgRel, wrapper) && fieldName(fa.X.Type(), fa.Field) == cancelField {
				return true
			}
			// a field of a helper struct built in Merge that was given Merge's cancel function (closer.cancel)
			if fa, ok := ld.X.(*ssa.FieldAddr); ok {
				fld := fieldName(fa.X.Type(), fa.Field)
				holds := false
				instrs(bi.fn, func(_ *ssa.BasicBlock, _ int, in ssa.Instruction) {
					if st, ok := in.(*ssa.Store); ok {
						if fa2, ok := st.Addr.(*ssa.FieldAddr); ok && fieldName(fa2.X.Type(), fa2.Field) == fld && types.Identical(origType(derefType(fa2.X.Type())), origType(derefType(fa.X.Type()))) && resolveVal(st.Val) == bi.cancel {
							holds = true
						}
					}
				})
				if holds {
					return true
				}
			}
			if cell := cellOf(ld.X); cell != nil && rootFn(cell.Parent()) == bi.fn {
				for _, st := range storesTo(cell) {
					if st.Val == bi.cancel {
						return true
					}
				}
			}
		}
		return call.Call.Value == bi.cancel
	}
	for _, fn := range c.funcsOfPkg(pkgRel) {
		root := rootFn(fn)
		if root != bi.fn && !worker[fn] && !(root.Signature.Recv() != nil && isNamedType(root.Signature.Recv().Type(), pkgRel, wrapper)) {
			// a method of a state type of the package that groups the cancel function with the WaitGroup
			// (batchWorkers.stopAndWait): looked at when Close - and nobody else - calls it
			if root.Signature.Recv() == nil || fn != root {
				continue
			}
		}
		instrs(fn, func(b *ssa.BasicBlock, i int, in ssa.Instruction) {
			call, ok := in.(*ssa.Call)
			if !ok || !isCancelCall(call) {
				return
			}
			n++
			name := c.nameOf(fn)
			key := name + "|cancel#" + itoa(n)
			switch {
			case strings.HasSuffix(name, wrapper+".Close"):
				r.discharged(key, call.Pos(), "Close cancels the workers")
			case calledOnlyByClose(c, fn, wrapper):
				r.discharged(key, call.Pos(), "the method is called by "+wrapper+".Close only: Close cancels the workers")
			case closeOnlyLiteral(c, fn, pkgRel, wrapper):
				r.discharged(key, call.Pos(), "the literal is kept in a field of "+wrapper+" that only Close calls: Close cancels the workers")
			case worker[fn] && !winnerMayCancel:
				r.violated(key, call.Pos(), "a background goroutine of "+anchor+" cancels the shared context itself: the peer that still holds undelivered items sees Done() and drops them, so an error (or the end) overtakes the items that preceded it; only Close may cancel")
			case worker[fn]:
				won := false
				for _, g := range guardsOf(b) {
					if v, val := g.boolVal(); val {
						if cc, ok := v.(*ssa.Call); ok {
							if nm, _, ne0, ok := atomicOp(cc); ok && !ne0 && nm == "CompareAndSwapUint32" {
								won = true
							}
						}
					}
				}
				r.ok(won, key, call.Pos(), "a worker may cancel the siblings only after winning the first-error race")
			default:
				r.violated(key, call.Pos(), "the stream's internal context is cancelled in "+name+": only Close (and, where there is a first-error race, its winner) may do that - here a caller-side event (e.g. an expired per-call context) kills a stream that is still live")
			}
		})
	}
}

func ruleReplicateUntilClosed(c *Ctx, r *R) {
	fn := c.fn("chans.Replicate")
	if fn == nil {
		r.undecided("chans.Replicate|missing", token.NoPos, "function not found")
		return
	}
	src := fn.Params[0]
	// 0 = src not seen closed, 1 = seen closed
	pf := &PF{N: 2, InScope: func(f *ssa.Function) bool { return f.Pkg == fn.Pkg && f.Blocks != nil && f != fn }}
	pf.Edge = func(f *ssa.Function, g guard, q int) (StateSet, bool) {
		v, val := g.boolVal()
		if val {
			return 0, false
		}
		// the ok of a receive from src is false
		ex, ok := v.(*ssa.Extract)
		if !ok || ex.Index != 1 {
			return 0, false
		}
		if rcv, ok := ex.Tuple.(*ssa.UnOp); ok && rcv.Op == token.ARROW && rcv.CommaOk && resolveVal(rcv.X) == ssa.Value(src) {
			return ss(1), true
		}
		return 0, false
	}
	k := 0
	for _, e := range pf.Exits(fn, ss(0)) {
		k++
		r.ok(e.States == ss(1), "chans.Replicate|return#"+itoa(k), retPos(e.Ret), "Replicate returns on a path that has not seen src closed: the producer stays blocked on its next send and a caller takes the return for 'source finished'")
	}
	if k == 0 {
		r.undecided("chans.Replicate|returns", fn.Pos(), "no return found")
	}
}

func ruleRearmGated(c *Ctx, r *R) {
	sch := c.fn("xtime.JitterTicker.schedule")
	if sch == nil {
		r.undecided("xtime.JitterTicker.schedule|missing", token.NoPos, "anchor not found")
		return
	}
	genF, cb := tickerGen(c)
	if genF == "" || cb == nil {
		r.undecided("xtime|generation", sch.Pos(), "generation test not found (see C20.tick-gate)")
		return
	}
	n := 0
	for _, d := range deepInstrs(cb, 2) {
		call, ok := d.in.(*ssa.Call)
		if !ok {
			continue
		}
		if cal := staticCallee(&call.Call); cal == nil || origin(cal) != origin(sch) {
			continue
		}
		n++
		r.ok(genGated(c, call.Parent(), call.Block(), nil, genF, sch, 0), "xtime|rearm#"+itoa(n), call.Pos(), "the timer callback calls schedule() outside the generation test: a callback that fired before Stop/Reset but got the lock afterwards sends no tick (stale generation) yet arms a fresh timer - the ticker ticks again after Stop returned")
	}
	if n == 0 {
		r.undecided("xtime|rearm", cb.Pos(), "the callback never re-arms the ticker")
	}
}

func ruleNilableTimer(c *Ctx, r *R) {
	// the timer, or - stopPending func() bool, set to pending.Stop - the bound Stop method of the timer kept in its place: a
	// func-typed field of the ticker that only ever holds (*time.Timer).Stop method values (or nil)
	stopFuncField := map[int]bool{}
	for _, fn := range c.funcsOfPkg("xtime") {
		instrs(fn, func(_ *ssa.BasicBlock, _ int, in ssa.Instruction) {
			st, ok := in.(*ssa.Store)
			if !ok {
				return
			}
			fa, ok := st.Addr.(*ssa.FieldAddr)
			if !ok || !isTickerOwned(fa.X.Type()) {
				return
			}
			if _, isSig := fa.Type().(*types.Pointer).Elem().Underlying().(*types.Signature); !isSig || isNilConst(st.Val) {
				return
			}
			isStop := false
			if f, rv := funcAndReceiver(st.Val); f != nil && rv != nil && f.Name() == "Stop" && f.Signature.Recv() != nil && isNamedTypeDeep(f.Signature.Recv().Type(), "time", "Timer") {
				isStop = true
			}
			if prev, seen := stopFuncField[fa.Field]; seen {
				stopFuncField[fa.Field] = prev && isStop
			} else {
				stopFuncField[fa.Field] = isStop
			}
		})
	}
	isTimerField := func(addr ssa.Value) bool {
		fa, ok := addr.(*ssa.FieldAddr)
		if !ok || !isTickerOwned(fa.X.Type()) {
			return false
		}
		if isNamedTypeDeep(fa.Type().(*types.Pointer).Elem(), "time", "Timer") {
			return true
		}
		return stopFuncField[fa.Field]
	}
	// is the field ever set to nil?
	nilled := false
	for _, fn := range c.funcsOfPkg("xtime") {
		instrs(fn, func(b *ssa.BasicBlock, i int, in ssa.Instruction) {
			if st, ok := in.(*ssa.Store); ok && isTimerField(st.Addr) && isNilConst(st.Val) {
				nilled = true
			}
			// the struct that holds the timer replaced as a whole (t.armed = armedTimer{gen: ...}): the timer may be nil after
			if st, ok := in.(*ssa.Store); ok {
				if fa, isFA := st.Addr.(*ssa.FieldAddr); isFA && isNamedType(fa.X.Type(), "xtime", "JitterTicker") {
					if inner, isSt := derefType(fa.Type()).Underlying().(*types.Struct); isSt && isTickerOwned(derefType(fa.Type())) {
						for j := 0; j < inner.NumFields(); j++ {
							if isNamedTypeDeep(inner.Field(j).Type(), "time", "Timer") {
								nilled = true
							}
						}
					}
				}
			}
		})
	}
	if !nilled {
		r.discharged("xtime.JitterTicker|timer-never-nil", token.NoPos, "the timer field is never reset to nil")
		return
	}
	n := 0
	for _, fn := range c.funcsOfPkg("xtime") {
		instrs(fn, func(b *ssa.BasicBlock, i int, in ssa.Instruction) {
			call, ok := in.(*ssa.Call)
			if !ok || call.Call.IsInvoke() {
				return
			}
			cal := call.Call.StaticCallee()
			if cal != nil && len(call.Call.Args) == 0 {
				return
			}
			if cal != nil && cal.Blocks != nil && c.inModule(cal) && cal.Signature.Recv() == nil {
				// the possibly-nil timer handed to a helper of the package (stopTimer(t.timer)): every method call through that
				// parameter in the helper must be under a nil test of the parameter
				for ai, a := range call.Call.Args {
					ld, ok := resolveVal(a).(*ssa.UnOp)
					if !ok || ld.Op != token.MUL || !isTimerField(ld.X) || ai >= len(cal.Params) {
						continue
					}
					n++
					prm := cal.Params[ai]
					safeAll := true
					instrs(cal, func(hb *ssa.BasicBlock, _ int, hin ssa.Instruction) {
						hc, ok := hin.(*ssa.Call)
						if !ok || hc.Call.IsInvoke() || len(hc.Call.Args) == 0 || hc.Call.Args[0] != ssa.Value(prm) {
							return
						}
						hcal := hc.Call.StaticCallee()
						if hcal == nil || hcal.Signature.Recv() == nil {
							safeAll = false // handed on again: not followed further
							return
						}
						guarded := false
						for _, g := range guardsOf(hb) {
							if cf, ok := g.asCmp(); ok && cf.op == token.NEQ && isNilConst(cf.y) && cf.x == ssa.Value(prm) {
								guarded = true
							}
						}
						if !guarded {
							safeAll = false
						}
					})
					r.ok(safeAll, c.nameOf(fn)+"|timer-handed-to:"+fname(cal)+"#"+itoa(n), call.Pos(), "JitterTicker.timer is nil after Stop(): the helper it is handed to calls a method through it without a nil test of its own (nil-pointer panic)")
				}
				return
			}
			what := ""
			if cal != nil && cal.Signature.Recv() != nil && isNamedTypeDeep(cal.Signature.Recv().Type(), "time", "Timer") {
				ld, ok := resolveVal(call.Call.Args[0]).(*ssa.UnOp)
				if !ok || ld.Op != token.MUL || !isTimerField(ld.X) {
					return
				}
				what = fname(cal)
			} else if cal == nil {
				// t.stopPending(): the kept Stop method value called through the field
				ld, ok := call.Call.Value.(*ssa.UnOp)
				if !ok || ld.Op != token.MUL || !isTimerField(ld.X) {
					return
				}
				what = "Stop"
			} else {
				return
			}
			n++
			safe := false
			for _, g := range guardsOf(b) {
				if cf, ok := g.asCmp(); ok && cf.op == token.NEQ && isNilConst(cf.y) {
					if l2, ok := resolveVal(cf.x).(*ssa.UnOp); ok && l2.Op == token.MUL && isTimerField(l2.X) {
						safe = true
					}
				}
			}
			// or a fresh timer was stored earlier on every path in this function
			instrs(fn, func(b2 *ssa.BasicBlock, j int, in2 ssa.Instruction) {
				if st, ok := in2.(*ssa.Store); ok && isTimerField(st.Addr) && !isNilConst(st.Val) {
					if (b2 == b && j < i) || (b2 != b && b2.Dominates(b)) {
						safe = true
					}
				}
			})
			var onlyFromStop func(f *ssa.Function, d int) bool
			onlyFromStop = func(f *ssa.Function, d int) bool {
				if c.nameOf(rootFn(f)) == "xtime.JitterTicker.Stop" {
					return true
				}
				// an unexported helper called from Stop only (t.stopLocked())
				if d > 2 || f.Parent() != nil || token.IsExported(f.Name()) {
					return false
				}
				sites := callSitesOf(c, f)
				if len(sites) == 0 {
					return false
				}
				for _, site := range sites {
					if !onlyFromStop(site.Parent(), d+1) {
						return false
					}
				}
				return true
			}
			if !safe && onlyFromStop(fn, 0) {
				r.excepted(c.nameOf(fn)+"|timer-deref#"+itoa(n), call.Pos(), "Stop on a ticker that is already stopped dereferences the nil timer; a second Stop is outside C20's statement (which covers New/Reset/ticks/one Stop), so this site is listed, not claimed")
				return
			}
			r.ok(safe, c.nameOf(fn)+"|timer-deref#"+itoa(n), call.Pos(), "t.timer."+what+"() without a t.timer != nil test: Stop sets the field to nil, so this call panics (with the mutex held) for a ticker that was stopped - e.g. Reset after Stop")
		})
	}
	if n == 0 {
		r.undecided("xtime.JitterTicker|timer-deref", token.NoPos, "no call through the timer field found")
	}
}

func ruleMergeSourceTag(c *Ctx, r *R) {
	n := 0
	for _, name := range []string{"xsort.Merge", "xsort.mergeIterator.Next"} {
		if c.fn(name) == nil {
			r.undecided(name+"|missing", token.NoPos, "anchor not found")
		}
	}
	// every construction of valueAndSource{value, source} in the package (Merge, Next and whatever helpers they are built from)
	var fns []*ssa.Function
	for _, fn := range c.Funcs {
		if rootFn(fn).Pkg == c.SSA["xsort"] && fn.Blocks != nil {
			fns = append(fns, fn)
		}
	}
	sort.Slice(fns, func(i, j int) bool { return fns[i].Pos() < fns[j].Pos() })
	for _, fn := range fns {
		name := c.nameOf(fn)
		// constructions of valueAndSource{value, source}
		instrs(fn, func(b *ssa.BasicBlock, i int, in ssa.Instruction) {
			al, ok := in.(*ssa.Alloc)
			if !ok || !isNamedType(al.Type(), "xsort", "valueAndSource") || al.Referrers() == nil {
				return
			}
			var val, src ssa.Value
			for _, ref := range *al.Referrers() {
				if fa, ok := ref.(*ssa.FieldAddr); ok && fa.Referrers() != nil {
					for _, r2 := range *fa.Referrers() {
						if st, ok := r2.(*ssa.Store); ok {
							switch fieldName(fa.X.Type(), fa.Field) {
							case "value":
								val = st.Val
							case "source":
								src = st.Val
							}
						}
					}
				}
			}
			if val == nil || src == nil {
				return
			}
			n++
			key := name + "|tag#" + itoa(n)
			// the value is the item of X.Next() with X = in[IDX]
			ex, ok := resolveVal(val).(*ssa.Extract)
			if !ok {
				r.undecided(key, al.Pos(), "the stored value is not the result of a pull")
				return
			}
			call, ok := ex.Tuple.(*ssa.Call)
			if !ok || !call.Call.IsInvoke() || call.Call.Method.Name() != "Next" {
				r.undecided(key, al.Pos(), "the stored value is not the result of Next()")
				return
			}
			ld, ok := call.Call.Value.(*ssa.UnOp)
			var idx ssa.Value
			if ok {
				if ia, ok := ld.X.(*ssa.IndexAddr); ok {
					idx = ia.Index
				}
			}
			if idx == nil {
				r.undecided(key, al.Pos(), "the pulled iterator is not an element of the input slice")
				return
			}
			same := resolveVal(idx) == resolveVal(src) || symOf(idx, provEnv{}).String() == symOf(src, provEnv{}).String()
			r.ok(same, key, al.Pos(), "the item pulled from in["+symOf(idx, provEnv{}).String()+"] is tagged with source "+symOf(src, provEnv{}).String()+": after it is popped the merge refills from the wrong input and items are dropped or reordered (e.g. when an earlier input was empty)")
		})
	}
	if n == 0 {
		r.undecided("xsort|tag", token.NoPos, "no valueAndSource construction found")
	}
}

func ruleHeapCapacityOps(c *Ctx, r *R) {
	for _, n := range []string{"Grow", "Shrink"} {
		fn := heapFn(c, n)
		if fn == nil {
			r.undecided("heap.Heap."+n+"|missing", token.NoPos, "anchor not found")
			continue
		}
		k := 0
		isBacking := func(v ssa.Value) bool {
			ld, ok := resolveVal(v).(*ssa.UnOp)
			if !ok || ld.Op != token.MUL {
				return false
			}
			fa, ok := ld.X.(*ssa.FieldAddr)
			return ok && fieldName(fa.X.Type(), fa.Field) == "a" && isNamedType(fa.X.Type(), "internal/heap", "Heap")
		}
		for _, d := range deepInstrs(fn, 1) {
			st, ok := d.in.(*ssa.Store)
			if !ok {
				continue
			}
			fa, ok := st.Addr.(*ssa.FieldAddr)
			if !ok || fieldName(fa.X.Type(), fa.Field) != "a" || !isNamedType(fa.X.Type(), "internal/heap", "Heap") {
				continue
			}
			k++
			good := false
			why := "stores " + path(st.Val)
			switch x := resolveVal(st.Val).(type) {
			case *ssa.Call:
				if cal := staticCallee(&x.Call); cal != nil && len(x.Call.Args) >= 1 && isBacking(x.Call.Args[0]) {
					switch fname(cal) {
					case "Grow", "Shrink", "Clip":
						good = true
					}
				}
			case *ssa.Slice:
				// x2[:len(h.a)]
				if x.High != nil {
					if hc, ok := resolveVal(x.High).(*ssa.Call); ok {
						if bi, ok := hc.Call.Value.(*ssa.Builtin); ok && bi.Name() == "len" && isBacking(hc.Call.Args[0]) {
							good = true
						}
					}
				}
				why = "stores a slice that is not cut back to len(h.a)"
			case *ssa.MakeSlice:
				why = "stores a freshly made slice of another length"
			}
			r.ok(good, "heap.Heap."+n+"|store-a#"+itoa(k), st.Pos(), n+" may only change the capacity of the backing slice: "+why+" - the heap's length changes (phantom zero items appear, or items vanish)")
		}
		if k == 0 {
			r.undecided("heap.Heap."+n+"|store-a", fn.Pos(), "no store to the backing slice found")
		}
	}
}

func ruleRootTestTarget(c *Ctx, r *R) {
	n := 0
	for _, fn := range c.funcsOfPkg(treeRel) {
		if fn.Blocks == nil {
			continue
		}
		instrs(fn, func(b *ssa.BasicBlock, i int, in ssa.Instruction) {
			call, ok := in.(*ssa.Call)
			if !ok {
				return
			}
			cal := staticCallee(&call.Call)
			if cal == nil || (fname(cal) != "merge" && fname(cal) != "steal") || len(call.Call.Args) < 2 || cal.Signature.Recv() == nil || !isNamedType(cal.Signature.Recv().Type(), treeRel, "btree") {
				return
			}
			arg := call.Call.Args[1]
			for _, g := range guardsOf(b) {
				cf, ok := g.asCmp()
				if !ok || (cf.op != token.NEQ && cf.op != token.EQL) {
					continue
				}
				x, y := cf.x, cf.y
				isRoot := func(v ssa.Value) bool {
					pv := valueProv(v, provEnv{})
					return len(pv.fields) >= 1 && pv.fields[len(pv.fields)-1] == "root"
				}
				if isRoot(x) {
					x, y = y, x
				}
				if !isRoot(y) {
					continue
				}
				n++
				same := false
				la, lx := valueLeaves(arg, nil, 0), valueLeaves(x, nil, 0)
				if resolveVal(x) == resolveVal(arg) {
					same = true
				}
				if len(la) > 0 && len(la) == len(lx) {
					all := true
					for k := range la {
						if la[k].v != lx[k].v {
							all = false
						}
					}
					if all {
						same = true
					}
				}
				r.ok(same, "tree.btree."+fn.Name()+"|root-test#"+itoa(n), call.Pos(), "the repair "+fname(cal)+"("+path(arg)+") is guarded by a root test on a different node ("+path(x)+"): when that other node is the root the repair of an under-full non-root node is skipped and it stays below the minimum")
			}
		})
	}
	if n == 0 {
		r.undecided("tree|root-test", token.NoPos, "no repair guarded by a root test found")
	}
}

func ruleFoundBeforeDescend(c *Ctx, r *R) {
	n := 0
	for _, fn := range c.funcsOfPkg(treeRel) {
		if fn.Blocks == nil {
			continue
		}
		instrs(fn, func(b *ssa.BasicBlock, i int, in ssa.Instruction) {
			// a load of <node>.children[idx] with idx the first result of searchNode
			ia, ok := in.(*ssa.IndexAddr)
			if !ok {
				return
			}
			if _, arr, ok := nodeArray(ia); !ok || arr != "children" {
				return
			}
			ex, ok := resolveVal(ia.Index).(*ssa.Extract)
			if !ok || ex.Index != 0 {
				return
			}
			call, ok := ex.Tuple.(*ssa.Call)
			if !ok {
				return
			}
			if cal := staticCallee(&call.Call); cal == nil || fname(cal) != "searchNode" {
				return
			}
			// only descents: the loaded child becomes the node of the next iteration / is searched next (not removals such
			// as removeRightmost(curr.children[idx]) in the found case)
			n++
			tested := false
			for _, g := range guardsOf(b) {
				if v, _ := g.boolVal(); v != nil {
					if e2, ok := v.(*ssa.Extract); ok && e2.Tuple == ssa.Value(call) && e2.Index == 1 {
						tested = true
					}
				}
			}
			r.ok(tested, c.nameOf(fn)+"|descend#"+itoa(n), ia.Pos(), "children[idx] is used with an idx from searchNode whose 'found' result was not tested on this path: walking past a node that holds the key inserts it a second time (Put) or misses it (Get/Delete)")
		})
	}
	if n == 0 {
		r.undecided("tree|descend", token.NoPos, "no descent through searchNode's index found")
	}
}

func ruleCancelArmExits(c *Ctx, r *R) {
	bi := bgAnalyse(c, "stream.BatchFunc")
	if bi == nil {
		r.undecided("stream.BatchFunc|missing", token.NoPos, "function not found")
		return
	}
	n := 0
	seen := map[*ssa.Function]bool{}
	for _, g := range bi.all {
		if seen[g] {
			continue
		}
		seen[g] = true
		for _, op := range chanOpsOf(g) {
			if op.kind != "select" || !op.blocking {
				continue
			}
			for _, a := range op.arms {
				if a.kind != "ctx-done" || a.body == nil {
					continue
				}
				if !reaches(op.in.Block(), op.in.Block()) {
					continue // not in a loop
				}
				n++
				r.ok(!reaches(a.body, op.in.Block()) && a.body != op.in.Block(), c.nameOf(g)+"|cancel-arm#"+itoa(n), posOf(op.in), "the arm that fires when Close cancels the background context leads back into the loop: with a source that does not honour the context the goroutine spins forever and Close never returns (a `break` inside a select leaves only the select)")
			}
		}
	}
	// the cancellable wait written with a module helper (chans.SendContext(bgCtx, c, item) != nil → leave): the edge on which
	// the helper reports the context's end must not lead back into the loop
	for g := range seen {
		instrs(g, func(b *ssa.BasicBlock, i int, in ssa.Instruction) {
			call, ok := in.(*ssa.Call)
			if !ok || !reaches(b, b) {
				return
			}
			cal := staticCallee(&call.Call)
			if cal == nil || !ctxBlockingHelper(c, origin(cal)) {
				return
			}
			var errV ssa.Value = call
			if tup, isT := call.Type().(*types.Tuple); isT {
				errV = nil
				for _, ref := range refsOf(call) {
					if ex, ok := ref.(*ssa.Extract); ok && ex.Index == tup.Len()-1 {
						errV = ex
					}
				}
			}
			if errV == nil {
				return
			}
			for _, ref := range refsOf(errV) {
				bin, ok := ref.(*ssa.BinOp)
				if !ok || (bin.Op != token.NEQ && bin.Op != token.EQL) || !(isNilConst(bin.X) || isNilConst(bin.Y)) {
					continue
				}
				for _, r2 := range refsOf(bin) {
					iff, ok := r2.(*ssa.If)
					if !ok {
						continue
					}
					failIdx := 0 // successor taken when err != nil
					if bin.Op == token.EQL {
						failIdx = 1
					}
					fb := iff.Block().Succs[failIdx]
					n++
					r.ok(!reaches(fb, b) && fb != b, c.nameOf(g)+"|cancel-arm#"+itoa(n), call.Pos(), "the path taken when the background context ended (the helper returned an error) leads back into the loop: the goroutine spins and Close never returns")
				}
			}
		})
	}
	if n == 0 {
		r.undecided("stream.BatchFunc|cancel-arm", bi.fn.Pos(), "no cancellable select inside a loop found")
	}
}

func ruleStopDrains(c *Ctx, r *R) {
	bi := bgAnalyse(c, "stream.BatchFunc")
	if bi == nil {
		r.undecided("stream.BatchFunc|missing", token.NoPos, "function not found")
		return
	}
	// is the timer re-armed anywhere?
	resets := false
	var fns []*ssa.Function
	seen := map[*ssa.Function]bool{}
	for _, g := range bi.all {
		for _, f := range withAnon(g) {
			if !seen[f] {
				seen[f] = true
				fns = append(fns, f)
			}
		}
	}
	isTimerMethod := func(call *ssa.CallCommon, name string) bool {
		cal := call.StaticCallee()
		return cal != nil && fname(cal) == name && cal.Signature.Recv() != nil && isNamedTypeDeep(cal.Signature.Recv().Type(), "time", "Timer")
	}
	for _, f := range fns {
		instrs(f, func(b *ssa.BasicBlock, i int, in ssa.Instruction) {
			if call, ok := in.(*ssa.Call); ok && isTimerMethod(&call.Call, "Reset") {
				resets = true
			}
		})
	}
	if !resets {
		r.discharged("stream.BatchFunc|timer-not-rearmed", bi.fn.Pos(), "the timer is never re-armed")
		return
	}
	// functions that only run as deferred clean-up of a goroutine: a final Stop there is never followed by a Reset
	cleanup := map[*ssa.Function]bool{}
	for _, f := range fns {
		instrs(f, func(b *ssa.BasicBlock, i int, in ssa.Instruction) {
			if d, ok := in.(*ssa.Defer); ok {
				if cal := staticCallee(&d.Call); cal != nil {
					cleanup[cal] = true
				}
			}
		})
	}
	// … and the helpers that are only ever called from such clean-up functions (timer.release())
	for changed := true; changed; {
		changed = false
		for _, f := range fns {
			if cleanup[f] || f.Parent() != nil {
				continue
			}
			sites := callSitesOf(c, f)
			all := len(sites) > 0
			for _, s := range sites {
				if !cleanup[s.Parent()] {
					all = false
				}
			}
			if all && len(callCommonsOf(c, f)) == len(sites) {
				cleanup[f] = true
				changed = true
			}
		}
	}
	n := 0
	for _, f := range fns {
		if cleanup[f] {
			continue
		}
		instrs(f, func(b *ssa.BasicBlock, i int, in ssa.Instruction) {
			call, ok := in.(*ssa.Call)
			if !ok || !isTimerMethod(&call.Call, "Stop") {
				return
			}
			n++
			// the result is tested and its false edge leads to a receive from the timer's channel
			drains := false
			if call.Referrers() != nil {
				for _, ref := range *call.Referrers() {
					if _, isDbg := ref.(*ssa.DebugRef); isDbg {
						continue
					}
					// used in a condition (directly, negated, or through a local / short-circuit)
					drains = drains || usedInDrainTest(call, f)
				}
			}
			r.ok(drains, c.nameOf(f)+"|stop#"+itoa(n), call.Pos(), "timer.Stop() on a timer that is re-armed later, without draining timer.C when Stop reports false: a tick that had already fired stays in the channel and the next batch is flushed at once, after its oldest item waited ~0 instead of maxWait")
		})
	}
	if n == 0 {
		r.undecided("stream.BatchFunc|stop", bi.fn.Pos(), "no timer.Stop() found")
	}
}

// usedInDrainTest: somewhere in f a receive from a timer channel is guarded by the Stop result being false.
func usedInDrainTest(stop *ssa.Call, f *ssa.Function) bool {
	found := false
	for _, op := range chanOpsOf(f) {
		if op.kind != "recv" || op.arms[0].kind != "timer" {
			continue
		}
		for _, g := range guardsOf(op.in.Block()) {
			v, val := g.boolVal()
			if val {
				continue
			}
			for _, lf := range valueLeaves(v, nil, 0) {
				if lf.v == ssa.Value(stop) {
					found = true
				}
			}
		}
	}
	return found
}

var _ = late(func() {
	properties["C01"].Rules = append(properties["C01"].Rules,
		&Rule{ID: "C01.children-one-more", Floor: 4, Clause: "same rule as C03.children-one-more: a node with n keys has n+1 children wherever keys and children are shifted together (a lost child pointer makes a whole subtree - keys that were never deleted - unreachable)", Run: ruleChildrenOneMore},
		&Rule{ID: "C01.reseek-direction", Floor: 6, Clause: "same rule as C02.reseek-direction: range iterators that find the tree changed re-seek inclusively to the pending key, so every present entry of the range is still yielded once", Run: ruleReseekDirection},
		&Rule{ID: "C01.tree-gen", Floor: 6, Clause: "same rule as C02.tree-gen: every path of Put and Delete that changes the structure bumps gen - a range iterator parked on a slot that shifted (or whose separator was replaced in place) otherwise keeps reading it and yields a deleted key, a key twice, or a stale value", Run: ruleTreeGen},
		&Rule{ID: "C01.unlink-mark", Floor: 2, Clause: "same rule as C02.unlink-mark: a node merged away gets n = 0 and the root is replaced only when empty, so a range iterator parked in it notices (otherwise it walks the dead node: stale values, early end, or an index panic)", Run: ruleTreeUnlinkMark},
		&Rule{ID: "C01.cursor-validated", Floor: 8, Clause: "same rule as C02.cursor-validated: the iterators behind Range / RangeReverse read the cursor's slot only after lost() was found false (or a re-seek) and the node was re-checked for nil; lost() reads keys[i] only under curr != nil and i < n (a cleared slot can equal a zero-valued key): otherwise a range yields a zero entry, skips one, or panics at the end of the range", Run: ruleCursorValidated},
		&Rule{ID: "C01.kv-carried-together", Floor: 1, Clause: "loop-carried key and value variables (k/v, key/value) are updated on the same edges: a loop that replaces the key it carries but keeps the old value pairs a key with another key's value", Run: ruleKVCarriedTogether})
	properties["C14"].Rules = append(properties["C14"].Rules,
		&Rule{ID: "C14.source-closed", Floor: 1, Clause: "MapStream's source is owned by the reader goroutine, which defers its Close in its entry block (same rule as C09.own-param restricted to MapStream): mapStream.Close returns only after the source was closed, whichever way the reader leaves (also through a <-ctx.Done() arm while parked on a full buffer)", Run: subRule(ruleOwnParams, "parallel.MapStream|")},
		&Rule{ID: "C14.normalise-first", Floor: 2, Clause: "MapIterator / MapStream use the raw parallelism argument only to default it (parallelism <= 0 → GOMAXPROCS): every other use - in particular the bufferSize >= parallelism clamp - sees the defaulted value, otherwise a non-positive parallelism leaves bufferSize <= 0 and the dispatcher waits forever", Run: ruleNormaliseFirst})
})

// ruleKVCarriedTogether: in package tree, for every pair of phis of one block whose source names are key/value duals, each
// incoming edge changes both or neither.
func ruleKVCarriedTogether(c *Ctx, r *R) {
	n := 0
	dual := map[string]string{"k": "v", "key": "value", "sepKey": "sepValue"}
	for _, fn := range c.funcsOfPkg(treeRel) {
		if fn.Blocks == nil {
			continue
		}
		for _, b := range fn.Blocks {
			phis := map[string]*ssa.Phi{}
			for _, in := range b.Instrs {
				if p, ok := in.(*ssa.Phi); ok {
					phis[p.Comment] = p
				}
			}
			for kn, vn := range dual {
				kp, vp := phis[kn], phis[vn]
				if kp == nil || vp == nil {
					continue
				}
				n++
				good := true
				why := ""
				for i := range kp.Edges {
					kChanged := kp.Edges[i] != ssa.Value(kp)
					vChanged := vp.Edges[i] != ssa.Value(vp)
					// the entry edge brings the parameters: both "changed"
					if kChanged != vChanged {
						good = false
						why = "on the edge from block " + itoa(b.Preds[i].Index) + " " + kn + " becomes " + path(kp.Edges[i]) + " while " + vn + " becomes " + path(vp.Edges[i])
					}
				}
				r.ok(good, c.nameOf(fn)+"|carried:"+kn+"/"+vn+"#"+itoa(n), kp.Pos(), "the loop carries "+kn+" and "+vn+" as a pair but updates only one of them ("+why+"): the entry re-inserted on the next level pairs a key with another key's value")
			}
		}
	}
	// the pair carried as ONE struct variable (ins := insertion{key, value, afterK}; ...; ins = sep): a whole-struct assignment
	// updates key and value together by construction; field-wise updates must set every K/V-typed field in the same block
	for _, fn := range c.funcsOfPkg(treeRel) {
		if fn.Blocks == nil {
			continue
		}
		for _, b := range fn.Blocks {
			for _, in := range b.Instrs {
				al, ok := in.(*ssa.Alloc)
				if !ok {
					continue
				}
				st, ok := al.Type().(*types.Pointer).Elem().Underlying().(*types.Struct)
				if !ok {
					continue
				}
				var kvFields []int
				for i := 0; i < st.NumFields(); i++ {
					if _, isTP := st.Field(i).Type().(*types.TypeParam); isTP {
						kvFields = append(kvFields, i)
					}
				}
				if len(kvFields) < 2 {
					continue
				}
				whole := 0
				perBlock := map[*ssa.BasicBlock]map[int]bool{}
				for _, ref := range refsOf(al) {
					switch x := ref.(type) {
					case *ssa.Store:
						if x.Addr == ssa.Value(al) {
							whole++
						}
					case *ssa.FieldAddr:
						for _, r2 := range refsOf(x) {
							if s2, ok := r2.(*ssa.Store); ok && s2.Addr == ssa.Value(x) {
								if perBlock[s2.Block()] == nil {
									perBlock[s2.Block()] = map[int]bool{}
								}
								perBlock[s2.Block()][x.Field] = true
							}
						}
					}
				}
				if whole+len(perBlock) < 2 {
					continue // set once: not carried
				}
				n++
				good, why := true, ""
				for blk, fs := range perBlock {
					some, all := false, true
					for _, f := range kvFields {
						if fs[f] {
							some = true
						} else {
							all = false
						}
					}
					if some && !all {
						good, why = false, "block "+itoa(blk.Index)+" sets only some of its key/value fields"
					}
				}
				r.ok(good, c.nameOf(fn)+"|carried-struct:"+al.Comment+"#"+itoa(n), al.Pos(), "the loop carries key and value in one struct variable but updates only one of the fields ("+why+"): the entry re-inserted on the next level pairs a key with another key's value")
			}
		}
	}
	if n == 0 {
		r.undecided("tree|carried-pairs", token.NoPos, "no loop-carried key/value pair found")
	}
}

// ruleNormaliseFirst: the raw int parameter named by position (parallelism: first int parameter after the iterator / stream)
// of MapIterator / MapStream is referenced only by its `<= 0` test and by the merge with its default.
func ruleNormaliseFirst(c *Ctx, r *R) {
	for _, name := range []string{"parallel.MapIterator", "parallel.MapStream"} {
		fn := c.fn(name)
		if fn == nil {
			r.undecided(name+"|missing", token.NoPos, "function not found")
			continue
		}
		var par *ssa.Parameter
		for _, p := range fn.Params {
			if isIntType(p.Type()) && par == nil {
				par = p
			}
		}
		if par == nil || par.Referrers() == nil {
			r.undecided(name+"|parallelism", fn.Pos(), "parallelism parameter not found")
			continue
		}
		good, defaulted, why := rawParamDefaultedFirst(fn, par, 0)
		r.ok(good && defaulted, name+"|raw-parallelism", fn.Pos(), "parallelism must be defaulted (<= 0 → GOMAXPROCS) before anything else looks at it: "+why)
	}
}

var _ = late(func() {
	properties["C02"].Rules = append(properties["C02"].Rules, &Rule{ID: "C02.seek-always-positions", Floor: 3,
		Clause: "every path through the cursor's positioning primitives (seek, SeekFirst, SeekLast) stores the cursor's node - also the failing ones, where it must become nil (off the edge): a seek that leaves the old node in place on an empty tree makes a parked iterator yield a deleted key forever",
		Run: func(c *Ctx, r *R) {
			for _, n := range []string{"seek", "SeekFirst", "SeekLast"} {
				fn := cur(c, n)
				if fn == nil {
					r.undecided("cursor."+n+"|missing", token.NoPos, "anchor not found")
					continue
				}
				pkg := fn.Pkg
				pf := &PF{N: 2, InScope: func(f *ssa.Function) bool { return f.Pkg == pkg && f.Blocks != nil && f != fn }}
				pf.Instr = func(f *ssa.Function, in ssa.Instruction, q int) (StateSet, bool) {
					if st, ok := in.(*ssa.Store); ok {
						if fa, ok := st.Addr.(*ssa.FieldAddr); ok && isNamedType(fa.X.Type(), treeRel, "cursor") && fieldName(fa.X.Type(), fa.Field) == "curr" {
							return ss(1), true
						}
					}
					return 0, false
				}
				k := 0
				for _, e := range pf.Exits(fn, ss(0)) {
					k++
					r.ok(e.States == ss(1), "cursor."+n+"|return#"+itoa(k), retPos(e.Ret), "a path through "+n+" returns without having stored the cursor's node: after a failed seek (empty tree) the cursor still points at its old node and key, so an iterator parked there keeps yielding an entry that no longer exists")
				}
			}
		}})
})

// ruleCtxArmReturnsErr: wherever a function of the given packages leaves through the <-ctx.Done() arm of a select with an
// error result, that result is ctx.Err() evaluated inside the arm - never nil, a stale variable, or another error: a caller
// told "nil" believes the wait succeeded (Future.WaitContext would hand out a value that was never filled in).
func ruleCtxArmReturnsErr(c *Ctx, r *R, rels ...string) {
	for _, rel := range rels {
		fns := c.funcsOfPkg(rel)
		sort.Slice(fns, func(i, j int) bool { return fns[i].Pos() < fns[j].Pos() })
		for _, fn := range fns {
			if fn.Blocks == nil || !lastIsError(fn.Signature) {
				continue
			}
			name := c.nameOf(fn)
			n := 0
			// the select lives in a boolean helper that is handed ctx.Done() (readyBeforeDone(ctx.Done(), ch) → false when the
			// context ended first): on the branch that corresponds to the helper's Done arm the function returns ctx.Err()
			if cp := ctxParam(fn); cp != nil && fn.Parent() == nil && token.IsExported(fn.Name()) {
				instrs(fn, func(b *ssa.BasicBlock, i int, in ssa.Instruction) {
					hc, ok := in.(*ssa.Call)
					if !ok {
						return
					}
					cal := staticCallee(&hc.Call)
					if cal == nil || cal.Blocks == nil || ctxParam(origin(cal)) != nil || doneParamIndex(origin(cal)) < 0 {
						return
					}
					doneVal, known := doneArmResult(origin(cal))
					if !known {
						return
					}
					for _, ref := range refsOf(hc) {
						var iff *ssa.If
						pol := true
						switch x := ref.(type) {
						case *ssa.If:
							iff = x
						case *ssa.UnOp:
							if x.Op == token.NOT {
								for _, r2 := range refsOf(x) {
									if i2, ok := r2.(*ssa.If); ok {
										iff, pol = i2, false
									}
								}
							}
						}
						if iff == nil {
							continue
						}
						// successor taken when the helper's result equals doneVal
						idx := 1
						if doneVal == pol {
							idx = 0
						}
						arm := iff.Block().Succs[idx]
						for _, rb := range fn.Blocks {
							if rb != arm && !arm.Dominates(rb) {
								continue
							}
							ret, ok := rb.Instrs[len(rb.Instrs)-1].(*ssa.Return)
							if !ok || len(ret.Results) == 0 {
								continue
							}
							n++
							ev := returnedValue(ret, len(ret.Results)-1)
							good := false
							if ec, ok := ev.(*ssa.Call); ok && ec.Call.IsInvoke() && ec.Call.Method.Name() == "Err" && ec.Call.Value == ssa.Value(cp) && (ec.Block() == arm || arm.Dominates(ec.Block())) {
								good = true
							}
							r.ok(good, name+"|ctx-arm-return#"+itoa(n), retPos(ret), "on the branch taken when the context ended first the function must return ctx.Err() (read there): any other value tells the caller the wait succeeded or hides why it ended")
						}
					}
				})
			}
			for _, op := range chanOpsOf(fn) {
				if op.kind != "select" {
					continue
				}
				for _, a := range op.arms {
					if a.send || a.kind != "ctx-done" || a.body == nil {
						continue
					}
					// only the CALLER's context: the context of a background goroutine that the library cancels itself
					// (forwardToChan(bgCtx, …) returning nil when Close cancels it) is not an error to report
					callers := true
					os := ctxOrigins(a.ctx, map[ssa.Value]bool{})
					for _, o := range os {
						p, isP := o.(*ssa.Parameter)
						if !isP || p.Parent() == nil || p.Parent().Parent() != nil {
							callers = false
						}
					}
					if !callers || len(os) == 0 {
						continue
					}
					for _, b := range fn.Blocks {
						if b != a.body && !a.body.Dominates(b) {
							continue
						}
						ret, ok := b.Instrs[len(b.Instrs)-1].(*ssa.Return)
						if !ok || len(ret.Results) == 0 {
							continue
						}
						n++
						ev := returnedValue(ret, len(ret.Results)-1)
						good := isCtxErrAfterDone(ev)
						// return c.waitExpired(ctx): a helper of the module, called inside the arm, every return of which is
						// Err() of the context it was handed
						if hc, ok := ev.(*ssa.Call); ok && !good && (hc.Block() == a.body || a.body.Dominates(hc.Block())) {
							if cal := staticCallee(&hc.Call); cal != nil && cal.Blocks != nil && cal.Parent() == nil && c.inModule(cal) {
								o := origin(cal)
								all, any := true, false
								instrs(o, func(_ *ssa.BasicBlock, _ int, in ssa.Instruction) {
									hr, ok := in.(*ssa.Return)
									if !ok || len(hr.Results) == 0 {
										return
									}
									any = true
									ec, ok := returnedValue(hr, len(hr.Results)-1).(*ssa.Call)
									if !ok || !ec.Call.IsInvoke() || ec.Call.Method.Name() != "Err" {
										all = false
										return
									}
									p, isP := resolveVal(ec.Call.Value).(*ssa.Parameter)
									if !isP || p.Parent() != o || !isContextType(p.Type()) {
										all = false
									}
								})
								good = all && any
							}
						}
						// a wrapped ctx.Err() (fmt.Errorf("…: %w", ctx.Err())) still reports the context's end
						if !good {
							if call, ok := ev.(*ssa.Call); ok && !call.Call.IsInvoke() {
								for _, arg := range call.Call.Args {
									if sl, ok := arg.(*ssa.Slice); ok {
										_ = sl
									}
									if isCtxErrAfterDone(arg) {
										good = true
									}
								}
							}
						}
						r.ok(good, name+"|ctx-arm-return#"+itoa(n), retPos(ret), "the <-ctx.Done() arm must return ctx.Err() (read inside the arm): any other value - nil, an error variable assigned earlier - tells the caller the wait succeeded or hides why it ended")
					}
				}
			}
		}
	}
}

// rawParamDefaultedFirst: the only things done with the raw int parameter par of fn are the default test (<= 0 and friends),
// merging it with its default, or handing it to an in-package normaliser whose own parameter is treated that way.
func rawParamDefaultedFirst(fn *ssa.Function, par *ssa.Parameter, depth int) (good, defaulted bool, why string) {
	good = true
	if par.Referrers() == nil {
		return false, false, "the parameter is unused"
	}
	// the parameter may be spilled to a cell (captured) or used directly
	var uses []ssa.Instruction
	for _, ref := range *par.Referrers() {
		uses = append(uses, ref)
	}
	for _, u := range uses {
		switch x := u.(type) {
		case *ssa.DebugRef:
		case *ssa.Phi:
			defaulted = true
		case *ssa.BinOp:
			if !(x.X == ssa.Value(par) && isConstInt(x.Y, 0) && (x.Op == token.LEQ || x.Op == token.LSS || x.Op == token.GTR || x.Op == token.GEQ)) {
				good = false
				why = "the raw argument is used in " + x.String()
			}
		case *ssa.Store:
			// spilled: accept only when the first thing done with the variable is the default test
			if cell, ok := x.Addr.(*ssa.Alloc); ok {
				firstUse := ""
				for _, b := range fn.Blocks {
					for _, in := range b.Instrs {
						if ld, ok := in.(*ssa.UnOp); ok && ld.Op == token.MUL && ld.X == ssa.Value(cell) && firstUse == "" && ld.Referrers() != nil {
							for _, r2 := range *ld.Referrers() {
								if bo, ok := r2.(*ssa.BinOp); ok && isConstInt(bo.Y, 0) {
									firstUse = "default-test"
								} else if hc, isCall := r2.(*ssa.Call); isCall && firstUse == "" && depth < 2 {
									// handed, first thing, to a normaliser of the package
									if cal := staticCallee(&hc.Call); cal != nil && cal.Blocks != nil && rootFn(origin(cal)).Pkg == rootFn(fn).Pkg {
										o := origin(cal)
										for ai, a := range hc.Call.Args {
											if a == ssa.Value(ld) && ai < len(o.Params) {
												if g2, d2, _ := rawParamDefaultedFirst(o, o.Params[ai], depth+1); g2 && d2 {
													firstUse = "default-test"
												}
											}
										}
									}
									if firstUse == "" {
										firstUse = r2.String()
									}
								} else if _, isDbg := r2.(*ssa.DebugRef); !isDbg && firstUse == "" {
									firstUse = r2.String()
								}
							}
						}
					}
					if firstUse != "" {
						break
					}
				}
				if firstUse != "default-test" {
					good = false
					why = "the raw argument is first used in " + firstUse
				} else {
					defaulted = true
				}
			}
		case *ssa.Call:
			// workerAndBufferLimits(parallelism, bufferSize): the normalisation lives in a helper
			handled := false
			if cal := staticCallee(&x.Call); cal != nil && cal.Blocks != nil && depth < 2 && rootFn(origin(cal)).Pkg == rootFn(fn).Pkg {
				o := origin(cal)
				for ai, a := range x.Call.Args {
					if a == ssa.Value(par) && ai < len(o.Params) {
						g2, d2, w2 := rawParamDefaultedFirst(o, o.Params[ai], depth+1)
						handled = true
						if !g2 || !d2 {
							good = false
							why = "handed to " + funcShort(o) + ", where " + w2
						} else {
							defaulted = true
						}
					}
				}
			}
			if !handled {
				good = false
				why = "the raw argument is used by " + u.String()
			}
		default:
			good = false
			why = "the raw argument is used by " + u.String()
		}
	}
	return good, defaulted, why
}

// doneArmResult: the boolean constant a select helper returns from its Done arm (and the opposite from every other arm).
func doneArmResult(h *ssa.Function) (bool, bool) {
	for _, op := range chanOpsOf(h) {
		if op.kind != "select" || !op.blocking {
			continue
		}
		var doneBody *ssa.BasicBlock
		for _, a := range op.arms {
			if !a.send && a.kind == "ctx-done" {
				doneBody = a.body
			}
		}
		if doneBody == nil {
			continue
		}
		var doneVal *bool
		ok := true
		for _, b := range h.Blocks {
			ret, isRet := b.Instrs[len(b.Instrs)-1].(*ssa.Return)
			if !isRet || len(ret.Results) != 1 {
				continue
			}
			k, isK := returnedValue(ret, 0).(*ssa.Const)
			if !isK || k.Value == nil || k.Value.Kind() != constant.Bool {
				ok = false
				continue
			}
			v := constant.BoolVal(k.Value)
			inDone := b == doneBody || doneBody.Dominates(b)
			if inDone {
				if doneVal != nil && *doneVal != v {
					ok = false
				}
				doneVal = &v
			}
		}
		if doneVal == nil || !ok {
			return false, false
		}
		// every return outside the Done arm yields the opposite
		for _, b := range h.Blocks {
			ret, isRet := b.Instrs[len(b.Instrs)-1].(*ssa.Return)
			if !isRet || len(ret.Results) != 1 {
				continue
			}
			if b == doneBody || doneBody.Dominates(b) {
				continue
			}
			if k, isK := returnedValue(ret, 0).(*ssa.Const); !isK || k.Value == nil || constant.BoolVal(k.Value) == *doneVal {
				return false, false
			}
		}
		return *doneVal, true
	}
	return false, false
}

var _ = late(func() {
	properties["C02"].Rules = append(properties["C02"].Rules, &Rule{ID: "C02.range-stays-bounded", Floor: 6,
		Clause: "same rule as C01.bounds, far end only: a bounded Range / RangeReverse always wraps the cursor's iterator in the While that enforces the far bound, and the plain iterator is returned only under the Unbounded kind - a shortcut taken from the tree's contents when the range is created lets keys put beyond the bound during the iteration through",
		Run:    subRule(ruleTreeBounds, "|far:", "|plain-iterator", "|while-outside-kind-test")})
})

var _ = late(func() {
	properties["C08"].Rules = append(properties["C08"].Rules, &Rule{ID: "C08.group-ctx", Floor: 2,
		Clause: "same rule as C14.bg-ctx, context arguments only: in parallel.MapStream the source's Next and f receive the errgroup's own context - the one the first failing call cancels - not an ancestor of it: a reader blocked in Next on an ancestor context is not woken by the failure, the group never finishes and the consumer waits for the error in vain",
		Run:    subRule(func(c *Ctx, r *R) { ruleBgCtx(c, r, "parallel.MapStream") }, "|ctx-arg|")})
})

var _ = late(func() {
	properties["C09"].Rules = append(properties["C09"].Rules, &Rule{ID: "C09.wg-count", Floor: 2,
		Clause: "same rule as C11.wg-count / C12.wg-count: the goroutines that own (and eventually close) the sources of stream.Merge and stream.BatchFunc are added to the WaitGroup BEFORE they are started, and defer wg.Done() first: with the Add inside the goroutine a Close right after construction finds the counter at zero and returns while the sources are still open (and about to be used)",
		Run:    func(c *Ctx, r *R) { ruleWgCount(c, r, "stream.Merge", "stream.BatchFunc") }})
})

var _ = late(func() {
	properties["C14"].Rules = append(properties["C14"].Rules, &Rule{ID: "C14.who-may-cancel", Floor: 1,
		Clause: "the context MapStream derives for its goroutines is cancelled only by mapStream.Close (the errgroup cancels its own child context when a goroutine RETURNS an error): a goroutine that calls cancel() itself before returning its error lets its siblings fail with context.Canceled first, and the errgroup - hence Next - reports the library's own cancellation instead of the source's or f's error",
		Run:    func(c *Ctx, r *R) { ruleWhoMayCancel(c, r, "parallel.MapStream", "mapStream", "cancel", false) }})
})

var _ = late(func() {
	properties["C01"].Rules = append(properties["C01"].Rules, &Rule{ID: "C01.split-halves", Floor: 3,
		Clause: "same rule as C03.split-halves: a split leaves both halves within [minKVs, maxKVs], accounts for every entry, and rewrites the left half (which IS the node being split, read through the amalgam view) from the highest index down - rewriting it upwards duplicates entries and drops others, so keys that were put are no longer found",
		Run:    ruleTreeSplit})
})

// gen-width (C02, C15, C20): a generation counter is only compared for equality, so it must not wrap within any realistic
// history: a counter narrower than 32 bits returns to the value an iterator recorded after 256 / 65536 modifications, and the
// "nothing changed" fast path then skips the position check.
func ruleGenWidth(fields ...[3]string) func(c *Ctx, r *R) {
	return func(c *Ctx, r *R) {
		for _, f := range fields {
			rel, typ, fld := f[0], f[1], f[2]
			tn := c.lookupType(rel, typ)
			if tn == nil {
				r.undecided(rel+"."+typ+"|missing", token.NoPos, "type not found")
				continue
			}
			st, ok := tn.Type().Underlying().(*types.Struct)
			if !ok {
				continue
			}
			found := false
			// (the counter may have moved, with its neighbours, into a struct of the package held by value)
			type fieldAt struct {
				owner types.Type
				sf    *types.Var
			}
			var all []fieldAt
			for i := 0; i < st.NumFields(); i++ {
				all = append(all, fieldAt{tn.Type(), st.Field(i)})
				if nt2, ok := st.Field(i).Type().(*types.Named); ok && nt2.Obj().Pkg() == tn.Pkg() {
					if inner, ok := nt2.Underlying().(*types.Struct); ok {
						for j := 0; j < inner.NumFields(); j++ {
							all = append(all, fieldAt{nt2, inner.Field(j)})
						}
					}
				}
			}
			for _, fa := range all {
				sf := fa.sf
				if canonField(fa.owner, sf.Name()) != fld {
					continue
				}
				found = true
				bt, isBasic := sf.Type().Underlying().(*types.Basic)
				wide := false
				if isBasic {
					switch bt.Kind() {
					case types.Int, types.Uint, types.Int32, types.Uint32, types.Int64, types.Uint64, types.Uintptr:
						wide = true
					}
				}
				r.ok(wide, rel+"."+typ+"."+fld+"|width", sf.Pos(), "the generation counter "+typ+"."+fld+" has type "+sf.Type().String()+": it is only compared for equality, so after 2^bits modifications between two looks it reads as unchanged and the staleness check is skipped; it must be at least 32 bits wide")
			}
			if !found {
				r.undecided(rel+"."+typ+"."+fld+"|missing", tn.Pos(), "generation field not found")
			}
		}
	}
}

var _ = late(func() {
	properties["C02"].Rules = append(properties["C02"].Rules, &Rule{ID: "C02.gen-width", Floor: 2,
		Clause: "btree.gen and cursor.gen are integers of at least 32 bits: the counter is compared for equality only, a narrow one wraps back to the value a parked iterator recorded and the iterator then trusts a slot that has shifted",
		Run:    ruleGenWidth([3]string{treeRel, "btree", "gen"}, [3]string{treeRel, "cursor", "gen"})})
	properties["C15"].Rules = append(properties["C15"].Rules, &Rule{ID: "C15.gen-width", Floor: 4,
		Clause: "the generation counters of Deque / dequeIterator and of internal/heap.Heap / heapIterator are integers of at least 32 bits (a narrow counter wraps and a modified container looks unmodified)",
		Run:    ruleGenWidth([3]string{"container/deque", "Deque", "gen"}, [3]string{"container/deque", "dequeIterator", "gen"}, [3]string{"internal/heap", "Heap", "gen"}, [3]string{"internal/heap", "heapIterator", "gen"})})
	properties["C20"].Rules = append(properties["C20"].Rules, &Rule{ID: "C20.gen-width", Floor: 1,
		Clause: "JitterTicker's generation counter is an integer of at least 32 bits (a callback of a timer armed 2^bits Resets ago would otherwise pass the generation test)",
		Run:    ruleGenWidth([3]string{"xtime", "JitterTicker", "gen"})})
})

var _ = late(func() {
	properties["C07"].Rules = append(properties["C07"].Rules, &Rule{ID: "C07.reducer-errors", Floor: 4,
		Clause: "same rule as C08.err-propagate, restricted to the stream reducers (Collect, Last, One, Reduce, Equal): an error of the source other than End is never read as \"the sequence is over\" - One must not report its first item when the look-ahead for a second one failed",
		Run:    subRule(ruleErrPropagate, "stream.Collect|", "stream.Last|", "stream.One|", "stream.Reduce|", "stream.Equal|")})
	properties["C08"].Rules = append(properties["C08"].Rules, &Rule{ID: "C08.bg-cancellable", Floor: 4,
		Clause: "same rule as C14.bg-cancellable: every blocking channel operation in MapStream's goroutines can be interrupted by the group's context (or a peer's deferred close): a reader parked on a bare hand-over after the only free worker failed keeps the errgroup - and with it the error the consumer is waiting for - from ever finishing",
		Run:    func(c *Ctx, r *R) { ruleBgCancellable(c, r, "parallel.MapStream") }})
	properties["C09"].Rules = append(properties["C09"].Rules, &Rule{ID: "C09.bg-cancellable", Floor: 3,
		Clause: "same rule as C11.bg-cancellable / C12.bg-cancellable: the goroutines that own a source (BatchFunc's reader, Merge's workers) can be interrupted wherever they block - a reader stuck on a bare send never reaches its deferred Close of the source, and Close of the returned stream never returns",
		Run: func(c *Ctx, r *R) {
			ruleBgCancellable(c, r, "stream.BatchFunc")
			ruleBgCancellable(c, r, "stream.Merge")
		}})
})

var _ = late(func() {
	properties["C11"].Rules = append(properties["C11"].Rules, &Rule{ID: "C11.no-discarded-recv", Floor: 1,
		Clause: "same rule as C08.no-discarded-pull, for batchStream.Next: a batch taken off batchC is returned on every path that follows (the batcher considers it delivered as soon as the send completes); a context test placed after the receive throws a delivered batch away",
		Run:    subRule(func(c *Ctx, r *R) { ruleNoDiscardedPull(c, r, "stream") }, "batchStream")})
})

var _ = late(func() {
	properties["C12"].Rules = append(properties["C12"].Rules, &Rule{ID: "C12.no-discarded-recv", Floor: 1,
		Clause: "same rule as C10.no-discarded-recv: the receiving half of the pipe that stream.Merge's workers feed returns every value it takes off the data channel (a context test after the receive drops a value whose Send - hence the worker - has already moved on: the merged output misses it)",
		Run:    subRule(func(c *Ctx, r *R) { ruleNoDiscardedPull(c, r, "stream") }, "pipeStream")})
})

// closeOnlyLiteral: fn is a function literal whose only use is to be stored in a func-typed field of wrapper, and that field is
// called by wrapper.Close and by nobody else (stop: func() { cancel(); workers.Wait() }, called as s.stop() in Close): what it
// does is part of Close.
func closeOnlyLiteral(c *Ctx, fn *ssa.Function, pkgRel, wrapper string) bool {
	if fn.Parent() == nil {
		return false
	}
	fld := ""
	var wt types.Type
	okUse := true
	found := false
	instrs(fn.Parent(), func(_ *ssa.BasicBlock, _ int, in ssa.Instruction) {
		mc, ok := in.(*ssa.MakeClosure)
		if !ok || mc.Fn != ssa.Value(fn) {
			return
		}
		found = true
		if mc.Referrers() == nil {
			okUse = false
			return
		}
		for _, ref := range *mc.Referrers() {
			switch x := ref.(type) {
			case *ssa.DebugRef:
			case *ssa.Store:
				fa, isFA := x.Addr.(*ssa.FieldAddr)
				if !isFA || x.Val != ssa.Value(mc) || !isNamedType(fa.X.Type(), pkgRel, wrapper) {
					okUse = false
					continue
				}
				fld = fieldName(fa.X.Type(), fa.Field)
				wt = fa.X.Type()
			default:
				okUse = false
			}
		}
	})
	if !found || !okUse || fld == "" {
		return false
	}
	calls := 0
	for _, f2 := range c.funcsOfPkg(pkgRel) {
		instrs(f2, func(_ *ssa.BasicBlock, _ int, in ssa.Instruction) {
			fa, ok := in.(*ssa.FieldAddr)
			if !ok || !isNamedType(fa.X.Type(), pkgRel, wrapper) || fieldName(fa.X.Type(), fa.Field) != fld || fa.Referrers() == nil {
				return
			}
			_ = wt
			for _, ref := range *fa.Referrers() {
				switch x := ref.(type) {
				case *ssa.DebugRef:
				case *ssa.Store:
					if x.Addr != ssa.Value(fa) {
						okUse = false
					}
				case *ssa.UnOp:
					// a load: only to be called, and only in Close
					if x.Referrers() == nil {
						continue
					}
					for _, r2 := range *x.Referrers() {
						switch y := r2.(type) {
						case *ssa.DebugRef:
						case *ssa.Call:
							if y.Call.Value != ssa.Value(x) || !strings.HasSuffix(c.nameOf(f2), wrapper+".Close") {
								okUse = false
							} else {
								calls++
							}
						default:
							okUse = false
						}
					}
				default:
					okUse = false
				}
			}
		})
	}
	return okUse && calls > 0
}

// calledOnlyByClose: fn is a method that has call sites, all of them in the Close method of the wrapper type.
func calledOnlyByClose(c *Ctx, fn *ssa.Function, wrapper string) bool {
	sites := callSitesOf(c, fn)
	if len(sites) == 0 || fn.Signature.Recv() == nil {
		return false
	}
	for _, site := range sites {
		if !strings.HasSuffix(c.nameOf(site.Parent()), wrapper+".Close") {
			return false
		}
	}
	return true
}
