package main

import (
	"go/token"
	"go/types"
	"sort"
	"strings"

	"golang.org/x/tools/go/ssa"
)

// genBump is the MUT => BUMP typestate shared by C15 (deque, heap) and C02.1 (btree).
// States: bit0 = a mutation was performed, bit1 = the generation counter was bumped.
// Accept at every normal return: not (MUT and not BUMP).
type genBumpSpec struct {
	rule    string
	roots   map[string]*ssa.Function // key → root
	isMut   func(st *ssa.Store) (bool, string)
	isBump  func(st *ssa.Store) bool
	inScope func(f *ssa.Function) bool
	// isBumpAddr (optional): the address is the generation counter's (for stores made through it by a counter type's method)
	isBumpAddr func(addr ssa.Value) bool
}

func runGenBump(c *Ctx, r *R, sp genBumpSpec) {
	pf := &PF{N: 4, InScope: sp.inScope}
	pf.Instr = func(fn *ssa.Function, in ssa.Instruction, q int) (StateSet, bool) {
		if call, isCall := in.(*ssa.Call); isCall && len(call.Call.Args) > 0 {
			// d.gen.bump(): a method of a small counter type that is handed the field's address and stores through it is a
			// store to that field
			if fa, isFA := call.Call.Args[0].(*ssa.FieldAddr); isFA {
				if cal := staticCallee(&call.Call); cal != nil && storesThroughParam0(cal) {
					for _, b := range cal.Blocks {
						for _, hin := range b.Instrs {
							if hst, ok := hin.(*ssa.Store); ok && hst.Addr == ssa.Value(cal.Params[0]) {
								// judge the helper's store as a store to the field it was handed
								if sp.isBumpAddr != nil && sp.isBumpAddr(fa) {
									return ss(q | 2), true
								}
							}
						}
					}
				}
			}
		}
		st, ok := in.(*ssa.Store)
		if !ok {
			return 0, false
		}
		if sp.isBump(st) {
			return ss(q | 2), true
		}
		if m, _ := sp.isMut(st); m {
			return ss(q | 1), true
		}
		return 0, false
	}
	var keys []string
	for k := range sp.roots {
		keys = append(keys, k)
	}
	sort.Strings(keys)
	for _, k := range keys {
		fn := sp.roots[k]
		exits := pf.Exits(fn, ss(0))
		if len(exits) == 0 {
			r.discharged(k+"|no-normal-return", fn.Pos(), "function has no normal return")
			continue
		}
		// number the returns by the kind of path reaching them so the key does not depend on lines
		for i, e := range exits {
			key := k + "|return#" + itoa(i)
			desc := describeStates(e.States)
			if e.States.has(1) {
				r.violated(key, retPos(e.Ret), "a path reaches this return after mutating the container without bumping the generation counter ("+desc+"); live iterators detect change only through gen")
			} else {
				r.discharged(key, retPos(e.Ret), desc)
			}
		}
	}
	for _, u := range pf.Undecided {
		r.undecided("idiom|"+u, token.NoPos, u)
	}
}

func describeStates(s StateSet) string {
	var parts []string
	s.each(func(q int) {
		switch q {
		case 0:
			parts = append(parts, "unchanged")
		case 1:
			parts = append(parts, "MUT without BUMP")
		case 2:
			parts = append(parts, "BUMP only")
		case 3:
			parts = append(parts, "MUT+BUMP")
		}
	})
	return strings.Join(parts, ", ")
}

func itoa(i int) string {
	if i == 0 {
		return "0"
	}
	neg := i < 0
	if neg {
		i = -i
	}
	var b []byte
	for i > 0 {
		b = append([]byte{byte('0' + i%10)}, b...)
		i /= 10
	}
	if neg {
		return "-" + string(b)
	}
	return string(b)
}

func exportedName(s string) bool { return s != "" && s[0] >= 'A' && s[0] <= 'Z' }

func init() {
	register(&Property{
		ID:    "C15",
		Title: "container iterators are snapshot-or-panic",
		Rules: []*Rule{
			{ID: "C15.gen-bump.deque", Floor: 12, Clause: "every exported Deque method that stores to front/back/a or an element of a bumps gen on that path (all paths, callees summarised)",
				Run: func(c *Ctx, r *R) {
					roots := map[string]*ssa.Function{}
					for name, f := range c.methodsOf("container/deque", "Deque") {
						if exportedName(name) {
							roots["Deque."+name] = f
						}
					}
					dq := c.SSA["container/deque"]
					runGenBump(c, r, genBumpSpec{roots: roots,
						isMut: func(st *ssa.Store) (bool, string) {
							f, base, ok := rootField(st.Addr)
							if !ok || !isNamedType(base.Type(), "container/deque", "Deque") {
								return false, ""
							}
							return f == "front" || f == "back" || f == "a", f
						},
						isBump: func(st *ssa.Store) bool {
							base, f, ok := storedField(st.Addr)
							return ok && f == "gen" && isNamedType(base.Type(), "container/deque", "Deque")
						},
						isBumpAddr: func(addr ssa.Value) bool {
							base, f, ok := storedField(addr)
							return ok && f == "gen" && isNamedType(base.Type(), "container/deque", "Deque")
						},
						inScope: func(f *ssa.Function) bool { return f.Pkg == dq },
					})
				}},
			{ID: "C15.gen-bump.heap", Floor: 10, Clause: "every exported internal/heap.Heap method that stores an element of a or changes its length bumps gen on that path (assigning xslices.Grow/Shrink results is content-preserving)",
				Run: func(c *Ctx, r *R) {
					roots := map[string]*ssa.Function{}
					for name, f := range c.methodsOf("internal/heap", "Heap") {
						if exportedName(name) {
							roots["Heap."+name] = f
						}
					}
					hp := c.SSA["internal/heap"]
					runGenBump(c, r, genBumpSpec{roots: roots,
						isMut: func(st *ssa.Store) (bool, string) {
							f, base, ok := rootField(st.Addr)
							if !ok || f != "a" || !isNamedType(base.Type(), "internal/heap", "Heap") {
								return false, ""
							}
							if _, direct := st.Addr.(*ssa.FieldAddr); direct {
								// h.a = <expr>: content-preserving only if <expr> is xslices.Grow/Shrink(h.a, n)
								if call, ok := st.Val.(*ssa.Call); ok {
									if cal := staticCallee(&call.Call); cal != nil && cal.Pkg != nil && strings.HasSuffix(cal.Pkg.Pkg.Path(), "/xslices") && (fname(cal) == "Grow" || fname(cal) == "Shrink") {
										return false, ""
									}
								}
							}
							return true, f
						},
						isBump: func(st *ssa.Store) bool {
							base, f, ok := storedField(st.Addr)
							return ok && f == "gen" && isNamedType(base.Type(), "internal/heap", "Heap")
						},
						inScope: func(f *ssa.Function) bool { return f.Pkg == hp },
					})
				}},
			{ID: "C15.check-first", Floor: 4, Clause: "in dequeIterator.Next and heapIterator.Next every read of container storage is preceded on all paths by the generation comparison (equal edge) or a fresh snapshot of gen",
				Run: ruleC15CheckFirst},
			{ID: "C15.wrappers-delegate", Floor: 3, Clause: "xheap.Heap.Iterate / PriorityQueue.Iterate obtain their items only from internal/heap's Iterate (no second, unchecked path to the storage)",
				Run: ruleC15Wrappers},
		},
		NotCovered: []string{"that an unmodified container is iterated front-to-back with the right contents (value-level ring arithmetic)", "behaviour under concurrent modification from other goroutines"},
	})
}

// ruleC15CheckFirst: typestate 0 = generation not yet validated, 1 = validated.
// genFieldsOf discovers, by role, the generation counter of a container and its snapshot in the iterator: the two integer
// fields (one of the container type, one of another struct) that the iterator's Next compares for (in)equality.
func genFieldsOf(nextFn *ssa.Function, contPkg, contType string) (contF, iterF string) {
	side := func(v ssa.Value) (field string, isCont bool, ok bool) {
		u, isU := resolveVal(v).(*ssa.UnOp)
		if !isU || u.Op != token.MUL || !isIntType(u.Type()) {
			return "", false, false
		}
		fa, isFA := u.X.(*ssa.FieldAddr)
		if !isFA {
			return "", false, false
		}
		return fieldName(fa.X.Type(), fa.Field), isNamedType(fa.X.Type(), contPkg, contType), true
	}
	for _, di := range deepInstrs(nextFn, 2) {
		// iter.d.gen.mustBe(iter.gen): a helper that panics unless its two operands are equal, handed the two counters
		if call, isCall := di.in.(*ssa.Call); isCall && len(di.calls) == 0 {
			if i, j, ok := panicsUnlessEqual(staticCallee(&call.Call)); ok && i < len(call.Call.Args) && j < len(call.Call.Args) {
				fx, cx, okx := side(call.Call.Args[i])
				fy, cy, oky := side(call.Call.Args[j])
				if okx && oky && cx != cy {
					if cx {
						return fx, fy
					}
					return fy, fx
				}
			}
		}
		bo, ok := di.in.(*ssa.BinOp)
		if !ok || (bo.Op != token.EQL && bo.Op != token.NEQ) {
			continue
		}
		fx, cx, okx := side(bo.X)
		fy, cy, oky := side(bo.Y)
		if okx && oky && cx != cy {
			if cx {
				return fx, fy
			}
			return fy, fx
		}
	}
	return "", ""
}

func ruleC15CheckFirst(c *Ctx, r *R) {
	type spec struct {
		fn, contField, contPkg, contType string
	}
	for _, sp := range []spec{
		{"container/deque.dequeIterator.Next", "d", "container/deque", "Deque"},
		{"internal/heap.heapIterator.Next", "h", "internal/heap", "Heap"},
	} {
		fn := c.fn(sp.fn)
		if fn == nil {
			r.undecided(sp.fn+"|missing", token.NoPos, "anchor function not found")
			continue
		}
		// Next may dispatch through a state-function field (next func() (T, bool), set to iter.start at first and to iter.resume
		// by start): what Next does is what each of the methods ever stored there does
		targets := stateFuncTargets(c, fn)
		contGen, iterGen := genFieldsOf(fn, sp.contPkg, sp.contType)
		for _, t := range targets {
			if contGen == "" {
				contGen, iterGen = genFieldsOf(t, sp.contPkg, sp.contType)
			}
		}
		if contGen == "" {
			r.undecided(sp.fn+"|generation-check", fn.Pos(), "no comparison of the container's generation with the iterator's snapshot found in Next")
			continue
		}
		bodies := []*ssa.Function{fn}
		if len(targets) > 0 {
			bodies = targets
		}
		isGenLoad := func(v ssa.Value) (iterSide bool, ok bool) {
			u, isU := resolveVal(v).(*ssa.UnOp)
			if !isU || u.Op != token.MUL {
				return false, false
			}
			fa, isFA := u.X.(*ssa.FieldAddr)
			if !isFA {
				return false, false
			}
			f := fieldName(fa.X.Type(), fa.Field)
			if isNamedType(fa.X.Type(), sp.contPkg, sp.contType) {
				return false, f == contGen
			}
			return true, f == iterGen
		}
		ipkg := fn.Pkg
		pf := &PF{N: 2, DeepVisit: true, InScope: func(f *ssa.Function) bool { return rootFn(origin(f)).Pkg == ipkg && origin(f) != fn && f.Blocks != nil }}
		pf.Edge = func(f *ssa.Function, g guard, q int) (StateSet, bool) {
			b := g.blk
			_ = b
			cf, ok := g.asCmp()
			if !ok || cf.op != token.EQL {
				return 0, false
			}
			xi, xok := isGenLoad(cf.x)
			yi, yok := isGenLoad(cf.y)
			if xok && yok && xi != yi {
				return ss(1), true
			}
			return 0, false
		}
		pf.Instr = func(f *ssa.Function, in ssa.Instruction, q int) (StateSet, bool) {
			// the comparison made by a helper that panics unless the two counters are equal: past the call they are
			if call, ok := in.(*ssa.Call); ok {
				if i, j, okp := panicsUnlessEqual(staticCallee(&call.Call)); okp && i < len(call.Call.Args) && j < len(call.Call.Args) {
					xi, xok := isGenLoad(call.Call.Args[i])
					yi, yok := isGenLoad(call.Call.Args[j])
					if xok && yok && xi != yi {
						return ss(1), true
					}
				}
			}
			// iter.gen = iter.X.gen : fresh snapshot
			if st, ok := in.(*ssa.Store); ok {
				if _, fld, ok := storedField(st.Addr); ok && fld == iterGen {
					if it, ok := isGenLoad(st.Val); ok && !it {
						return ss(1), true
					}
				}
			}
			return 0, false
		}
		n := 0
		pf.Visit = func(f *ssa.Function, in ssa.Instruction, before StateSet) {
			// reads of container storage: loads of fields of the container other than gen, calls of container methods,
			// and pulls from the inner snapshot iterator
			what := ""
			switch x := in.(type) {
			case *ssa.UnOp:
				if x.Op == token.MUL {
					if fa, ok := x.X.(*ssa.FieldAddr); ok && isNamedType(fa.X.Type(), sp.contPkg, sp.contType) {
						if fld := fieldName(fa.X.Type(), fa.Field); fld != contGen {
							what = "read of " + sp.contType + "." + fld
						}
					}
				}
			case *ssa.Call:
				if x.Call.IsInvoke() && x.Call.Method.Name() == "Next" {
					what = "pull from the snapshot iterator"
				} else if cal := staticCallee(&x.Call); cal != nil && cal.Signature.Recv() != nil && isNamedType(cal.Signature.Recv().Type(), sp.contPkg, sp.contType) {
					what = "call of " + sp.contType + "." + fname(cal)
				}
			}
			if what == "" {
				return
			}
			n++
			key := sp.fn + "|" + what + "#" + itoa(n)
			r.ok(!before.has(0), key, posOf(in), what+" must come after the generation check on every path")
		}
		for _, body := range bodies {
			pf.Exits(body, ss(0))
		}
	}
}

// stateFuncTargets: fn does nothing but call a func-typed field of its receiver and return what that returns; the methods
// (of the same receiver type) whose bound method values are ever stored into that field. nil when fn is not of that shape or
// anything else is stored there.
func stateFuncTargets(c *Ctx, fn *ssa.Function) []*ssa.Function {
	if len(fn.Blocks) != 1 || len(fn.Params) == 0 {
		return nil
	}
	var fld *ssa.FieldAddr
	for _, in := range fn.Blocks[0].Instrs {
		switch x := in.(type) {
		case *ssa.FieldAddr, *ssa.UnOp, *ssa.Extract, *ssa.Return, *ssa.DebugRef:
		case *ssa.Call:
			ld, ok := x.Call.Value.(*ssa.UnOp)
			if !ok || ld.Op != token.MUL || fld != nil {
				return nil
			}
			fa, ok := ld.X.(*ssa.FieldAddr)
			if !ok || fa.X != ssa.Value(fn.Params[0]) {
				return nil
			}
			fld = fa
		default:
			return nil
		}
	}
	if fld == nil {
		return nil
	}
	nt, ok := derefType(fld.X.Type()).(*types.Named)
	if !ok {
		return nil
	}
	var out []*ssa.Function
	seen := map[*ssa.Function]bool{}
	bad := false
	for _, f2 := range c.Funcs {
		if rootFn(f2).Pkg != rootFn(fn).Pkg {
			continue
		}
		instrs(f2, func(_ *ssa.BasicBlock, _ int, in ssa.Instruction) {
			st, ok := in.(*ssa.Store)
			if !ok {
				return
			}
			fa, ok := st.Addr.(*ssa.FieldAddr)
			if !ok || fa.Field != fld.Field {
				return
			}
			nt2, ok := derefType(fa.X.Type()).(*types.Named)
			if !ok || nt2.Origin() != nt.Origin() {
				return
			}
			mc, ok := st.Val.(*ssa.MakeClosure)
			if !ok {
				bad = true
				return
			}
			w, _ := mc.Fn.(*ssa.Function)
			if w == nil || !strings.HasSuffix(w.Name(), "$bound") {
				bad = true
				return
			}
			var target *ssa.Function
			for _, tb := range w.Blocks {
				for _, tin := range tb.Instrs {
					if tc, ok := tin.(*ssa.Call); ok && target == nil {
						target = origin(tc.Call.StaticCallee())
					}
				}
			}
			if target == nil || target.Blocks == nil {
				bad = true
				return
			}
			if !seen[target] {
				seen[target] = true
				out = append(out, target)
			}
		})
	}
	if bad {
		return nil
	}
	sort.Slice(out, func(i, j int) bool { return out[i].Name() < out[j].Name() })
	return out
}

func ruleC15Wrappers(c *Ctx, r *R) {
	for _, name := range []string{"container/xheap.Heap.Iterate", "container/xheap.PriorityQueue.Iterate", "container/deque.Deque.Iterate"} {
		fn := c.fn(name)
		if fn == nil {
			r.undecided(name+"|missing", token.NoPos, "anchor function not found")
			continue
		}
		// no load of element storage in the constructor itself: items must come from the checked Next
		bad := ""
		instrs(fn, func(b *ssa.BasicBlock, i int, in ssa.Instruction) {
			if ia, ok := in.(*ssa.IndexAddr); ok {
				// (the slot of a variadic argument list - iterator.Join(a, b) - is not element storage)
				if al, isAl := ia.X.(*ssa.Alloc); !isAl || al.Comment != "varargs" {
					bad = "indexes " + path(ia.X) + " directly"
				}
			}
			if ia, ok := in.(*ssa.Index); ok {
				bad = "indexes " + path(ia.X) + " directly"
			}
		})
		// deque's Iterate must snapshot gen from the container
		if strings.HasSuffix(name, "Deque.Iterate") {
			snap := false
			contGen, iterGen := "gen", "gen"
			if nx := c.fn("container/deque.dequeIterator.Next"); nx != nil {
				if cg, ig := genFieldsOf(nx, "container/deque", "Deque"); cg != "" {
					contGen, iterGen = cg, ig
				}
			}
			for _, d := range deepInstrs(fn, 2) { // the literal may be built by a constructor helper
				in := d.in
				if st, ok := in.(*ssa.Store); ok {
					if _, f, ok := storedField(st.Addr); ok && f == iterGen {
						if ld, ok := resolveVal(st.Val).(*ssa.UnOp); ok {
							if fa, ok := ld.X.(*ssa.FieldAddr); ok && fieldName(fa.X.Type(), fa.Field) == contGen && isNamedType(fa.X.Type(), "container/deque", "Deque") {
								snap = true
							}
						}
					}
				}
			}
			if !snap {
				bad = "iterator is created without a snapshot of d.gen"
			}
		} else {
			// must call heap.Heap.Iterate
			calls := false
			instrs(fn, func(b *ssa.BasicBlock, i int, in ssa.Instruction) {
				if call, ok := in.(*ssa.Call); ok {
					if cal := staticCallee(&call.Call); cal != nil && fname(cal) == "Iterate" && cal.Pkg != nil && strings.HasSuffix(cal.Pkg.Pkg.Path(), "internal/heap") {
						calls = true
					}
					// ... or from the package's own Heap wrapper, which is under this very obligation (PriorityQueue built on
					// xheap.Heap instead of on the inner heap)
					if cal := staticCallee(&call.Call); cal != nil && origin(cal) != origin(fn) {
						if hw := c.fn("container/xheap.Heap.Iterate"); hw != nil && origin(cal) == origin(hw) {
							calls = true
						}
					}
				}
			})
			if !calls {
				bad = "does not obtain its items from internal/heap.Heap.Iterate"
			}
		}
		r.ok(bad == "", name, fn.Pos(), bad)
	}
}

var _ = late(func() {
	p := properties["C15"]
	p.Rules = append(p.Rules, &Rule{ID: "C15.initial-dedup", Floor: 1, Clause: "same rule as C05.initial-dedup: the array PriorityQueue.Iterate walks is the one NewPriorityQueue handed to the heap, which must be the de-duplicated list - otherwise an unchanged queue yields a key twice",
		Run: rulePQInitial})
	p.Rules = append(p.Rules, &Rule{ID: "C15.snapshot-atomic", Floor: 1, Clause: "the heap iterator captures its snapshot of the backing slice and the generation at the same point (same block): a change between the two captures would go unnoticed",
		Run: func(c *Ctx, r *R) {
			n := 0
			nx := c.fn("internal/heap.heapIterator.Next")
			contGen, iterGen := "gen", "gen"
			if nx != nil {
				if cg, ig := genFieldsOf(nx, "internal/heap", "Heap"); cg != "" {
					contGen, iterGen = cg, ig
				}
			}
			// the snapshot: a store, into a field of the iterator, of the heap's backing slice (h.a itself or wrapped by
			// iterator.Slice / a sub-slice of it)
			isBacking := func(v ssa.Value) bool {
				v = resolveVal(v)
				if call, ok := v.(*ssa.Call); ok && len(call.Call.Args) >= 1 {
					if cal := staticCallee(&call.Call); cal != nil && fname(cal) == "Slice" {
						v = resolveVal(call.Call.Args[0])
					}
				}
				if sl, ok := v.(*ssa.Slice); ok {
					v = resolveVal(sl.X)
				}
				if mi, ok := v.(*ssa.MakeInterface); ok {
					v = resolveVal(mi.X)
				}
				ld, ok := v.(*ssa.UnOp)
				if !ok {
					return false
				}
				fa, ok := ld.X.(*ssa.FieldAddr)
				return ok && isNamedType(fa.X.Type(), "internal/heap", "Heap") && fieldName(fa.X.Type(), fa.Field) == "a"
			}
			for _, fn := range c.funcsOfPkg("internal/heap") {
				instrs(fn, func(b *ssa.BasicBlock, i int, in ssa.Instruction) {
					st, ok := in.(*ssa.Store)
					if !ok || !isBacking(st.Val) {
						return
					}
					fa, ok := st.Addr.(*ssa.FieldAddr)
					if !ok || isNamedType(fa.X.Type(), "internal/heap", "Heap") {
						return
					}
					n++
					same := false
					for _, x := range b.Instrs {
						if st2, ok := x.(*ssa.Store); ok {
							if _, f, ok := storedField(st2.Addr); ok && f == iterGen {
								if ld, ok := resolveVal(st2.Val).(*ssa.UnOp); ok {
									if fa2, ok := ld.X.(*ssa.FieldAddr); ok && fieldName(fa2.X.Type(), fa2.Field) == contGen {
										same = true
									}
								}
							}
						}
					}
					r.ok(same, c.nameOf(fn)+"|snapshot-with-gen#"+itoa(n), st.Pos(), "the snapshot of the backing slice is taken here but the generation is recorded elsewhere: a Pop/Remove/Update between the two is not detected and the stale slice header reads a reordered array")
				})
			}
			if n == 0 {
				r.violated("internal/heap|snapshot", token.NoPos, "the heap iterator no longer snapshots h.a (directly or through iterator.Slice); the rule needs to be revisited")
			}
		}})
})

// nextOfReturnedType: the Next method of the (pointer to) struct type a constructor returns.
func nextOfReturnedType(c *Ctx, ctor *ssa.Function) (*ssa.Function, *ssa.Alloc) {
	var next *ssa.Function
	var lit *ssa.Alloc
	instrs(ctor, func(_ *ssa.BasicBlock, _ int, in ssa.Instruction) {
		ret, ok := in.(*ssa.Return)
		if !ok || len(ret.Results) != 1 {
			return
		}
		for _, lf := range valueLeaves(returnedValue(ret, 0), nil, 0) {
			v := lf.v
			if mi, ok := v.(*ssa.MakeInterface); ok {
				v = mi.X
			}
			nt, ok := origType(derefType(v.Type())).(*types.Named)
			if !ok {
				continue
			}
			if al, ok := v.(*ssa.Alloc); ok {
				lit = al
			}
			for _, f := range c.Funcs {
				if f.Parent() == nil && f.Name() == "Next" && f.Signature.Recv() != nil {
					if rt, ok := origType(derefType(f.Signature.Recv().Type())).(*types.Named); ok && rt.Obj() == nt.Obj() {
						next = f
					}
				}
			}
		}
	})
	return next, lit
}

// C15.iter-watches-container: the iterator that Iterate builds keeps a pointer to THE container (the receiver), so that its
// generation test sees every later modification. With a value receiver (or a copy taken in Iterate) the iterator watches a
// private copy whose generation never changes while the copied slice header still aliases the live backing array: the
// modification check can never fire.
// C15.iter-reads-live / C04.iter-reads-live: dequeIterator.Next reads a slot of the ring buffer only when the deque holds items
// (Len() != 0 on the watched deque, or the equivalent count-down snapshot): a drained deque keeps its buffer (back == -1,
// len(a) > 0), so testing the buffer's size instead lets the iterator walk zeroed slots for ever.
var _ = late(func() {
	watch := func(c *Ctx, r *R) {
		for _, an := range []struct{ ctor, short string }{{"internal/heap.Heap.Iterate", "heap.Heap.Iterate"}, {"container/deque.Deque.Iterate", "deque.Deque.Iterate"}} {
			fn := c.fn(an.ctor)
			if fn == nil {
				r.undecided(an.short+"|missing", token.NoPos, "anchor not found")
				continue
			}
			recv := fn.Params[0]
			_, isPtr := recv.Type().Underlying().(*types.Pointer)
			contT := origType(derefType(recv.Type()))
			// the container pointers stored into the iterator (deep: the literal may be built by a helper)
			n, good, why := 0, isPtr, ""
			if !isPtr {
				why = "Iterate has a value receiver: the iterator can only see a copy"
			}
			for _, di := range deepInstrs(fn, 2) {
				st, ok := di.in.(*ssa.Store)
				if !ok {
					continue
				}
				if _, isFA := st.Addr.(*ssa.FieldAddr); !isFA {
					continue
				}
				pt, ok := st.Val.Type().Underlying().(*types.Pointer)
				if !ok || !types.Identical(origType(pt.Elem()), contT) {
					continue
				}
				n++
				for _, lf := range valueLeaves(argOf(st.Val, di.calls), di.calls, 0) {
					if resolveVal(lf.v) != ssa.Value(recv) {
						good = false
						why = "the iterator is given " + path(lf.v) + ", not the receiver"
					}
				}
			}
			r.ok(good && n > 0, an.short+"|watches-receiver", fn.Pos(), "the iterator must keep a pointer to the container itself (the pointer receiver of Iterate), otherwise its generation test compares against a copy that never changes: "+why)
			// ... on every return: a shortcut that hands out a plain iterator over the buffer (iterator.Slice(d.a[front:back+1])
			// for an unwrapped deque) aliases the live array with no generation test at all
			k := 0
			instrs(fn, func(_ *ssa.BasicBlock, _ int, in ssa.Instruction) {
				ret, ok := in.(*ssa.Return)
				if !ok || len(ret.Results) != 1 {
					return
				}
				k++
				holds := true
				what := ""
				for _, lf := range valueLeaves(returnedValue(ret, 0), nil, 0) {
					v := lf.v
					for {
						if mi, isMI := v.(*ssa.MakeInterface); isMI {
							v = mi.X
							continue
						}
						break
					}
					if call, isCall := v.(*ssa.Call); isCall {
						// built by a constructor of the package (newDequeIterator(d)): the object it returns is given the parameter
						// that stands for the receiver
						if cal := staticCallee(&call.Call); cal != nil && cal.Blocks != nil && rootFn(origin(cal)).Pkg == rootFn(fn).Pkg {
							given := false
							for _, rv := range returnedBy(origin(cal), 0) {
								v2 := rv
								if mi, isMI := v2.(*ssa.MakeInterface); isMI {
									v2 = mi.X
								}
								al2, isAl2 := v2.(*ssa.Alloc)
								if !isAl2 {
									continue
								}
								for _, ref := range refsOf(al2) {
									fa, isFA := ref.(*ssa.FieldAddr)
									if !isFA {
										continue
									}
									for _, r2 := range refsOf(fa) {
										if st, isSt := r2.(*ssa.Store); isSt && st.Addr == ssa.Value(fa) {
											if prm, isP := resolveVal(st.Val).(*ssa.Parameter); isP {
												if idx := paramIndex(prm); idx >= 0 && idx < len(call.Call.Args) && resolveVal(call.Call.Args[idx]) == ssa.Value(recv) {
													given = true
												}
											}
										}
									}
								}
							}
							if given {
								continue
							}
						}
					}
					al, isAl := v.(*ssa.Alloc)
					if !isAl {
						holds, what = false, path(v)
						continue
					}
					// the object built here is given the receiver
					given := false
					for _, ref := range refsOf(al) {
						fa, isFA := ref.(*ssa.FieldAddr)
						if !isFA {
							continue
						}
						for _, r2 := range refsOf(fa) {
							if st, isSt := r2.(*ssa.Store); isSt && st.Addr == ssa.Value(fa) {
								for _, l2 := range valueLeaves(st.Val, lf.chain, 0) {
									if resolveVal(l2.v) == ssa.Value(recv) {
										given = true
									}
								}
							}
						}
					}
					if !given {
						holds, what = false, "an object that is not given the container"
					}
				}
				r.ok(holds, an.short+"|every-return-watches#"+itoa(k), retPos(ret), "Iterate hands out "+what+" on this path: an iterator that does not hold the container cannot notice that it changed - it goes on reading slots the container has since rewritten and never panics")
			})
		}
	}
	live := func(c *Ctx, r *R) {
		ctor := c.fn("container/deque.Deque.Iterate")
		if ctor == nil {
			r.undecided("deque.Deque.Iterate|missing", token.NoPos, "anchor not found")
			return
		}
		next, _ := nextOfReturnedType(c, ctor)
		if next == nil {
			r.undecided("deque.Deque.Iterate|next", ctor.Pos(), "the iterator's Next was not found")
			return
		}
		n := 0
		for _, di := range deepInstrs(next, 2) { // the read may sit in a helper of the iterator (iter.advance())
			ia, ok := di.in.(*ssa.IndexAddr)
			if !ok {
				continue
			}
			if len(di.calls) > 0 {
				if cal := staticCallee(&di.calls[0].Call); cal == nil || cal.Signature.Recv() == nil || !types.Identical(origType(derefType(cal.Signature.Recv().Type())), origType(derefType(next.Signature.Recv().Type()))) {
					continue // only helpers of the iterator itself (not the deque's own methods, which have their own rules)
				}
			}
			// an element of the deque's buffer: <iter>.<d>.a[...]
			pv := valueProv(ia.X, provEnv{})
			if len(pv.fields) < 2 || !isNamedTypeDeep(fieldOwnerType(ia.X), "container/deque", "Deque") {
				continue
			}
			dP := prov{root: pv.root, fields: pv.fields[:len(pv.fields)-1]}
			n++
			okLive := false
			b := ia.Block()
			dField := dP.fields[len(dP.fields)-1]
			// Len() != 0 on the watched deque: at the read, or at the place the helper holding the read is called from
			var gs []guard
			gs = append(gs, guardsOf(b)...)
			for _, via := range di.calls {
				gs = append(gs, guardsOf(via.Block())...)
			}
			for _, g := range gs {
				cf, ok := g.asCmp()
				if !ok {
					continue
				}
				x, y, op := cf.x, cf.y, cf.op
				isLen := func(v ssa.Value) bool {
					call, ok := resolveVal(v).(*ssa.Call)
					if !ok {
						return false
					}
					cal := staticCallee(&call.Call)
					if cal == nil || fname(cal) != "Len" || len(call.Call.Args) != 1 || !isNamedTypeDeep(call.Call.Args[0].Type(), "container/deque", "Deque") {
						return false
					}
					lp := valueProv(call.Call.Args[0], provEnv{})
					return len(lp.fields) > 0 && lp.fields[len(lp.fields)-1] == dField
				}
				if isLen(y) {
					x, y, op = y, x, flip(op)
				}
				if !isLen(x) {
					continue
				}
				if k, ok := resolveVal(y).(*ssa.Const); ok && k.Value != nil {
					kv := k.Int64()
					if (op == token.NEQ && kv == 0) || (op == token.GTR && kv >= 0) || (op == token.GEQ && kv >= 1) {
						okLive = true
					}
				}
			}
			if !okLive && len(di.calls) == 0 && snapshotCounterEvidence(c, next, guardsOf(b), dP) {
				okLive = true
			}
			// ... or any other evidence that the deque holds items at the read (n < d.Len() for a count n that starts at 0 and
			// only goes up - an iterator that counts items instead of walking positions)
			if !okLive && len(di.calls) == 0 && dequeNonEmptyProv(c, ia.Parent(), b, idxIn(ia), dP, 0) {
				okLive = true
			}
			r.ok(okLive, "deque.dequeIterator.Next|reads-live-slot#"+itoa(n), ia.Pos(), "a slot of the ring buffer is read without a dominating test that the deque holds items (Len() != 0): a drained deque keeps its buffer, so the iterator yields zeroed slots and never reaches its end")
		}
		if n == 0 {
			r.discharged("deque.dequeIterator.Next|reads-live-slot", next.Pos(), "the iterator's Next (and its own helpers) reads no slot of the ring buffer itself (it delegates to iterators over slices taken under their own emptiness test)")
		}
	}
	properties["C15"].Rules = append(properties["C15"].Rules,
		&Rule{ID: "C15.iter-watches-container", Floor: 2, Clause: "Heap.Iterate and Deque.Iterate have pointer receivers and store that receiver into the iterator they build: the generation test of the iterator looks at the container itself, not at a copy made when iteration started", Run: watch},
		&Rule{ID: "C15.iter-reads-live", Floor: 1, Clause: "dequeIterator.Next reads a slot of the ring buffer only under Len() != 0 of the watched deque (or the equivalent count-down snapshot): an emptied deque keeps its buffer, so a test of the buffer's size does not end the iteration", Run: live})
	var genBumpDeque func(*Ctx, *R)
	for _, rl := range properties["C15"].Rules {
		if rl.ID == "C15.gen-bump.deque" {
			genBumpDeque = rl.Run
		}
	}
	properties["C04"].Rules = append(properties["C04"].Rules,
		&Rule{ID: "C04.resize-bumps-gen", Floor: 2, Clause: "same rule as C15.gen-bump.deque restricted to Grow and Shrink: they move the items to other slots of another buffer, so an Iterate in progress must be told (generation bump) - otherwise it goes on at a stale physical index and the history 'Iterate, Grow, Next' returns items the ideal sequence does not", Run: subRule(genBumpDeque, "Deque.Grow|", "Deque.Shrink|")},
		&Rule{ID: "C04.iter-reads-live", Floor: 1, Clause: "same rule as C15.iter-reads-live: Iterate over a drained deque yields nothing - the iterator reads a slot only under Len() != 0, not under len(buffer) != 0", Run: live})
})

func fieldOwnerType(addr ssa.Value) types.Type {
	if fa, ok := addr.(*ssa.FieldAddr); ok {
		return fa.X.Type()
	}
	if ld, ok := addr.(*ssa.UnOp); ok {
		if fa, ok := ld.X.(*ssa.FieldAddr); ok {
			return fa.X.Type()
		}
	}
	return nil
}

// storesThroughParam0: cal is a small function of the module all of whose stores go through its first (pointer) parameter
// (func (g *generation) bump() { *g++ }).
func storesThroughParam0(cal *ssa.Function) bool {
	if cal == nil || cal.Blocks == nil || len(cal.Params) == 0 || curCtx == nil || !curCtx.inModule(cal) {
		return false
	}
	if _, isPtr := cal.Params[0].Type().Underlying().(*types.Pointer); !isPtr {
		return false
	}
	n, all := 0, true
	instrs(cal, func(_ *ssa.BasicBlock, _ int, in ssa.Instruction) {
		if st, ok := in.(*ssa.Store); ok {
			n++
			if st.Addr != ssa.Value(cal.Params[0]) {
				all = false
			}
		}
	})
	return n > 0 && all
}

// panicsUnlessEqual: cal's entry block compares two of its parameters; the branch on which they differ ends in a panic, the
// other returns (func (g generation) mustBe(started generation) { if started != g { panic(...) } }): the two parameter indexes.
func panicsUnlessEqual(cal *ssa.Function) (int, int, bool) {
	if cal == nil || cal.Blocks == nil || len(cal.Params) < 2 || curCtx == nil || !curCtx.inModule(cal) {
		return 0, 0, false
	}
	b := cal.Blocks[0]
	iff, ok := b.Instrs[len(b.Instrs)-1].(*ssa.If)
	if !ok {
		return 0, 0, false
	}
	cf, ok := (guard{cond: iff.Cond, val: true}).asCmp()
	if !ok || (cf.op != token.EQL && cf.op != token.NEQ) {
		return 0, 0, false
	}
	px, okx := cf.x.(*ssa.Parameter)
	py, oky := cf.y.(*ssa.Parameter)
	if !okx || !oky || px.Parent() != cal || py.Parent() != cal {
		return 0, 0, false
	}
	diffIdx := 0 // successor taken when the operands differ
	if cf.op == token.EQL {
		diffIdx = 1
	}
	endsInPanic := func(bb *ssa.BasicBlock) bool {
		_, isP := bb.Instrs[len(bb.Instrs)-1].(*ssa.Panic)
		return isP
	}
	endsInReturn := func(bb *ssa.BasicBlock) bool {
		_, isR := bb.Instrs[len(bb.Instrs)-1].(*ssa.Return)
		return isR
	}
	if !endsInPanic(b.Succs[diffIdx]) || !endsInReturn(b.Succs[1-diffIdx]) {
		return 0, 0, false
	}
	return paramIndex(px), paramIndex(py), true
}
