package main

import (
	"go/token"
	"go/types"
	"sort"
	"strings"

	"golang.org/x/tools/go/ssa"
)

// Background-goroutine rules shared by C11 (BatchFunc), C12 (stream.Merge) and C14 (MapStream).

type bgInfo struct {
	fn       *ssa.Function
	name     string
	derived  map[ssa.Value]bool // contexts derived from the function's own WithCancel
	cancel   ssa.Value          // the cancel func value returned by WithCancel
	wc       *ssa.Call
	required ssa.Value       // the most-derived context: the errgroup's when there is one, else WithCancel's
	spawned  []*ssa.Function // closures started with go / errgroup.Go
	spawnHow map[*ssa.Function]string
	spawnAt  map[*ssa.Function]ssa.Instruction
	all      []*ssa.Function // spawned + every closure nested in fn that they may call
}

func bgAnalyse(c *Ctx, name string) *bgInfo {
	fn := c.fn(name)
	if fn == nil {
		return nil
	}
	return bgAnalyseFn(c, fn, name)
}

// bgAnalyseFn analyses fn (which may be an unexported helper that an API function delegates to) under the given report name.
func bgAnalyseFn(c *Ctx, fn *ssa.Function, name string) *bgInfo {
	bi := &bgInfo{fn: fn, name: name, derived: map[ssa.Value]bool{}, spawnHow: map[*ssa.Function]string{}, spawnAt: map[*ssa.Function]ssa.Instruction{}}
	instrs(fn, func(b *ssa.BasicBlock, i int, in ssa.Instruction) {
		call, ok := in.(*ssa.Call)
		if !ok {
			return
		}
		if cal := call.Call.StaticCallee(); cal != nil && cal.Pkg != nil && cal.Pkg.Pkg.Path() == "context" && fname(cal) == "WithCancel" && bi.wc == nil {
			bi.wc = call
		}
	})
	if bi.wc != nil {
		for _, ref := range *bi.wc.Referrers() {
			if ex, ok := ref.(*ssa.Extract); ok {
				if ex.Index == 0 {
					bi.derived[ex] = true
					bi.required = ex
				} else {
					bi.cancel = ex
				}
			}
		}
		// errgroup.WithContext(d) for d derived
		changed := true
		for changed {
			changed = false
			instrs(fn, func(b *ssa.BasicBlock, i int, in ssa.Instruction) {
				call, ok := in.(*ssa.Call)
				if !ok {
					return
				}
				cal := call.Call.StaticCallee()
				if cal == nil || cal.Pkg == nil || !strings.HasSuffix(cal.Pkg.Pkg.Path(), "errgroup") || fname(cal) != "WithContext" {
					return
				}
				arg := call.Call.Args[0]
				okArg := false
				for _, o := range ctxOrigins(arg, map[ssa.Value]bool{}) {
					if bi.derived[o] {
						okArg = true
					}
				}
				if !okArg {
					return
				}
				for _, ref := range *call.Referrers() {
					if ex, ok := ref.(*ssa.Extract); ok && ex.Index == 1 && !bi.derived[ex] {
						bi.derived[ex] = true
						bi.required = ex
						changed = true
					}
				}
			})
		}
	}
	instrs(fn, func(b *ssa.BasicBlock, i int, in ssa.Instruction) {
		switch x := in.(type) {
		case *ssa.Go:
			if f := staticCallee(&x.Call); f != nil && f.Parent() == fn {
				bi.spawned = append(bi.spawned, f)
				bi.spawnHow[f] = "go"
				bi.spawnAt[f] = x
			} else if f != nil && f.Blocks != nil && f.Parent() == nil && !token.IsExported(f.Name()) && rootFn(f).Pkg == rootFn(fn).Pkg {
				// go out.forward(ctx, i): the goroutine's body is an unexported function of the package; what the literal would
				// have captured arrives as arguments and receiver fields
				if bi.spawnAt[f] == nil {
					bi.spawned = append(bi.spawned, f)
					bi.spawnHow[f] = "go"
					bi.spawnAt[f] = x
				}
			}
		case *ssa.Call:
			if cal := x.Call.StaticCallee(); cal != nil && fname(cal) == "Go" && cal.Pkg != nil && strings.HasSuffix(cal.Pkg.Pkg.Path(), "errgroup") && len(x.Call.Args) == 2 {
				if f := resolveFuncValue(x.Call.Args[1], 0); f != nil && (f.Parent() == fn || viaConstructor(x.Call.Args[1], f)) {
					bi.spawned = append(bi.spawned, f)
					bi.spawnHow[f] = "errgroup"
					bi.spawnAt[f] = x
				}
			} else if cal := staticCallee(&x.Call); cal != nil && cal.Blocks != nil && rootFn(cal).Pkg == rootFn(fn).Pkg && cal.Parent() == nil {
				// out.spawn(func() { … }): an in-package helper that accounts for and starts the goroutine itself
				launched := false
				for ai, a := range x.Call.Args {
					if f := literalOf(a, fn); f != nil && goLauncher(cal, ai) {
						bi.spawned = append(bi.spawned, f)
						bi.spawnHow[f] = "launcher"
						bi.spawnAt[f] = x
						launched = true
					}
				}
				// c := out.startReader(bgCtx, s): an unexported helper that starts (and accounts for) a goroutine of its own
				if !token.IsExported(cal.Name()) && !launched {
					for _, g := range selfAccountedGoroutines(origin(cal)) {
						bi.spawned = append(bi.spawned, g)
						bi.spawnHow[g] = "helper"
						bi.spawnAt[g] = x
					}
				}
			}
		}
	})
	seen := map[*ssa.Function]bool{}
	var add func(f *ssa.Function)
	add = func(f *ssa.Function) {
		if seen[f] {
			return
		}
		seen[f] = true
		bi.all = append(bi.all, f)
		for _, a := range f.AnonFuncs {
			add(a)
		}
		// function literals of fn bound to local names that the goroutine calls or defers (workerDone := func(){…};
		// defer workerDone()), and unexported in-package helpers it delegates to (m.forward(i))
		instrs(f, func(b *ssa.BasicBlock, i int, in ssa.Instruction) {
			cc := callCommon(in)
			if cc == nil {
				return
			}
			cal := staticCallee(cc)
			if cal == nil || cal.Blocks == nil {
				return
			}
			if cal.Parent() == fn || (rootFn(cal).Pkg == rootFn(fn).Pkg && cal.Parent() == nil && !token.IsExported(fname(cal)) && len(seen) < 12) {
				add(cal)
			}
		})
	}
	for _, f := range bi.spawned {
		add(f)
	}
	return bi
}

func (bi *bgInfo) ctxOK(v ssa.Value) (bool, string) {
	os := ctxOrigins(v, map[ssa.Value]bool{})
	if len(os) == 0 {
		return false, "unresolved context value " + path(v)
	}
	for _, o := range os {
		if !bi.derived[o] {
			return false, "context " + path(v) + " may be " + path(o) + ", which the returned stream's Close does not cancel"
		}
		if bi.required != nil && o != bi.required {
			return false, "context " + path(v) + " is an ancestor of the errgroup's context: Close cancels it, but the first failing call does not, so a goroutine blocked on it keeps the group (and the consumer waiting for its error) hanging"
		}
	}
	return true, ""
}

// ruleBgCtx: every context handed to a call inside the goroutines is the one Close cancels.
func ruleBgCtx(c *Ctx, r *R, names ...string) {
	for _, name := range names {
		bi := bgAnalyse(c, name)
		if bi == nil || bi.wc == nil {
			r.violated(name+"|with-cancel", token.NoPos, "no context.WithCancel found: the goroutines cannot be stopped by Close")
			continue
		}
		// cancel stored into a field of the returned struct whose Close calls it
		ret := returnedStruct(bi.fn)
		stored := ""
		var storedLit *ssa.Function
		if ret != nil && bi.cancel.Referrers() != nil {
			for _, ref := range *bi.cancel.Referrers() {
				if st, ok := ref.(*ssa.Store); ok {
					if fa, ok := st.Addr.(*ssa.FieldAddr); ok && fieldBaseIs(fa, ret) {
						stored = fieldName(fa.X.Type(), fa.Field)
					}
				}
				// cancel captured in a cell (Merge: `cancel` is used by the workers too)
				if st, ok := ref.(*ssa.Store); ok {
					if cell, ok := st.Addr.(*ssa.Alloc); ok && cell.Referrers() != nil {
						for _, r2 := range *cell.Referrers() {
							// captured by a literal that is itself what the returned stream keeps (stop: func() { cancel();
							// workers.Wait() }): Close calls the cancel function by calling that field
							if mc, ok := r2.(*ssa.MakeClosure); ok && mc.Referrers() != nil {
								for _, r3 := range *mc.Referrers() {
									if st2, ok := r3.(*ssa.Store); ok && st2.Val == ssa.Value(mc) {
										if fa, ok := st2.Addr.(*ssa.FieldAddr); ok && fieldBaseIs(fa, ret) {
											if lit, _ := mc.Fn.(*ssa.Function); lit != nil {
												stored = fieldName(fa.X.Type(), fa.Field)
												storedLit = lit
											}
										}
									}
								}
							}
							if ld, ok := r2.(*ssa.UnOp); ok && ld.Referrers() != nil {
								for _, r3 := range *ld.Referrers() {
									if st2, ok := r3.(*ssa.Store); ok {
										if fa, ok := st2.Addr.(*ssa.FieldAddr); ok && fieldBaseIs(fa, ret) {
											stored = fieldName(fa.X.Type(), fa.Field)
										}
									}
									if ct, ok := r3.(*ssa.ChangeType); ok && ct.Referrers() != nil {
										for _, r4 := range *ct.Referrers() {
											if st2, ok := r4.(*ssa.Store); ok {
												if fa, ok := st2.Addr.(*ssa.FieldAddr); ok && fieldBaseIs(fa, ret) {
													stored = fieldName(fa.X.Type(), fa.Field)
												}
											}
										}
									}
								}
							}
						}
					}
				}
				if ct, ok := ref.(*ssa.ChangeType); ok && ct.Referrers() != nil {
					for _, r2 := range *ct.Referrers() {
						if st, ok := r2.(*ssa.Store); ok {
							if fa, ok := st.Addr.(*ssa.FieldAddr); ok && fieldBaseIs(fa, ret) {
								stored = fieldName(fa.X.Type(), fa.Field)
							}
						}
					}
				}
			}
		}
		okClose := false
		detail := "the cancel function of the goroutines' context is not stored in the returned stream"
		var retT types.Type
		if ret != nil {
			retT = ret.Type()
		}
		if stored == "" {
			// the returned stream is built by a constructor helper that is handed the cancel function
			// (out := newBatchStream(bgCancel)): a store, anywhere below, of the cancel function into a field of the type returned
			if wt := returnedWrapperType(bi.fn); wt != nil {
				for _, d := range deepInstrs(bi.fn, 2) {
					st, ok := d.in.(*ssa.Store)
					if !ok {
						continue
					}
					fa, ok := st.Addr.(*ssa.FieldAddr)
					if !ok || !types.Identical(origType(derefType(fa.X.Type())), origType(derefType(wt))) {
						continue
					}
					for _, lf := range valueLeaves(st.Val, d.calls, 0) {
						if lf.v == bi.cancel {
							stored = fieldName(fa.X.Type(), fa.Field)
							retT = wt
						}
					}
				}
			}
		}
		if stored != "" {
			closeFn := c.fn(relOfPkg(bi.fn.Pkg) + "." + typeShort(retT) + ".Close")
			detail = "Close of the returned stream does not call " + stored + " before waiting"
			if closeFn != nil {
				var cancelIn, waitIn ssa.Instruction
				// the cancel function and the WaitGroup grouped in a state type with a method of its own
				// (iter.workers.stopAndWait()): cancel then wait, inside that method, called unconditionally by Close
				for _, d := range deepInstrs(closeFn, 2) {
					if d.in.Parent() == closeFn || len(d.calls) != 1 || d.site.Block() != closeFn.Blocks[0] {
						continue
					}
					h := d.in.Parent()
					var cIn, wIn ssa.Instruction
					instrs(h, func(_ *ssa.BasicBlock, _ int, in ssa.Instruction) {
						call, ok := in.(*ssa.Call)
						if !ok {
							return
						}
						if fieldOfChan(call.Call.Value) == stored {
							cIn = in
						}
						if cal := staticCallee(&call.Call); cal != nil && fname(cal) == "Wait" && cal.Signature.Recv() != nil {
							wIn = in
						}
					})
					if cIn != nil && wIn != nil && cIn.Block() == h.Blocks[0] && cIn.Block().Dominates(wIn.Block()) && (cIn.Block() != wIn.Block() || idxIn(cIn) < idxIn(wIn)) {
						okClose = true
					}
				}
				instrs(closeFn, func(b *ssa.BasicBlock, i int, in ssa.Instruction) {
					call, ok := in.(*ssa.Call)
					if !ok {
						return
					}
					if fieldOfChan(call.Call.Value) == stored {
						cancelIn = in
					}
					if cal := staticCallee(&call.Call); cal != nil && fname(cal) == "Wait" && cal.Signature.Recv() != nil {
						waitIn = in
					}
					// the field holds a literal that cancels and then waits itself
					if storedLit != nil && fieldOfChan(call.Call.Value) == stored && resolveFuncValue(call.Call.Value, 0) == storedLit {
						if w, cn, o := closeWaits(storedLit); w && cn && o && cancelsFirst(storedLit, bi.cancel) {
							waitIn = in
						} else {
							cancelIn = nil
						}
					}
				})
				if cancelIn != nil && waitIn != nil && cancelIn.Block().Dominates(waitIn.Block()) && (cancelIn.Block() != waitIn.Block() || idxIn(cancelIn) < idxIn(waitIn) || (cancelIn == waitIn && storedLit != nil)) && cancelIn.Block() == closeFn.Blocks[0] {
					okClose = true
				}
			}
		}
		r.ok(okClose, name+"|close-cancels-then-waits", bi.fn.Pos(), detail)
		// context arguments inside the goroutines
		n := 0
		for _, g := range bi.all {
			instrs(g, func(b *ssa.BasicBlock, i int, in ssa.Instruction) {
				cc := callCommon(in)
				if cc == nil {
					return
				}
				args := cc.Args
				for _, a := range args {
					if !isContextType(a.Type()) {
						continue
					}
					n++
					ok, why := bi.ctxOK(a)
					r.ok(ok, name+"|ctx-arg|"+calleeName(cc)+"#"+itoa(n), posOf(in), why)
				}
			})
		}
	}
}

// ruleBgCancellable: every blocking channel operation in the goroutines can be interrupted.
func ruleBgCancellable(c *Ctx, r *R, names ...string) {
	for _, name := range names {
		bi := bgAnalyse(c, name)
		if bi == nil {
			r.undecided(name+"|missing", token.NoPos, "anchor function not found")
			continue
		}
		// channels closed by a deferred close in some goroutine of the group
		peerClosed := map[*ssa.Alloc]bool{}
		peerClosedField := map[string]bool{}
		peerClosedMk := map[*ssa.MakeChan]bool{}
		for _, g := range bi.all {
			instrs(g, func(b *ssa.BasicBlock, i int, in ssa.Instruction) {
				var cc *ssa.CallCommon
				deferred := false
				switch x := in.(type) {
				case *ssa.Defer:
					cc = &x.Call
					deferred = true
				case *ssa.Call:
					cc = &x.Call
					// close inside a closure that is itself deferred by its parent
					if isDeferredClosure(g) {
						deferred = true
					}
				}
				if cc == nil || !deferred {
					return
				}
				if bi2, ok := cc.Value.(*ssa.Builtin); ok && bi2.Name() == "close" {
					if ld, ok := cc.Args[0].(*ssa.UnOp); ok {
						if cell := cellOf(ld.X); cell != nil {
							peerClosed[cell] = true
						}
					}
					if f := fieldOfChan(cc.Args[0]); f != "" {
						peerClosedField[f] = true
					}
					for mk := range madeChans(cc.Args[0]) {
						peerClosedMk[mk] = true
					}
				}
			})
		}
		for _, g := range bi.all {
			gname := c.nameOf(g)
			k := 0
			for _, op := range chanOpsOf(g) {
				if !op.blocking {
					continue
				}
				k++
				var parts []string
				for _, a := range op.arms {
					d := "recv "
					if a.send {
						d = "send "
					}
					parts = append(parts, d+a.chPath)
				}
				key := name + "|" + strings.TrimPrefix(gname, name) + "|" + op.kind + "[" + strings.Join(parts, ",") + "]"
				okA, okB, okC := false, false, false
				why := ""
				for _, a := range op.arms {
					if a.kind == "ctx-done" && !a.send && op.kind == "select" {
						if ok, w := bi.ctxOK(a.ctx); ok {
							okA = true
						} else {
							why = w
						}
					}
					if !a.send {
						if ld, ok := a.ch.(*ssa.UnOp); ok {
							if cell := cellOf(ld.X); cell != nil && peerClosed[cell] {
								okB = true
							}
						}
						// the same channel by creation site (it may have travelled through a helper's result)
						if mks := madeChans(a.ch); len(mks) > 0 {
							all := true
							for mk := range mks {
								if !peerClosedMk[mk] {
									all = false
								}
							}
							if all {
								okB = true
							}
						}
						// the channel is a parameter of a helper: what its callers pass
						if p, ok := a.ch.(*ssa.Parameter); ok && p.Parent() == g {
							sites := callCommonsOf(c, g)
							all := len(sites) > 0
							for pi, pp := range g.Params {
								if pp != p {
									continue
								}
								for _, cc := range sites {
									okSite := false
									if pi < len(cc.Args) {
										for _, lf := range cellLeaves(cc.Args[pi], nil, 0) {
											if cell := loadCell(lf.v); cell != nil && peerClosed[cell] {
												okSite = true
											}
										}
									}
									if !okSite {
										all = false
									}
								}
							}
							if all {
								okB = true
							}
						}
					}
					if a.kind == "timer" && !a.send && op.kind == "recv" {
						okC = timerDrainIdiom(op.in)
					}
				}
				switch {
				case okA:
					r.discharged(key, posOf(op.in), "select with the Done() arm of the context Close cancels")
				case okB:
					r.discharged(key, posOf(op.in), "receives from a channel that a peer goroutine closes in a defer")
				case okC:
					r.discharged(key, posOf(op.in), "timer drain idiom: !timer.Stop() && timerC != nil ⇒ the timer fired and was not received, so the receive returns at once (asynctimerchan semantics of go 1.18 modules)")
				default:
					if why == "" {
						why = "no arm can be triggered by Close"
					}
					r.violated(key, posOf(op.in), "blocking "+op.kind+" in a background goroutine that Close waits for cannot be interrupted: "+why+" ⇒ Close can hang")
				}
			}
			// blocking done through a context-aware helper of the module (chans.SendContext / RecvContext): the context handed
			// to it must be the one Close cancels
			instrs(g, func(b *ssa.BasicBlock, i int, in ssa.Instruction) {
				call, ok := in.(*ssa.Call)
				if !ok {
					return
				}
				cal := staticCallee(&call.Call)
				if cal == nil || !ctxBlockingHelper(c, cal) || rootFn(cal).Pkg == rootFn(g).Pkg {
					return
				}
				k++
				key := name + "|" + strings.TrimPrefix(gname, name) + "|call[" + funcShort(cal) + "]#" + itoa(k)
				var ctxArg ssa.Value
				for _, a := range call.Call.Args {
					if isContextType(a.Type()) && ctxArg == nil {
						ctxArg = a
					}
				}
				if ctxArg == nil {
					r.violated(key, call.Pos(), "blocking helper called without a context")
					return
				}
				if ok, w := bi.ctxOK(ctxArg); ok {
					r.discharged(key, call.Pos(), "blocks inside "+funcShort(cal)+", which selects on the Done() of the context Close cancels")
				} else {
					r.violated(key, call.Pos(), "blocking call of "+funcShort(cal)+" in a background goroutine that Close waits for cannot be interrupted: "+w+" ⇒ Close can hang")
				}
			})
		}
	}
}

// ctxBlockingHelper: a module function that takes a context and blocks only in selects that have a Done() arm of that context.
func ctxBlockingHelper(c *Ctx, cal *ssa.Function) bool {
	if c == nil || cal == nil || cal.Blocks == nil || !c.inModule(cal) || cal.Parent() != nil {
		return false
	}
	p := ctxParam(cal)
	if p == nil {
		return false
	}
	n := 0
	for _, op := range chanOpsOf(cal) {
		if !op.blocking {
			continue
		}
		n++
		has := false
		for _, a := range op.arms {
			if a.kind == "ctx-done" && !a.send && a.ctx == ssa.Value(p) {
				has = true
			}
		}
		if op.kind != "select" || !has {
			return false
		}
	}
	return n > 0
}

func isDeferredClosure(g *ssa.Function) bool {
	p := g.Parent()
	if p == nil {
		return false
	}
	res := false
	instrs(p, func(b *ssa.BasicBlock, i int, in ssa.Instruction) {
		if d, ok := in.(*ssa.Defer); ok {
			if f := resolveFuncValue(d.Call.Value, 0); f == g {
				res = true
			}
		}
	})
	if res {
		return true
	}
	// a literal bound to a local name of the enclosing function and deferred by the sibling literals that use it
	// (workerDone := func() {…}; go func() { defer workerDone(); … }()): every use must be a defer
	nDefer, nOther := 0, 0
	for _, f2 := range withAnon(rootFn(g)) {
		instrs(f2, func(b *ssa.BasicBlock, i int, in ssa.Instruction) {
			switch x := in.(type) {
			case *ssa.Defer:
				if resolveFuncValue(x.Call.Value, 0) == g {
					nDefer++
				}
			case *ssa.Call:
				if !x.Call.IsInvoke() && resolveFuncValue(x.Call.Value, 0) == g {
					nOther++
				}
			case *ssa.Go:
				if resolveFuncValue(x.Call.Value, 0) == g {
					nOther++
				}
			}
		})
	}
	return nDefer > 0 && nOther == 0
}

// timerDrainIdiom: `if !timer.Stop() && timerC != nil { <-timerC }`.
func timerDrainIdiom(in ssa.Instruction) bool {
	stopFalse, nonNil := false, false
	for _, g := range guardsOf(in.Block()) {
		if v, val := g.boolVal(); !val {
			if call, ok := v.(*ssa.Call); ok {
				if cal := call.Call.StaticCallee(); cal != nil && fname(cal) == "Stop" && cal.Signature.Recv() != nil && isNamedType(cal.Signature.Recv().Type(), "time", "Timer") {
					stopFalse = true
				}
			}
		}
		if cf, ok := g.asCmp(); ok && cf.op == token.NEQ && (isNilConst(cf.y) || isNilConst(cf.x)) {
			nonNil = true
		}
	}
	// plain `if !t.Stop() { <-t.C }` (xsync.Group) has no nil test: the channel is the timer's own field
	if stopFalse && !nonNil {
		if u, ok := in.(*ssa.UnOp); ok {
			if ld, ok := u.X.(*ssa.UnOp); ok {
				if fa, ok := ld.X.(*ssa.FieldAddr); ok && fieldName(fa.X.Type(), fa.Field) == "C" {
					return true
				}
			}
		}
	}
	return stopFalse && nonNil
}

// ruleWgCount: wg.Add's argument matches the number of goroutines that defer wg.Done() first.
func ruleWgCount(c *Ctx, r *R, names ...string) {
	for _, name := range names {
		bi := bgAnalyse(c, name)
		if bi == nil {
			r.undecided(name+"|missing", token.NoPos, "anchor function not found")
			continue
		}
		var add *ssa.Call
		instrs(bi.fn, func(b *ssa.BasicBlock, i int, in ssa.Instruction) {
			if call, ok := in.(*ssa.Call); ok {
				if cal := call.Call.StaticCallee(); cal != nil && fname(cal) == "Add" && cal.Signature.Recv() != nil && isNamedType(cal.Signature.Recv().Type(), "sync", "WaitGroup") {
					add = call
				}
			}
		})
		nl := 0
		for _, g := range bi.spawned {
			if bi.spawnHow[g] == "helper" {
				nl++
				r.discharged(name+"|wg-add:helper#"+itoa(nl), bi.spawnAt[g].Pos(), "started by a helper that calls wg.Add(1) before its go statement; the goroutine defers wg.Done() first")
			}
			if bi.spawnHow[g] == "launcher" {
				nl++
				r.discharged(name+"|wg-add:launcher#"+itoa(nl), bi.spawnAt[g].Pos(), "started through a helper that calls wg.Add(1) before its go statement and defers wg.Done() first in the goroutine")
			}
		}
		goN := 0
		allFirst := true
		var firstSpawn ssa.Instruction
		for _, g := range bi.spawned {
			if bi.spawnHow[g] != "go" {
				continue
			}
			goN++
			if firstSpawn == nil {
				firstSpawn = bi.spawnAt[g]
			}
			// first deferred call is wg.Done
			var firstDefer *ssa.Defer
			for _, in := range g.Blocks[0].Instrs {
				if d, ok := in.(*ssa.Defer); ok {
					firstDefer = d
					break
				}
			}
			isDone := false
			if firstDefer != nil {
				if cal := firstDefer.Call.StaticCallee(); cal != nil && fname(cal) == "Done" {
					isDone = true
				}
			}
			if !isDone {
				allFirst = false
			}
		}
		if goN == 0 {
			continue
		}
		key := name + "|wg-add"
		if add == nil {
			r.violated(key, bi.fn.Pos(), "goroutines are started with `go` but no WaitGroup.Add accounts for them")
			continue
		}
		arg := add.Call.Args[len(add.Call.Args)-1]
		okCount := false
		detail := ""
		if cst, ok := arg.(*ssa.Const); ok {
			okCount = int(cst.Int64()) == goN
			detail = "wg.Add(" + cst.Value.String() + ") but " + itoa(goN) + " goroutines defer wg.Done()"
		} else if call, ok := resolveVal(arg).(*ssa.Call); ok {
			if b2, ok := call.Call.Value.(*ssa.Builtin); ok && b2.Name() == "len" && goN == 1 {
				// one `go` site inside a loop over 0..len(x)
				for _, g := range bi.spawned {
					if bi.spawnHow[g] == "go" {
						lenArg := call.Call.Args[0]
						if ld, ok := lenArg.(*ssa.UnOp); ok {
							if cell, ok := ld.X.(*ssa.Alloc); ok {
								for _, st := range storesTo(cell) {
									lenArg = st.Val
								}
							}
						}
						okCount = inLoopBoundedByLen(bi.spawnAt[g], lenArg)
					}
				}
				detail = "wg.Add(len(x)) must match a spawn loop over 0..len(x)"
			}
		}
		okOrder := firstSpawn != nil && add.Block().Dominates(firstSpawn.Block())
		r.ok(okCount && allFirst && okOrder, key, add.Pos(), detail+"; every `go` closure's first deferred call must be wg.Done(), and Add must precede the first spawn")
	}
}

var _ = sort.Strings
var _ types.Type

// goLauncher: h is a self-accounting goroutine launcher for its func parameter #ai: it calls WaitGroup.Add(1) unconditionally
// before its only go statement, the goroutine's first deferred call is WaitGroup.Done(), it calls the parameter
// unconditionally, and h does nothing else with the parameter.
func goLauncher(h *ssa.Function, ai int) bool {
	h = origin(h)
	if ai >= len(h.Params) || h.Blocks == nil {
		return false
	}
	prm := h.Params[ai]
	if _, isFunc := prm.Type().Underlying().(*types.Signature); !isFunc {
		return false
	}
	var goIn *ssa.Go
	var add *ssa.Call
	nGo := 0
	instrs(h, func(b *ssa.BasicBlock, i int, in ssa.Instruction) {
		switch x := in.(type) {
		case *ssa.Go:
			goIn = x
			nGo++
		case *ssa.Call:
			if cal := x.Call.StaticCallee(); cal != nil && cal.Name() == "Add" && cal.Signature.Recv() != nil && isNamedType(cal.Signature.Recv().Type(), "sync", "WaitGroup") && isConstInt(x.Call.Args[len(x.Call.Args)-1], 1) {
				add = x
			}
		}
	})
	if nGo != 1 || add == nil || add.Block() != h.Blocks[0] || goIn.Block() != h.Blocks[0] || idxIn(add) > idxIn(goIn) {
		return false
	}
	g := staticCallee(&goIn.Call)
	if g == nil || g.Parent() != h || len(g.Blocks) == 0 {
		return false
	}
	var firstDefer *ssa.Defer
	calls := false
	for _, in := range g.Blocks[0].Instrs {
		if d, ok := in.(*ssa.Defer); ok && firstDefer == nil {
			firstDefer = d
		}
		if call, ok := in.(*ssa.Call); ok && firstDefer != nil {
			if valueProv(call.Call.Value, provEnv{}).root == ssa.Value(prm) {
				calls = true
			}
		}
	}
	if firstDefer == nil || !calls {
		return false
	}
	if cal := firstDefer.Call.StaticCallee(); cal == nil || cal.Name() != "Done" || cal.Signature.Recv() == nil || !isNamedType(cal.Signature.Recv().Type(), "sync", "WaitGroup") {
		return false
	}
	// nothing else is done with the parameter in h itself (it is only captured by the goroutine)
	if prm.Referrers() != nil {
		for _, ref := range *prm.Referrers() {
			switch x := ref.(type) {
			case *ssa.DebugRef:
			case *ssa.Store:
				if _, isCell := x.Addr.(*ssa.Alloc); !isCell {
					return false
				}
			case *ssa.MakeClosure:
				if x.Fn != ssa.Value(g) {
					return false
				}
			default:
				return false
			}
		}
	}
	return true
}

// selfAccountedGoroutines: the function literals h starts with `go`, provided h calls WaitGroup.Add(1) unconditionally before
// its (only) go statement and the goroutine's first deferred call is WaitGroup.Done().
func selfAccountedGoroutines(h *ssa.Function) []*ssa.Function {
	var goIn *ssa.Go
	var add *ssa.Call
	nGo := 0
	instrs(h, func(b *ssa.BasicBlock, i int, in ssa.Instruction) {
		switch x := in.(type) {
		case *ssa.Go:
			goIn = x
			nGo++
		case *ssa.Call:
			if cal := x.Call.StaticCallee(); cal != nil && cal.Name() == "Add" && cal.Signature.Recv() != nil && isNamedType(cal.Signature.Recv().Type(), "sync", "WaitGroup") && isConstInt(x.Call.Args[len(x.Call.Args)-1], 1) {
				add = x
			}
		}
	})
	if nGo != 1 || add == nil || add.Block() != h.Blocks[0] || goIn.Block() != h.Blocks[0] || idxIn(add) > idxIn(goIn) {
		return nil
	}
	g := staticCallee(&goIn.Call)
	if g == nil || g.Parent() != h || len(g.Blocks) == 0 {
		return nil
	}
	for _, in := range g.Blocks[0].Instrs {
		if d, ok := in.(*ssa.Defer); ok {
			if cal := d.Call.StaticCallee(); cal != nil && cal.Name() == "Done" && cal.Signature.Recv() != nil && isNamedType(cal.Signature.Recv().Type(), "sync", "WaitGroup") {
				return []*ssa.Function{g}
			}
			return nil
		}
	}
	return nil
}

// returnedWrapperType: the concrete (pointer-to-struct) type of what fn returns, behind interface conversions - whether the
// value is a literal of fn or the result of a constructor helper.
func returnedWrapperType(fn *ssa.Function) types.Type {
	var out types.Type
	instrs(fn, func(_ *ssa.BasicBlock, _ int, in ssa.Instruction) {
		ret, ok := in.(*ssa.Return)
		if !ok {
			return
		}
		for _, res := range ret.Results {
			v := res
			for {
				switch x := v.(type) {
				case *ssa.MakeInterface:
					v = x.X
					continue
				case *ssa.ChangeInterface:
					v = x.X
					continue
				}
				break
			}
			v = resolveVal(v)
			if pt, ok := v.Type().Underlying().(*types.Pointer); ok {
				if nt, ok := pt.Elem().(*types.Named); ok {
					if _, isSt := nt.Underlying().(*types.Struct); isSt {
						out = v.Type()
					}
				}
			}
		}
	})
	return out
}

// viaConstructor: v is a call of an in-package constructor and lit the function literal that constructor returns
// (eg.Go(newContextWorker(ctx, &x, n, f))).
func viaConstructor(v ssa.Value, lit *ssa.Function) bool {
	call, ok := v.(*ssa.Call)
	if !ok || lit == nil || lit.Parent() == nil {
		return false
	}
	cal := call.Call.StaticCallee()
	return cal != nil && origin(cal) == origin(lit.Parent())
}

// cancelsFirst: the literal calls the captured cancel function (the one context.WithCancel returned to the literal's parent) in
// its entry block.
func cancelsFirst(lit *ssa.Function, cancel ssa.Value) bool {
	if len(lit.Blocks) == 0 {
		return false
	}
	for _, in := range lit.Blocks[0].Instrs {
		call, ok := in.(*ssa.Call)
		if !ok || call.Call.IsInvoke() {
			continue
		}
		ld, ok := call.Call.Value.(*ssa.UnOp)
		if !ok || ld.Op != token.MUL {
			continue
		}
		if cell := cellOf(ld.X); cell != nil {
			for _, st := range storesTo(cell) {
				if st.Val == cancel {
					return true
				}
			}
		}
	}
	return false
}

// fieldBaseIs: the field address fa is a field of base, directly or through structs nested in it by value
// (&out.workers.cancel).
func fieldBaseIs(fa *ssa.FieldAddr, base ssa.Value) bool {
	for d := 0; d < 4; d++ {
		if fa.X == base {
			return true
		}
		inner, ok := fa.X.(*ssa.FieldAddr)
		if !ok {
			return false
		}
		fa = inner
	}
	return false
}
