package main

import (
	"go/token"
	"go/types"
	"sort"
	"strings"

	"golang.org/x/tools/go/ssa"
)

func init() {
	register(&Property{
		ID:    "C03",
		Title: "tree stays balanced and half-full: O(log n) work, no retained garbage",
		Rules: []*Rule{
			{ID: "C03.const-rel", Floor: 6, Clause: "occupancy arithmetic on the declared constants and array lengths: maxKVs == branchFactor-1, 2*minKVs <= maxKVs, minKVs >= 1, len(keys) == len(values) == maxKVs, len(children) == branchFactor, amalgam1.Len() == maxKVs+1; shipped fan-out 16 (minKVs+1 == 8 children, 15 comparisons per level)",
				Run: ruleTreeConsts},
			{ID: "C03.split-halves", Floor: 3, Clause: "in overfill left.n and right.n fold to constants, both in [minKVs, maxKVs], and left.n + right.n + 1 == maxKVs + 1; the in-place rewrite of the left half iterates downwards (the amalgam view reads the arrays it writes)",
				Run: ruleTreeSplit},
			{ID: "C03.thresholds", Floor: 6, Clause: "rotateLeft/rotateRight are called only under donor.n > minKVs; steal/merge are called only for a node known to be under-full (n < minKVs, directly or through removeRightmost's third result); merge picks the left sibling under left.n <= minKVs",
				Run: ruleTreeThresholds},
			{ID: "C03.size-count", Floor: 6, Clause: "Put increments size exactly once on inserting paths and not at all on the overwrite path; Delete decrements exactly once past the found-key point and not at all when the key is absent; nothing else writes size",
				Run: ruleTreeSize},
			{ID: "C03.shrink-zero", Floor: 7, Clause: "wherever a node that stays linked loses an entry, the vacated key and value slots are zeroed on the same path (removeOne / Clear / explicit zero store), and a child pointer that is moved elsewhere is removed from the donor; removeOne zeroes the last slot",
				Run: ruleTreeShrinkZero},
			{ID: "C03.search-cost", Floor: 7, Clause: "searchNode calls the comparator at most once per loop iteration and is bounded by x.n; Get, Contains, Put, Delete and find call searchNode once per descent step and then descend into children[idx] or stop",
				Run: ruleTreeSearchCost},
			{ID: "C03.parent-links", Floor: 8, Clause: "whenever a child pointer is placed into X.children (store, insertOne, copy) the same function sets that child's parent to X (nil-guard allowed); the root has no parent",
				Run: ruleTreeParentLinks},
		},
		NotCovered: []string{"that steal/merge cascades actually restore the occupancy invariant for every history (value-level; needs a functional-correctness verifier for Go)", "every key reachable on exactly one search path (follows from the B-tree algorithms being right)"},
	})
}

func ruleTreeConsts(c *Ctx, r *R) {
	bf, ok1 := constOf(c, treeRel, "branchFactor")
	mx, ok2 := constOf(c, treeRel, "maxKVs")
	mn, ok3 := constOf(c, treeRel, "minKVs")
	if !ok1 || !ok2 || !ok3 {
		r.undecided("tree|constants", token.NoPos, "branchFactor/maxKVs/minKVs not found")
		return
	}
	r.ok(mx == bf-1, "tree|maxKVs==branchFactor-1", token.NoPos, "maxKVs must be branchFactor-1")
	r.ok(2*mn <= mx && mn >= 1, "tree|2*minKVs<=maxKVs", token.NoPos, "two minimally filled siblings plus their separator must fit one node: (minKVs-1)+minKVs+1 <= maxKVs, and minKVs >= 1")
	r.ok(2*mn+1 >= mx, "tree|split-halves-reach-minKVs", token.NoPos, "a split of maxKVs+1 entries into two halves plus a separator must give both halves >= minKVs")
	nt, _ := c.Pkgs[treeRel].Types.Scope().Lookup("node").(*types.TypeName)
	if nt == nil {
		r.undecided("tree|node-type", token.NoPos, "type node not found")
		return
	}
	st := nt.Type().Underlying().(*types.Struct)
	lens := map[string]int64{}
	for i := 0; i < st.NumFields(); i++ {
		if a, ok := st.Field(i).Type().Underlying().(*types.Array); ok {
			lens[st.Field(i).Name()] = a.Len()
		}
	}
	r.ok(lens["keys"] == mx && lens["values"] == mx, "tree|len(keys)==len(values)==maxKVs", nt.Pos(), "node.keys and node.values must both hold maxKVs entries")
	r.ok(lens["children"] == bf, "tree|len(children)==branchFactor", nt.Pos(), "node.children must hold branchFactor pointers")
	if ln := c.fn(treeRel + ".amalgam1.Len"); ln != nil {
		v := int64(-1)
		instrs(ln, func(b *ssa.BasicBlock, i int, in ssa.Instruction) {
			if ret, ok := in.(*ssa.Return); ok {
				v, _ = evalConst(returnedValue(ret, 0), 0)
			}
		})
		r.ok(v == mx+1, "tree|amalgam1.Len==maxKVs+1", ln.Pos(), "the amalgam of a full node plus one extra entry has maxKVs+1 entries")
	}
	// n is an int8: maxKVs must fit
	r.ok(mx <= 127, "tree|n-fits-int8", token.NoPos, "node.n is an int8")
	r.ok(bf == 16 && mn+1 == 8 && mx == 15, "tree|shipped-fanout", token.NoPos, "the documented bounds (depth <= 1+floor(log8((n+1)/2)), <= 15 comparisons per level) assume branchFactor 16; it is now "+itoa(int(bf))+" (min children "+itoa(int(mn+1))+", max keys "+itoa(int(mx))+")")
}

func ruleTreeSplit(c *Ctx, r *R) {
	fn := bt(c, "overfill")
	mx, _ := constOf(c, treeRel, "maxKVs")
	mn, _ := constOf(c, treeRel, "minKVs")
	if fn == nil {
		r.undecided("tree.btree.overfill|missing", token.NoPos, "anchor not found")
		return
	}
	var ln, rn int64 = -1, -1
	// (the two halves may be filled by one helper called twice: right.fillFrom(&all, from, n, leaf); left.fillFrom(...))
	inCaller := func(v ssa.Value, chain []*ssa.Call) ssa.Value {
		for d := 0; d < 4; d++ {
			switch x := v.(type) {
			case *ssa.Convert:
				if _, isP := x.X.(*ssa.Parameter); isP && len(chain) > 0 {
					v = x.X
					continue
				}
			case *ssa.Parameter:
				if len(chain) > 0 {
					return argOf(x, chain)
				}
			}
			break
		}
		return v
	}
	for _, di := range deepInstrs(fn, 2) {
		if len(di.calls) > 0 {
			if cal := staticCallee(&di.calls[0].Call); cal == nil || cal.Signature.Recv() == nil || !isNamedType(cal.Signature.Recv().Type(), treeRel, "node") {
				continue // only helpers of node that fill a half (not the amalgam's accessors, Clear, ...)
			}
		}
		st, ok := di.in.(*ssa.Store)
		if !ok {
			continue
		}
		fa, ok := st.Addr.(*ssa.FieldAddr)
		if !ok || fieldName(fa.X.Type(), fa.Field) != "n" {
			continue
		}
		v, ok := evalConst(inCaller(st.Val, di.calls), 0)
		if !ok {
			continue
		}
		nd := inCaller(fa.X, di.calls)
		if _, fresh := nd.(*ssa.Alloc); fresh {
			if _, lit := st.Val.(*ssa.Const); lit {
				continue // parent.n = 1 of a new root
			}
			rn = v // right := &node{}
		} else if strings.HasPrefix(path(nd), "phi:x") || path(nd) == "x" || strings.Contains(path(nd), "x") {
			ln = v
		}
	}
	r.ok(ln >= mn && ln <= mx && rn >= mn && rn <= mx, "tree.btree.overfill|halves-in-range", fn.Pos(), "after a split left.n = "+itoa(int(ln))+" and right.n = "+itoa(int(rn))+" must both lie in [minKVs, maxKVs] = ["+itoa(int(mn))+", "+itoa(int(mx))+"]")
	r.ok(ln+rn+1 == mx+1, "tree.btree.overfill|halves-sum", fn.Pos(), "left.n + right.n + separator must account for all maxKVs+1 entries")
	// in-place rewrite of the left half must iterate downwards
	k := 0
	for _, di := range deepInstrs(fn, 2) {
		if len(di.calls) > 0 {
			if cal := staticCallee(&di.calls[0].Call); cal == nil || cal.Signature.Recv() == nil || !isNamedType(cal.Signature.Recv().Type(), treeRel, "node") {
				continue
			}
		}
		st, ok := di.in.(*ssa.Store)
		if !ok {
			continue
		}
		nd, arr, ok := nodeArray(st.Addr)
		if !ok {
			continue
		}
		if _, fresh := inCaller(nd, di.calls).(*ssa.Alloc); fresh {
			continue // writes into the new right node do not alias the view
		}
		call, ok := st.Val.(*ssa.Call)
		if !ok {
			continue
		}
		cal := staticCallee(&call.Call)
		if cal == nil || (fname(cal) != "Key" && fname(cal) != "Value" && fname(cal) != "Child") {
			continue
		}
		ia, ok := st.Addr.(*ssa.IndexAddr)
		if !ok {
			continue
		}
		k++
		phi, ok := ia.Index.(*ssa.Phi)
		down := false
		if ok {
			for _, e := range phi.Edges {
				if sub, ok := e.(*ssa.BinOp); ok && sub.Op == token.SUB && sub.X == ssa.Value(phi) && isConstInt(sub.Y, 1) {
					down = true
				}
			}
		}
		r.ok(down, "tree.btree.overfill|left-"+arr+"-rewritten-downwards", st.Pos(), "left IS x, and all."+fname(cal)+"(i) reads x."+arr+"[i] or x."+arr+"[i-1] on the fly: rewriting left."+arr+" upwards overwrites slots before they are read (entries are duplicated and others lost)")
	}
	if k < 3 {
		r.violated("tree.btree.overfill|left-rewrite", fn.Pos(), "expected in-place rewrites of left.keys, left.values and left.children from the amalgam view")
	}
}

func ruleTreeThresholds(c *Ctx, r *R) {
	steal := bt(c, "steal")
	if steal != nil {
		instrs(steal, func(b *ssa.BasicBlock, i int, in ssa.Instruction) {
			call, ok := in.(*ssa.Call)
			if !ok {
				return
			}
			cal := staticCallee(&call.Call)
			if cal == nil || (fname(cal) != "rotateLeft" && fname(cal) != "rotateRight") {
				return
			}
			as := argsAs(&call.Call)
			if len(as) < 3 || as[1] == nil || as[2] == nil {
				r.undecided("tree.btree.steal|donor-guard:"+fname(cal), call.Pos(), "cannot match the arguments of "+fname(cal))
				return
			}
			donor := as[2] // rotateLeft(x, right): donor = right
			if fname(cal) == "rotateRight" {
				donor = as[1] // rotateRight(left, x): donor = left
			}
			good := false
			dn := valueProv(donor, provEnv{}).String() + ".n"
			for _, g := range guardsOf(b) {
				if cf, ok := g.asCmp(); ok && cf.op == token.GTR && valueProv(cf.x, cf.env()).String() == dn && strings.HasSuffix(path(cf.y), "7") {
					good = true
				}
				if cf, ok := g.asCmp(); ok && cf.op == token.GTR && valueProv(cf.x, cf.env()).String() == dn {
					if v, ok := evalConst(cf.y, 0); ok {
						mn, _ := constOf(nil2(c), treeRel, "minKVs")
						good = v == mn
					}
				}
			}
			r.ok(good, "tree.btree.steal|donor-guard:"+fname(cal), call.Pos(), "an entry may be taken only from a sibling with n > minKVs: taking one from a node at exactly minKVs leaves it under-full")
		})
	} else {
		r.undecided("tree.btree.steal|missing", token.NoPos, "anchor not found")
	}
	mn, _ := constOf(c, treeRel, "minKVs")
	// repair triggers: every call of steal / merge anywhere in the package
	for _, fn := range c.funcsOfPkg(treeRel) {
		if fn.Blocks == nil {
			continue
		}
		name := fn.Name()
		k := 0
		instrs(fn, func(b *ssa.BasicBlock, i int, in ssa.Instruction) {
			call, ok := in.(*ssa.Call)
			if !ok {
				return
			}
			cal := staticCallee(&call.Call)
			if cal == nil || (fname(cal) != "steal" && fname(cal) != "merge") || rootFn(cal).Pkg != fn.Pkg {
				return
			}
			as := argsAs(&call.Call)
			if len(as) < 2 || as[1] == nil {
				return
			}
			k++
			x := as[1]
			good := underfullAt(c, x, b, mn, 0, map[ssa.Value]bool{})
			r.ok(good, "tree.btree."+name+"|repair-trigger:"+fname(cal)+"#"+itoa(k), call.Pos(), fname(cal)+"("+path(x)+") must be reached only for a node known to have n < minKVs (established by a guard here, at the place the node value was produced, or at every call site)")
		})
	}
	if mg := bt(c, "merge"); mg != nil {
		good := false
		instrs(mg, func(b *ssa.BasicBlock, i int, in ssa.Instruction) {
			call, ok := in.(*ssa.Call)
			if !ok {
				return
			}
			if cal := staticCallee(&call.Call); cal == nil || fname(cal) != "mergeTwo" {
				return
			}
			for _, g := range append(guardsOf(b), guardsOfSelf(b)...) {
				as := argsAs(&call.Call)
				if len(as) < 2 || as[1] == nil {
					continue
				}
				if cf, ok := g.asCmp(); ok && cf.op == token.LEQ && valueProv(cf.x, cf.env()).String() == valueProv(as[1], provEnv{}).String()+".n" {
					if v, okc := evalConst(cf.y, 0); okc && v == mn {
						good = true
					}
				}
			}
		})
		if !good {
			// mergeTwo inlined into merge: the pair is chosen by assignments (`right = x` under the test, `left = x` otherwise);
			// the left sibling survives as the left node of the pair only on the edge on which left.n <= minKVs was established
			isLeftSib := func(v ssa.Value) bool {
				ex, ok := resolveVal(v).(*ssa.Extract)
				if !ok || ex.Index != 0 {
					return false
				}
				call, ok := ex.Tuple.(*ssa.Call)
				return ok && staticCallee(&call.Call) != nil && fname(staticCallee(&call.Call)) == "siblings"
			}
			nEdges, okEdges := 0, 0
			instrs(mg, func(b *ssa.BasicBlock, _ int, in ssa.Instruction) {
				phi, ok := in.(*ssa.Phi)
				if !ok {
					return
				}
				hasOther := false
				for _, e := range phi.Edges {
					if !isLeftSib(e) {
						hasOther = true
					}
				}
				if !hasOther {
					return
				}
				for k, e := range phi.Edges {
					if !isLeftSib(e) {
						continue
					}
					nEdges++
					pb := b.Preds[k]
					for _, g := range append(guardsOf(pb), guardsOfSelf(pb)...) {
						if cf, ok := g.asCmp(); ok && cf.op == token.LEQ && valueProv(cf.x, cf.env()).String() == valueProv(e, provEnv{}).String()+".n" {
							if v, okc := evalConst(cf.y, 0); okc && v == mn {
								okEdges++
								break
							}
						}
					}
				}
			})
			good = nEdges > 0 && nEdges == okEdges
		}
		if !good {
			// the merging helper is told WHERE to merge (mergeAt(parent, sepIdx)) and picks the pair itself: the node that
			// absorbs the other one (the destination of the key copy), written in merge's terms through the call, is the
			// left sibling exactly when it is not x; that call must sit under <that node>.n <= minKVs
			if mt := bt(c, "mergeTwo"); mt != nil && mt != mg {
				var dst ssa.Value
				instrs(mt, func(_ *ssa.BasicBlock, _ int, in ssa.Instruction) {
					if call, ok := in.(*ssa.Call); ok {
						if bi, ok := call.Call.Value.(*ssa.Builtin); ok && bi.Name() == "copy" {
							if nd, arr, ok := nodeArray(call.Call.Args[0]); ok && arr == "keys" {
								dst = nd
							}
						}
					}
				})
				if dst != nil {
					instrs(mg, func(b *ssa.BasicBlock, _ int, in ssa.Instruction) {
						call, ok := in.(*ssa.Call)
						if !ok || staticCallee(&call.Call) == nil || origin(staticCallee(&call.Call)) != origin(mt) {
							return
						}
						sL := symOf(dst, provEnv{chain: []*ssa.Call{call}})
						if sL.op == "leaf" {
							return // a node merge was given (x itself or an opaque value): the forms above decide those
						}
						for _, g := range append(guardsOf(b), guardsOfSelf(b)...) {
							cf, ok := g.asCmp()
							if !ok || cf.op != token.LEQ {
								continue
							}
							if v, okc := evalConst(cf.y, 0); !okc || v != mn {
								continue
							}
							if symOf(cf.x, cf.env()).String() == sL.String()+".n" {
								good = true
							}
						}
					})
				}
			}
		}
		r.ok(good, "tree.btree.merge|left-sibling-fits", mg.Pos(), "merge may pick the left sibling only under left.n <= minKVs (so that both nodes plus the separator fit one node)")
	}
}

func nil2(c *Ctx) *Ctx { return c }

// underfullAt: is node value v known to satisfy v.n < minKVs when control is in block b? Sources of knowledge: a guard that
// dominates b (or the short-circuit edge into b); v merges values each of which is known under-full where it is produced
// (nil alternatives are ignored: they are excluded by the caller's nil test or crash at once); v is the result of a helper
// whose non-nil results are under-full at their return; v is a parameter of an unexported helper and every call site passes an
// under-full node.
func underfullAt(c *Ctx, v ssa.Value, b *ssa.BasicBlock, mn int64, depth int, seen map[ssa.Value]bool) bool {
	if depth > 6 || seen[v] {
		return false
	}
	seen[v] = true
	defer delete(seen, v)
	if isNilConst(v) {
		return true
	}
	vp := valueProv(v, provEnv{}).String()
	var curEnv provEnv
	sameNode := func(x ssa.Value) bool {
		// x is <node>.n
		ld, ok := resolveVal(x).(*ssa.UnOp)
		if !ok {
			return false
		}
		fa, ok := ld.X.(*ssa.FieldAddr)
		if !ok || fieldName(fa.X.Type(), fa.Field) != "n" {
			return false
		}
		return fa.X == v || resolveVal(fa.X) == resolveVal(v) || valueProv(fa.X, curEnv).String() == vp
	}
	var gs []guard
	gs = append(gs, guardsOf(b)...)
	if len(b.Preds) == 1 {
		gs = append(gs, edgeGuard(b.Preds[0], b)...)
	}
	for _, g := range gs {
		cf, ok := g.asCmp()
		if !ok {
			continue
		}
		x, y, op := cf.x, cf.y, cf.op
		curEnv = cf.env() // (x.underfilled(): the comparison lives in the helper's frame)
		if sameNode(y) {
			x, y, op = y, x, flip(op)
		}
		if !sameNode(x) {
			continue
		}
		if k, okc := evalConst(y, 0); okc && ((op == token.LSS && k <= mn) || (op == token.LEQ && k < mn)) {
			return true
		}
	}
	switch x := v.(type) {
	case *ssa.Phi:
		for i, e := range x.Edges {
			if !underfullAt(c, e, x.Block().Preds[i], mn, depth+1, seen) {
				return false
			}
		}
		return len(x.Edges) > 0
	case *ssa.Extract:
		if call, ok := x.Tuple.(*ssa.Call); ok {
			return underfullResult(c, call, x.Index, mn, depth, seen)
		}
	case *ssa.Call:
		return underfullResult(c, x, 0, mn, depth, seen)
	case *ssa.UnOp:
		// a local variable: every stored value
		if cell, ok := x.X.(*ssa.Alloc); ok && x.Op == token.MUL {
			sts := storesTo(cell)
			if len(sts) == 0 {
				return false
			}
			for _, st := range sts {
				if !underfullAt(c, st.Val, st.Block(), mn, depth+1, seen) {
					return false
				}
			}
			return true
		}
	case *ssa.Parameter:
		fn := x.Parent()
		if token.IsExported(fn.Name()) || fn.Parent() != nil {
			return false
		}
		pi := -1
		for i, p := range fn.Params {
			if p == x {
				pi = i
			}
		}
		sites := callSitesOf(c, fn)
		if pi < 0 || len(sites) == 0 {
			return false
		}
		for _, site := range sites {
			if pi >= len(site.Call.Args) || !underfullAt(c, site.Call.Args[pi], site.Block(), mn, depth+1, seen) {
				return false
			}
		}
		return true
	}
	return false
}

func underfullResult(c *Ctx, call *ssa.Call, idx int, mn int64, depth int, seen map[ssa.Value]bool) bool {
	cal := staticCallee(&call.Call)
	if cal == nil || cal.Blocks == nil {
		return false
	}
	n := 0
	good := true
	instrs(cal, func(b *ssa.BasicBlock, i int, in ssa.Instruction) {
		ret, ok := in.(*ssa.Return)
		if !ok || idx >= len(ret.Results) {
			return
		}
		n++
		rv := returnedValue(ret, idx)
		// named results are spilled: the Return loads the result variable
		if !underfullAt(c, rv, b, mn, depth+1, seen) {
			good = false
		}
	})
	return good && n > 0
}

// underfullOrigin: v is a node value established to be under-full: removeRightmost's third result (assigned only
// under curr.n < minKVs), or a node tested n < minKVs on the way.
func underfullOrigin(c *Ctx, v ssa.Value, mn int64) bool {
	if ex, ok := v.(*ssa.Extract); ok && ex.Index == 2 {
		if call, ok := ex.Tuple.(*ssa.Call); ok {
			if cal := staticCallee(&call.Call); cal != nil && fname(cal) == "removeRightmost" {
				// inside removeRightmost the non-nil third result is assigned only under curr.n < minKVs
				good := false
				instrs(cal, func(b *ssa.BasicBlock, i int, in ssa.Instruction) {
					phi, ok := in.(*ssa.Phi)
					if !ok || phi.Comment != "out" {
						return
					}
					for k, e := range phi.Edges {
						if isNilConst(e) {
							continue
						}
						pred := b.Preds[k]
						for _, g := range append(guardsOf(pred), guardsOfSelf(pred)...) {
							if cf, ok := g.asCmp(); ok && cf.op == token.LSS && path(cf.x) == path(e)+".n" {
								if vv, okc := evalConst(cf.y, 0); okc && vv == mn {
									good = true
								}
							}
						}
					}
				})
				return good
			}
		}
	}
	// a plain node: some block on the way established n < minKVs (e.g. `curr.n >= minKVs || steal` false edge)
	if in, ok := v.(ssa.Instruction); ok {
		_ = in
	}
	for _, ref := range refsOf(v) {
		if iff, ok := ref.(*ssa.If); ok {
			_ = iff
		}
	}
	// accept parameters/loads whose `.n < minKVs` guard was found by the caller; otherwise look for any If in the
	// function comparing <v>.n with minKVs whose under-full edge dominates the use – handled by the caller's guard scan
	fn := valueFunc(v)
	if fn == nil {
		return false
	}
	found := false
	vp := path(v)
	instrs(fn, func(b *ssa.BasicBlock, i int, in ssa.Instruction) {
		iff, ok := in.(*ssa.If)
		if !ok {
			return
		}
		for idx := 0; idx < 2; idx++ {
			cf, ok := (guard{cond: iff.Cond, val: idx == 0}).asCmp()
			if !ok {
				continue
			}
			if vv, okc := evalConst(cf.y, 0); okc && vv == mn && cf.op == token.LSS && path(cf.x) == vp+".n" {
				found = true
			}
		}
	})
	return found
}

// onlyReachedFrom: fn is root, or an unexported function all of whose call sites lie in functions only reached from root.
func onlyReachedFrom(c *Ctx, fn, root *ssa.Function, depth int) bool {
	if fn == nil || root == nil {
		return false
	}
	if origin(fn) == origin(root) {
		return true
	}
	if depth > 4 || token.IsExported(fn.Name()) && fn.Signature.Recv() == nil {
		return false
	}
	if fn.Parent() != nil {
		return onlyReachedFrom(c, fn.Parent(), root, depth+1)
	}
	sites := callSitesOf(c, fn)
	if len(sites) == 0 {
		return false
	}
	for _, s := range sites {
		if !onlyReachedFrom(c, s.Parent(), root, depth+1) {
			return false
		}
	}
	return true
}

func refsOf(v ssa.Value) []ssa.Instruction {
	if v.Referrers() == nil {
		return nil
	}
	return *v.Referrers()
}

func valueFunc(v ssa.Value) *ssa.Function {
	switch x := v.(type) {
	case ssa.Instruction:
		return x.Parent()
	case *ssa.Parameter:
		return x.Parent()
	}
	return nil
}

// sizeDeltaHelper: fn adjusts the field by one of its parameters (t.size += sizeDelta): the parameter's index, -1 if not.
func sizeDeltaHelper(fn *ssa.Function, field string) int {
	idx := -1
	n := 0
	fn = origin(fn)
	if fn == nil || fn.Blocks == nil {
		return -1
	}
	instrs(fn, func(_ *ssa.BasicBlock, _ int, in ssa.Instruction) {
		st, ok := in.(*ssa.Store)
		if !ok {
			return
		}
		if _, f, ok := storedField(st.Addr); !ok || f != field {
			return
		}
		n++
		bin, ok := resolveVal(st.Val).(*ssa.BinOp)
		if !ok || bin.Op != token.ADD || !strings.HasSuffix(path(resolveVal(bin.X)), "."+field) {
			return
		}
		if prm, isP := resolveVal(bin.Y).(*ssa.Parameter); isP && prm.Parent() == fn {
			idx = paramIndex(prm)
		}
	})
	if n != 1 {
		return -1
	}
	return idx
}

// sizeDeltaCall: in is a call of such a helper with a constant: the constant.
func sizeDeltaCall(in ssa.Instruction, field string) (int64, bool) {
	call, ok := in.(*ssa.Call)
	if !ok {
		return 0, false
	}
	cal := staticCallee(&call.Call)
	if cal == nil {
		return 0, false
	}
	idx := sizeDeltaHelper(cal, field)
	if idx < 0 || idx >= len(call.Call.Args) {
		return 0, false
	}
	k, isK := call.Call.Args[idx].(*ssa.Const)
	if !isK || k.Value == nil {
		return 0, false
	}
	return k.Int64(), true
}

func ruleTreeSize(c *Ctx, r *R) {
	// t.size++ / t.size--, or the bookkeeping helper both share handed +1 / -1 (t.noteStructuralChange(+1))
	inc := func(in ssa.Instruction) bool {
		if d, ok := sizeDeltaCall(in, "size"); ok {
			return d == 1
		}
		return isFieldIncDec(in, "size", +1)
	}
	dec := func(in ssa.Instruction) bool {
		if d, ok := sizeDeltaCall(in, "size"); ok {
			return d == -1
		}
		return isFieldIncDec(in, "size", -1)
	}
	// who may write size
	for _, fn := range c.funcsOfPkg(treeRel) {
		name := c.nameOf(fn)
		instrs(fn, func(b *ssa.BasicBlock, i int, in ssa.Instruction) {
			st, ok := in.(*ssa.Store)
			if !ok {
				return
			}
			fa, ok := st.Addr.(*ssa.FieldAddr)
			if !ok || fieldName(fa.X.Type(), fa.Field) != "size" || !isNamedType(fa.X.Type(), treeRel, "btree") {
				return
			}
			if _, fresh := fa.X.(*ssa.Alloc); fresh {
				r.ok(isConstInt(st.Val, 0), name+"|size-init", st.Pos(), "a new tree starts with size 0")
				return
			}
			okW := (inc(in) && onlyReachedFrom(c, fn, bt(c, "Put"), 0)) || (dec(in) && onlyReachedFrom(c, fn, bt(c, "Delete"), 0))
			if !okW && sizeDeltaHelper(fn, "size") >= 0 {
				// the shared helper: every call hands it +1 from Put's side or -1 from Delete's
				sites := callSitesOf(c, fn)
				okW = len(sites) > 0
				for _, site := range sites {
					d, isD := sizeDeltaCall(site, "size")
					if !isD || !((d == 1 && onlyReachedFrom(c, site.Parent(), bt(c, "Put"), 0)) || (d == -1 && onlyReachedFrom(c, site.Parent(), bt(c, "Delete"), 0))) {
						okW = false
					}
				}
			}
			r.ok(okW, name+"|writes-size", st.Pos(), "size may only be incremented by Put and decremented by Delete (or helpers called only from them)")
		})
	}
	put := bt(c, "Put")
	if put != nil {
		// inserting paths: those that call insertIntoLeaf / overfill
		pf := &PF{N: 8, InScope: func(f *ssa.Function) bool { return f.Pkg == put.Pkg && f.Blocks != nil && f != put }} // bit0..1 = count of size++ (0,1,2+), bit2 = inserted
		pf.Instr = func(f *ssa.Function, in ssa.Instruction, q int) (StateSet, bool) {
			cnt := q & 3
			ins := q & 4
			if inc(in) {
				if cnt < 2 {
					cnt++
				}
				return ss(cnt | ins), true
			}
			if call, ok := in.(*ssa.Call); ok {
				if cal := staticCallee(&call.Call); cal != nil && (fname(cal) == "insertIntoLeaf" || fname(cal) == "overfill" || fname(cal) == "insertOne") {
					return ss(cnt | 4), true
				}
			}
			return 0, false
		}
		k := 0
		for _, e := range pf.Exits(put, ss(0)) {
			k++
			good := true
			e.States.each(func(q int) {
				cnt, ins := q&3, q&4 != 0
				if ins && cnt != 1 {
					good = false
				}
				if !ins && cnt != 0 {
					good = false
				}
			})
			r.ok(good, "tree.btree.Put|size-return#"+itoa(k), retPos(e.Ret), "Len counts distinct keys: size must grow by exactly one on a path that inserted a key and stay unchanged on the overwrite path")
		}
	}
	del := bt(c, "Delete")
	if del != nil {
		// removal events: removeOne on keys or removeRightmost call
		pf := &PF{N: 8, InScope: func(f *ssa.Function) bool {
			return f.Pkg == del.Pkg && f.Blocks != nil && f != del && f.Name() != "removeRightmost" && f.Name() != "removeOne" && f.Name() != "steal" && f.Name() != "merge"
		}}
		pf.Instr = func(f *ssa.Function, in ssa.Instruction, q int) (StateSet, bool) {
			cnt := q & 3
			rem := q & 4
			if dec(in) {
				if cnt < 2 {
					cnt++
				}
				return ss(cnt | rem), true
			}
			if call, ok := in.(*ssa.Call); ok {
				if cal := staticCallee(&call.Call); cal != nil {
					if fname(cal) == "removeRightmost" {
						return ss(cnt | 4), true
					}
					if fname(cal) == "removeOne" {
						if _, arr, ok := nodeArray(call.Call.Args[0]); ok && arr == "keys" {
							return ss(cnt | 4), true
						}
					}
				}
			}
			return 0, false
		}
		k := 0
		for _, e := range pf.Exits(del, ss(0)) {
			k++
			good := true
			e.States.each(func(q int) {
				cnt, rem := q&3, q&4 != 0
				if rem && cnt != 1 {
					good = false
				}
				if !rem && cnt != 0 {
					good = false
				}
			})
			r.ok(good, "tree.btree.Delete|size-return#"+itoa(k), retPos(e.Ret), "size must shrink by exactly one on a path that removed a key and stay unchanged when the key is absent")
		}
	}
	// Map.Len / Set.Len read size
	for _, n := range []string{"Map.Len", "Set.Len", "btree.Len"} {
		fn := c.fn(treeRel + "." + n)
		if fn == nil {
			continue
		}
		good := returnsField(fn, "size")
		r.ok(good, treeRel+"."+n+"|returns-size", fn.Pos(), "Len must report the maintained size")
	}
}

func ruleTreeShrinkZero(c *Ctx, r *R) {
	// removeOne zeroes the last slot
	if ro := c.fn(treeRel + ".removeOne"); ro != nil {
		good := false
		instrs(ro, func(b *ssa.BasicBlock, i int, in ssa.Instruction) {
			if st, ok := in.(*ssa.Store); ok && isZeroValue(st.Val) {
				if ia, ok := st.Addr.(*ssa.IndexAddr); ok && path(ia.Index) == "(len(a)-1)" {
					good = true
				}
			}
		})
		r.ok(good, "tree.removeOne|zeroes-last", ro.Pos(), "removeOne must clear the slot it vacates at the end of the slice")
	} else {
		r.undecided("tree.removeOne|missing", token.NoPos, "anchor not found")
	}
	type inst struct{ fn, node string }
	total := 0
	for _, fn := range c.funcsOfPkg(treeRel) {
		if fn.Blocks == nil {
			continue
		}
		short := c.nameOf(fn)
		if i := strings.LastIndex(short, "."); i >= 0 {
			short = short[i+1:]
		}
		is := inst{fn: short}
		// stores that lower X.n
		k := 0
		instrs(fn, func(b *ssa.BasicBlock, i int, in ssa.Instruction) {
			st, ok := in.(*ssa.Store)
			if !ok {
				return
			}
			fa, ok := st.Addr.(*ssa.FieldAddr)
			if !ok || fieldName(fa.X.Type(), fa.Field) != "n" || !isNamedType(fa.X.Type(), treeRel, "node") {
				return
			}
			if _, fresh := fa.X.(*ssa.Alloc); fresh {
				return
			}
			xp := path(fa.X)
			lowers := false
			if bin, ok := st.Val.(*ssa.BinOp); ok && bin.Op == token.SUB && path(bin.X) == xp+".n" {
				lowers = true
			}
			isSplit := false
			if v, ok := evalConst(st.Val, 0); ok && v > 1 {
				// X.n = <positive constant> on a node that was full: the split (left.n = medianIdx)
				lowers = true
				isSplit = true
			}
			if !lowers {
				return
			}
			k++
			// zeroing events for X in the function that can reach / are reached by this store (same path: same block or dominance-related)
			zero := map[string]bool{}
			movesChild := false
			instrs(fn, func(b2 *ssa.BasicBlock, j int, in2 ssa.Instruction) {
				related := b2 == b || b2.Dominates(b) || b.Dominates(b2)
				if !related {
					return
				}
				switch y := in2.(type) {
				case *ssa.Store:
					if nd, arr, ok := nodeArray(y.Addr); ok && path(nd) == xp && isZeroValue(y.Val) {
						zero[arr] = true
					}
				case *ssa.Call:
					cal := staticCallee(&y.Call)
					if cal != nil && (fname(cal) == "removeOne" || fname(cal) == "Clear") {
						if nd, arr, ok := nodeArray(y.Call.Args[0]); ok && path(nd) == xp {
							zero[arr] = true
						}
					}
				case *ssa.UnOp:
					// a child pointer of X is read ...
					if nd, arr, ok := nodeArray(y.X); ok && arr == "children" && path(nd) == xp && y.Op == token.MUL {
						// ... and placed elsewhere
						for _, ref := range refsOf(y) {
							switch z := ref.(type) {
							case *ssa.Call:
								if cal := staticCallee(&z.Call); cal != nil && fname(cal) == "insertOne" {
									movesChild = true
								}
							case *ssa.Store:
								if nd2, arr2, ok := nodeArray(z.Addr); ok && arr2 == "children" && path(nd2) != xp && z.Val == ssa.Value(y) {
									movesChild = true
								}
							}
						}
					}
				}
			})
			key := "tree.btree." + is.fn + "|" + xp + ".n-lowered#" + itoa(k)
			// path-sensitive: on EVERY path through this lowering to a return the slot was cleared (before or after it);
			// a clearing that only happens on one branch after the lowering does not count
			{
				const (
					zL = 1 << iota
					zK
					zV
				)
				pfz := &PF{N: 8}
				pfz.Instr = func(f *ssa.Function, in2 ssa.Instruction, q int) (StateSet, bool) {
					if in2 == ssa.Instruction(st) {
						return ss(q | zL), true
					}
					arrOf := func() string {
						switch y := in2.(type) {
						case *ssa.Store:
							if nd, arr, ok := nodeArray(y.Addr); ok && path(nd) == xp && isZeroValue(y.Val) {
								return arr
							}
						case *ssa.Call:
							cal := staticCallee(&y.Call)
							if cal != nil && (fname(cal) == "removeOne" || fname(cal) == "Clear") {
								if nd, arr, ok := nodeArray(y.Call.Args[0]); ok && path(nd) == xp {
									return arr
								}
							}
						}
						return ""
					}
					switch arrOf() {
					case "keys":
						return ss(q | zK), true
					case "values":
						return ss(q | zV), true
					}
					return 0, false
				}
				for _, e := range pfz.Exits(fn, ss(0)) {
					e.States.each(func(q int) {
						if q&zL != 0 {
							if q&zK == 0 {
								zero["keys"] = false
							}
							if q&zV == 0 {
								zero["values"] = false
							}
						}
					})
				}
			}
			missing := []string{}
			for _, arr := range []string{"keys", "values"} {
				if !zero[arr] {
					missing = append(missing, arr)
				}
			}
			if movesChild && !zero["children"] {
				missing = append(missing, "children (a child pointer was moved to another node but stays referenced here)")
			}
			if isSplit && !zero["children"] {
				missing = append(missing, "children")
			}
			r.ok(len(missing) == 0, key, st.Pos(), xp+" loses an entry but its vacated slot(s) in "+strings.Join(missing, ", ")+" are not cleared on this path: the deleted/moved key, value or subtree stays reachable from the live structure")
		})
		total += k
	}
	r.ok(total >= 4, "tree|n-lowering-sites", token.NoPos, "expected the package to lower a node's n in Delete, removeRightmost, the two rotations, mergeTwo and the split (found "+itoa(total)+" sites)")
}

func ruleTreeSearchCost(c *Ctx, r *R) {
	sn := bt(c, "searchNode")
	if sn != nil {
		// comparator calls per loop iteration: count compare calls; each must be in a distinct loop body position: at most one call in the loop
		n := 0
		var cmpCall *ssa.Call
		instrs(sn, func(b *ssa.BasicBlock, i int, in ssa.Instruction) {
			if call, ok := in.(*ssa.Call); ok && isComparatorValue(call.Call.Value) {
				n++
				cmpCall = call
			}
		})
		bounded := false
		if cmpCall != nil {
			for _, g := range guardsOf(cmpCall.Block()) {
				if cf, ok := g.asCmp(); ok && cf.op == token.LSS && strings.HasSuffix(path(cf.y), "x.n") {
					bounded = true
				}
				// `for i := range x.keys[:int(x.n)]`: i < len(x.keys[:x.n])
				if cf, ok := g.asCmp(); ok && cf.op == token.LSS {
					if lc, ok := resolveVal(cf.y).(*ssa.Call); ok {
						if bi, ok := lc.Call.Value.(*ssa.Builtin); ok && bi.Name() == "len" {
							if sl, ok := resolveVal(lc.Call.Args[0]).(*ssa.Slice); ok && sl.High != nil && sl.Low == nil && strings.HasSuffix(path(resolveVal(sl.High)), "x.n") {
								bounded = true
							}
						}
					}
				}
			}
			// argument order: compare(k, x.keys[i])
			r.ok(path(cmpCall.Call.Args[0]) == "k" && strings.HasPrefix(path(cmpCall.Call.Args[1]), "x.keys["), "tree.btree.searchNode|compare-args", cmpCall.Pos(), "searchNode must compare the sought key with x.keys[i] in that order")
		}
		r.ok(n == 1 && bounded, "tree.btree.searchNode|one-compare-per-slot", sn.Pos(), "searchNode must call the comparator exactly once per examined slot, for i < x.n only (at most maxKVs comparisons per level); found "+itoa(n)+" call sites")
		// results: c < 0 → (i,false); c == 0 → (i,true); end → (n,false)
		lt, eq, end := false, false, false
		instrs(sn, func(b *ssa.BasicBlock, i int, in ssa.Instruction) {
			ret, ok := in.(*ssa.Return)
			if !ok || len(ret.Results) != 2 {
				return
			}
			found, _ := returnedValue(ret, 1).(*ssa.Const)
			for _, g := range append(guardsOf(b), guardsOfSelf(b)...) {
				if cf, ok := g.asCmp(); ok && cf.x == ssa.Value(cmpCall) && isConstInt(cf.y, 0) && found != nil {
					if cf.op == token.LSS && found.Value.String() == "false" {
						lt = true
					}
					if cf.op == token.EQL && found.Value.String() == "true" {
						eq = true
					}
				}
			}
			if found != nil && found.Value.String() == "false" && strings.HasSuffix(path(returnedValue(ret, 0)), "x.n") {
				end = true
			}
		})
		r.ok(lt && eq && end, "tree.btree.searchNode|result-shape", sn.Pos(), "searchNode must return (i,false) at the first larger key, (i,true) on an equal key and (n,false) past the last key")
	} else {
		r.undecided("tree.btree.searchNode|missing", token.NoPos, "anchor not found")
	}
	// every caller of searchNode descends one level per call: the call sits in a loop and the loop continues only
	// through children[idx] of that call's result
	nSites := 0
	for _, fn := range c.funcsOfPkg(treeRel) {
		var calls []*ssa.Call
		instrs(fn, func(b *ssa.BasicBlock, i int, in ssa.Instruction) {
			if call, ok := in.(*ssa.Call); ok {
				if cal := staticCallee(&call.Call); cal != nil && fname(cal) == "searchNode" {
					calls = append(calls, call)
				}
			}
		})
		if len(calls) == 0 {
			continue
		}
		name := c.nameOf(fn)
		nSites++
		good := len(calls) == 1
		if good {
			call := calls[0]
			inLoop := reaches(call.Block(), call.Block())
			desc := false
			instrs(fn, func(b *ssa.BasicBlock, i int, in ssa.Instruction) {
				if phi, ok := in.(*ssa.Phi); ok {
					for _, e := range phi.Edges {
						if isChildAtSearchResult(e, call) {
							desc = true
						}
					}
				}
			})
			good = inLoop && desc
			if !good && !inLoop {
				// the same descent written as recursion: the function calls itself on children[idx] of this very search
				instrs(fn, func(b *ssa.BasicBlock, i int, in ssa.Instruction) {
					rc, ok := in.(*ssa.Call)
					if !ok || staticCallee(&rc.Call) == nil || origin(staticCallee(&rc.Call)) != origin(fn) {
						return
					}
					for _, a := range rc.Call.Args {
						if isChildAtSearchResult(a, call) {
							good = true
						}
					}
				})
			}
		}
		if !good && len(calls) == 2 {
			// the loop rotated: the root is searched in front of the loop, every further level at the bottom of the body, right
			// after the step into children[idx] (idx merging both searches' results) - still one search per level
			a, b := calls[0], calls[1]
			if reaches(a.Block(), a.Block()) {
				a, b = b, a
			}
			if !reaches(a.Block(), a.Block()) && reaches(b.Block(), b.Block()) && a.Block().Dominates(b.Block()) {
				desc := false
				instrs(fn, func(_ *ssa.BasicBlock, _ int, in ssa.Instruction) {
					if phi, ok := in.(*ssa.Phi); ok {
						for _, e := range phi.Edges {
							if isChildAtSearchResult(e, a, b) {
								desc = true
							}
						}
					}
				})
				// the search in the loop looks at the node just stepped into
				stepped := false
				for _, arg := range b.Call.Args {
					if isChildAtSearchResult(arg, a, b) {
						stepped = true
					}
				}
				good = desc || stepped
			}
		}
		r.ok(good, name+"|one-search-per-level", fn.Pos(), "a lookup must call searchNode once per level and descend into children[idx] of that result")
	}
	// the lookups go through searchNode - directly, or through a descent helper they share (t.descend(k))
	nReach := 0
	for _, an := range []string{"btree.Get", "btree.Contains", "btree.Put", "btree.Delete", "cursor.find"} {
		f := c.fn(treeRel + "." + an)
		if f == nil {
			continue
		}
		for _, di := range deepInstrs(f, 2) {
			if call, ok := di.in.(*ssa.Call); ok {
				if cal := staticCallee(&call.Call); cal != nil && fname(cal) == "searchNode" {
					nReach++
					break
				}
			}
		}
	}
	r.ok(nReach >= 4 && nSites >= 1, "tree|search-sites", token.NoPos, "expected the lookups (Get/Contains or their shared helper, Put, Delete, cursor.find) to go through searchNode; found "+itoa(nReach)+" that do")
	// the public lookups reach searchNode
	for _, n := range []string{"btree.Get", "btree.Contains"} {
		f := c.fn(treeRel + "." + n)
		if f == nil {
			r.undecided(treeRel+"."+n+"|missing", token.NoPos, "anchor not found")
			continue
		}
		reach := false
		seen := map[*ssa.Function]bool{}
		var walk func(g *ssa.Function)
		walk = func(g *ssa.Function) {
			if seen[g] || g.Blocks == nil {
				return
			}
			seen[g] = true
			instrs(g, func(b *ssa.BasicBlock, i int, in ssa.Instruction) {
				if call, ok := in.(*ssa.Call); ok {
					if cal := staticCallee(&call.Call); cal != nil {
						if fname(cal) == "searchNode" {
							reach = true
						} else if cal.Pkg == f.Pkg {
							walk(cal)
						}
					}
				}
			})
		}
		walk(f)
		r.ok(reach, treeRel+"."+n+"|uses-searchNode", f.Pos(), n+" must locate keys through searchNode (the function whose comparison count is bounded)")
		// ... and through searchNode only: a comparator call anywhere else on the lookup's way (a re-check of the key the
		// cursor landed on, a seek primitive's strictness test) is a comparison on top of the at most 15 per level
		var extra *ssa.Call
		for g := range seen {
			if fname(g) == "searchNode" {
				continue
			}
			instrs(g, func(_ *ssa.BasicBlock, _ int, in ssa.Instruction) {
				call, ok := in.(*ssa.Call)
				if !ok || call.Call.IsInvoke() {
					return
				}
				if _, isFn := call.Call.Value.(*ssa.Function); isFn {
					return
				}
				if isComparatorValue(call.Call.Value) && (extra == nil || call.Pos() < extra.Pos()) {
					extra = call
				}
			})
		}
		pos := f.Pos()
		if extra != nil {
			pos = extra.Pos()
		}
		r.ok(extra == nil, treeRel+"."+n+"|compares-only-in-searchNode", pos, n+" calls the comparator outside searchNode: with a full node on every level that is more than 15 comparisons per level")
	}
}

func ruleTreeParentLinks(c *Ctx, r *R) {
	for _, fnm := range []string{"overfill", "mergeTwo", "rotateLeft", "rotateRight"} {
		fn := bt(c, fnm)
		if fn == nil {
			r.undecided("tree.btree."+fnm+"|missing", token.NoPos, "anchor not found")
			continue
		}
		// parent stores in the function: child-path → parent-path
		type ps struct{ child, parent string }
		var pstores []ps
		instrs(fn, func(b *ssa.BasicBlock, i int, in ssa.Instruction) {
			if st, ok := in.(*ssa.Store); ok {
				if fa, ok := st.Addr.(*ssa.FieldAddr); ok && fieldName(fa.X.Type(), fa.Field) == "parent" && isNamedType(fa.X.Type(), treeRel, "node") {
					pstores = append(pstores, ps{path(fa.X), path(st.Val)})
				}
			}
		})
		has := func(child, parent string) bool {
			for _, p := range pstores {
				if p.parent == parent && (p.child == child) {
					return true
				}
			}
			return false
		}
		k := 0
		instrs(fn, func(b *ssa.BasicBlock, i int, in ssa.Instruction) {
			var X, child string
			var pos token.Pos
			switch x := in.(type) {
			case *ssa.Store:
				nd, arr, ok := nodeArray(x.Addr)
				if !ok || arr != "children" || isNilConst(x.Val) {
					return
				}
				X = path(nd)
				child = path(x.Val)
				pos = x.Pos()
				// the code may address the child through the slot it was just stored in
				if has(path(x.Addr), X) {
					child = path(x.Addr)
				}
			case *ssa.Call:
				cal := staticCallee(&x.Call)
				bi, isB := x.Call.Value.(*ssa.Builtin)
				switch {
				case cal != nil && fname(cal) == "insertOne":
					nd, arr, ok := nodeArray(x.Call.Args[0])
					if !ok || arr != "children" {
						return
					}
					X, child, pos = path(nd), path(x.Call.Args[2]), x.Pos()
				case isB && bi.Name() == "copy":
					nd, arr, ok := nodeArray(x.Call.Args[0])
					nd2, arr2, ok2 := nodeArray(x.Call.Args[1])
					if !ok || !ok2 || arr != "children" || arr2 != "children" {
						return
					}
					X = path(nd)
					pos = x.Pos()
					// the moved children are addressed as Z.children[i] in a loop
					child = ""
					for _, p := range pstores {
						if strings.HasPrefix(p.child, path(nd2)+".children[") && p.parent == X {
							child = p.child
						}
					}
					if child == "" {
						k++
						r.violated("tree.btree."+fnm+"|parent-link#"+itoa(k), pos, "children of "+path(nd2)+" are copied into "+X+" but their parent pointers are not set to "+X)
						return
					}
				default:
					return
				}
			default:
				return
			}
			k++
			r.ok(has(child, X), "tree.btree."+fnm+"|parent-link#"+itoa(k)+":"+X, pos, "a child ("+child+") is placed under "+X+" but the function does not set its parent to "+X+": iteration and later repairs climb through parent pointers and would use the old parent")
		})
	}
	// root has no parent: where mergeTwo installs a new root it clears its parent
	if mt := bt(c, "mergeTwo"); mt != nil {
		good := false
		instrs(mt, func(b *ssa.BasicBlock, i int, in ssa.Instruction) {
			if st, ok := in.(*ssa.Store); ok {
				if fa, ok := st.Addr.(*ssa.FieldAddr); ok && fieldName(fa.X.Type(), fa.Field) == "root" {
					// same block stores nil to that node's parent
					for _, x := range b.Instrs {
						if s2, ok := x.(*ssa.Store); ok && isNilConst(s2.Val) {
							if fa2, ok := s2.Addr.(*ssa.FieldAddr); ok && fieldName(fa2.X.Type(), fa2.Field) == "parent" && path(fa2.X) == path(st.Val) {
								good = true
							}
						}
					}
				}
			}
		})
		r.ok(good, "tree.btree.mergeTwo|new-root-has-no-parent", mt.Pos(), "a node promoted to root must have its parent cleared")
	}
}

var _ = late(func() {
	p := properties["C03"]
	p.Rules = append(p.Rules,
		&Rule{ID: "C03.children-one-more", Floor: 4, Clause: "wherever the same helper (insertOne/removeOne/copy/Clear) is applied to X.keys[..hi] and to X.children[..hi'] in one function, hi' is hi+1 (or both are the whole array): a node with n keys has n+1 children",
			Run: ruleChildrenOneMore},
		&Rule{ID: "C03.cmp-zero-only", Floor: 10, Clause: "the three-way compare's result is only compared with 0 (every key stays on exactly one search path for any valid comparator, not only those returning -1/0/+1)",
			Run: ruleCmpZeroOnly})
})

func ruleChildrenOneMore(c *Ctx, r *R) {
	for _, fn := range c.funcsOfPkg(treeRel) {
		name := c.nameOf(fn)
		type use struct {
			hi  ssa.Value
			lo  ssa.Value
			pos token.Pos
		}
		// key: helper name + node path + argument position
		keys := map[string][]use{}
		kids := map[string][]use{}
		instrs(fn, func(b *ssa.BasicBlock, i int, in ssa.Instruction) {
			call, ok := in.(*ssa.Call)
			if !ok {
				return
			}
			hname := ""
			if cal := staticCallee(&call.Call); cal != nil {
				hname = fname(cal)
			} else if bi, ok := call.Call.Value.(*ssa.Builtin); ok {
				hname = bi.Name()
			}
			switch hname {
			case "insertOne", "removeOne", "copy", "Clear":
			default:
				return
			}
			for ai, a := range call.Call.Args {
				sl, ok := a.(*ssa.Slice)
				if !ok {
					continue
				}
				nd, arr, ok := nodeArray(sl)
				if !ok {
					continue
				}
				k := hname + "|" + path(nd) + "|arg" + itoa(ai)
				u := use{hi: sl.High, lo: sl.Low, pos: call.Pos()}
				switch arr {
				case "keys":
					keys[k] = append(keys[k], u)
				case "children":
					kids[k] = append(kids[k], u)
				}
			}
		})
		// an entry appended at the end by direct stores (rotateLeft: left.keys[left.n] = sep; left.children[left.n+1] = child):
		// the child that belongs to the right of the new last key goes one slot further than the key
		{
			type dstore struct {
				idx ssa.Value
				pos token.Pos
			}
			kst, cst := map[string][]dstore{}, map[string][]dstore{}
			instrs(fn, func(_ *ssa.BasicBlock, _ int, in ssa.Instruction) {
				st, ok := in.(*ssa.Store)
				if !ok {
					return
				}
				ia, ok := st.Addr.(*ssa.IndexAddr)
				if !ok {
					return
				}
				nd, arr, ok := nodeArray(ia.X)
				if !ok || !strings.Contains(path(ia.Index), path(nd)+".n") {
					return
				}
				switch arr {
				case "keys":
					kst[path(nd)] = append(kst[path(nd)], dstore{ia.Index, st.Pos()})
				case "children":
					if !isNilConst(st.Val) {
						cst[path(nd)] = append(cst[path(nd)], dstore{ia.Index, st.Pos()})
					}
				}
			})
			for nd, ks := range kst {
				cs := cst[nd]
				if len(ks) != 1 || len(cs) != 1 {
					continue
				}
				r.ok(plusOne(cs[0].idx, ks[0].idx), name+"|append:"+nd, cs[0].pos, "an entry appended to "+nd+" by direct stores puts its key at "+path(ks[0].idx)+" and the child to the right of it at "+path(cs[0].idx)+": that must be exactly one slot further, otherwise the node's previous last child is overwritten (its subtree becomes unreachable) and the last child slot stays nil")
			}
		}
		for k, ks := range keys {
			cs, ok := kids[k]
			if !ok {
				continue
			}
			for i := 0; i < len(ks) && i < len(cs); i++ {
				ku, cu := ks[i], cs[i]
				key := name + "|" + k + "#" + itoa(i+1)
				good := false
				why := ""
				switch {
				case ku.hi == nil && cu.hi == nil:
					// whole-array forms; when slicing from a lower bound (Clear(x.keys[n:]) / Clear(x.children[n+1:])) the lower bounds differ by one
					if ku.lo == nil && cu.lo == nil {
						good = true
					} else if ku.lo != nil && cu.lo != nil && !strings.HasPrefix(k, "Clear|") {
						continue // a copy destination offset: keys and children legitimately start at the same offset
					} else if ku.lo != nil && cu.lo != nil {
						good = plusOne(cu.lo, ku.lo)
						why = "children are cleared from " + path(cu.lo) + " but keys from " + path(ku.lo)
					}
				case ku.hi != nil && cu.hi != nil:
					good = plusOne(cu.hi, ku.hi)
					why = "keys are handled up to " + path(ku.hi) + " but children up to " + path(cu.hi)
				default:
					why = "one of keys/children is handled as a whole array, the other as a prefix"
				}
				r.ok(good, key, cu.pos, "a node with n keys has n+1 children: "+why+" (want exactly one more); the last child pointer is otherwise lost or a stale one kept")
			}
		}
	}
}

// plusOne: a == b + 1 structurally.
func plusOne(a, b ssa.Value) bool {
	ap, bp := unparen(path(a)), unparen(path(b))
	if ap == bp+"+1" || ap == "("+bp+")+1" {
		return true
	}
	// (x+1)+1 vs x+1 ; x+2 vs x+1
	if av, ok := evalConst(a, 0); ok {
		if bv, ok := evalConst(b, 0); ok {
			return av == bv+1
		}
	}
	if ab, ok := a.(*ssa.BinOp); ok && ab.Op == token.ADD {
		if bb, ok := b.(*ssa.BinOp); ok && bb.Op == token.ADD && path(ab.X) == path(bb.X) {
			if x, ok := evalConst(ab.Y, 0); ok {
				if y, ok := evalConst(bb.Y, 0); ok {
					return x == y+1
				}
			}
		}
		if path(ab.X) == path(b) {
			if x, ok := evalConst(ab.Y, 0); ok && x == 1 {
				return true
			}
		}
	}
	return false
}

// returnsField: every return of fn yields the value of a field named `field` (read directly, through a local, or through an
// in-package accessor such as t.Len()).
func returnsField(fn *ssa.Function, field string) bool {
	n, all := 0, true
	instrs(fn, func(b *ssa.BasicBlock, i int, in ssa.Instruction) {
		ret, ok := in.(*ssa.Return)
		if !ok || len(ret.Results) == 0 {
			return
		}
		n++
		if !symOf(returnedValue(ret, 0), provEnv{}).fieldSuffix(field) {
			all = false
		}
	})
	return n > 0 && all
}

// C03.index-own-count: a node's arrays (keys, values, children) are indexed / sliced with the node's OWN occupancy. An index or
// slice bound that is computed from another node's n (curr.children[int(x.n)] while walking down from x) lands, as soon as the
// two nodes hold different numbers of entries, on a slot that is not the intended one: a non-rightmost child, or a nil slot.
var _ = late(func() {
	for _, pid := range []string{"C03", "C01"} {
		pid := pid
		p := properties[pid]
		p.Rules = append(p.Rules, &Rule{ID: pid + ".index-own-count", Floor: 20, Clause: "in package tree every index / slice bound applied to X.keys, X.values or X.children that mentions a node's occupancy n mentions X's own n (an index derived from another node's count addresses the wrong slot whenever the two nodes are filled differently)",
			Run: func(c *Ctx, r *R) {
				fns := c.funcsOfPkg(treeRel)
				sort.Slice(fns, func(i, j int) bool { return c.nameOf(fns[i]) < c.nameOf(fns[j]) })
				isNode := func(t types.Type) bool { return isNamedType(t, treeRel, "node") }
				// the nodes whose n a value mentions
				var nOwners func(v ssa.Value, d int, out map[string]bool)
				nOwners = func(v ssa.Value, d int, out map[string]bool) {
					if d > 8 || v == nil {
						return
					}
					switch x := v.(type) {
					case *ssa.BinOp:
						nOwners(x.X, d+1, out)
						nOwners(x.Y, d+1, out)
					case *ssa.Convert:
						nOwners(x.X, d+1, out)
					case *ssa.ChangeType:
						nOwners(x.X, d+1, out)
					case *ssa.UnOp:
						if x.Op == token.MUL {
							if fa, ok := x.X.(*ssa.FieldAddr); ok && isNode(fa.X.Type()) && fieldName(fa.X.Type(), fa.Field) == "n" {
								out[path(fa.X)] = true
								return
							}
							if cell := cellOf(x.X); cell != nil {
								for _, st := range storesTo(cell) {
									nOwners(st.Val, d+1, out)
								}
							}
							return
						}
						nOwners(x.X, d+1, out)
					}
				}
				for _, fn := range fns {
					name := c.nameOf(fn)
					k := 0
					instrs(fn, func(_ *ssa.BasicBlock, _ int, in ssa.Instruction) {
						var base ssa.Value
						var idx []ssa.Value
						switch x := in.(type) {
						case *ssa.IndexAddr:
							base, idx = x.X, []ssa.Value{x.Index}
						case *ssa.Slice:
							base, idx = x.X, []ssa.Value{x.Low, x.High}
						default:
							return
						}
						fa, ok := base.(*ssa.FieldAddr)
						if !ok || !isNode(fa.X.Type()) {
							return
						}
						f := fieldName(fa.X.Type(), fa.Field)
						if f != "keys" && f != "values" && f != "children" {
							return
						}
						owners := map[string]bool{}
						for _, iv := range idx {
							nOwners(iv, 0, owners)
						}
						if len(owners) == 0 {
							return
						}
						k++
						self := path(fa.X)
						good := true
						other := ""
						for o := range owners {
							if o != self {
								good, other = false, o
							}
						}
						r.ok(good, name+"|"+f+"#"+itoa(k), in.Pos(), self+"."+f+" is indexed with the occupancy of "+other+", another node: whenever the two nodes hold different numbers of entries this addresses the wrong slot (a non-rightmost child, a nil child, a stale entry)")
					})
				}
			}})
	}
})

// C03.read-before-vacate: an entry (key, value, child pointer) that is moved from one node into another is read out of its slot
// BEFORE that node's arrays or count are touched: a read placed after the slot was cleared or after n was lowered
// (`left.children[left.n] = nil; left.n--; child := left.children[left.n]`) takes the neighbouring slot - the subtree that should
// move is dropped and another one ends up reachable on two paths.
var _ = late(func() {
	for _, pid := range []string{"C03", "C01"} {
		pid := pid
		p := properties[pid]
		p.Rules = append(p.Rules, &Rule{ID: pid + ".read-before-vacate", Floor: 4, Clause: "in package tree a key, value or child that is taken out of node X and put into another node is loaded from X before any store to X.n, any store into that array of X and any insertOne/removeOne on it in the same function (the slot index is only meaningful for the node as it was)",
			Run: func(c *Ctx, r *R) {
				fns := c.funcsOfPkg(treeRel)
				sort.Slice(fns, func(i, j int) bool { return c.nameOf(fns[i]) < c.nameOf(fns[j]) })
				for _, fn := range fns {
					name := c.nameOf(fn)
					k := 0
					// what touches node nd's array arr / count, and where
					type touch struct {
						in  ssa.Instruction
						nd  string
						arr string // "n" for the count
					}
					var touches []touch
					instrs(fn, func(_ *ssa.BasicBlock, _ int, in ssa.Instruction) {
						switch x := in.(type) {
						case *ssa.Store:
							if fa, ok := x.Addr.(*ssa.FieldAddr); ok && isNamedType(fa.X.Type(), treeRel, "node") && fieldName(fa.X.Type(), fa.Field) == "n" {
								touches = append(touches, touch{in, path(fa.X), "n"})
							}
							if ia, ok := x.Addr.(*ssa.IndexAddr); ok {
								if nd, arr, ok := nodeArray(ia.X); ok {
									touches = append(touches, touch{in, path(nd), arr})
								}
							}
						case *ssa.Call:
							cal := staticCallee(&x.Call)
							if cal == nil || (fname(cal) != "insertOne" && fname(cal) != "removeOne") || len(x.Call.Args) == 0 {
								return
							}
							if nd, arr, ok := nodeArray(x.Call.Args[0]); ok {
								touches = append(touches, touch{in, path(nd), arr})
							}
						}
					})
					instrs(fn, func(b *ssa.BasicBlock, i int, in ssa.Instruction) {
						ld, ok := in.(*ssa.UnOp)
						if !ok || ld.Op != token.MUL {
							return
						}
						ia, ok := ld.X.(*ssa.IndexAddr)
						if !ok {
							return
						}
						nd, arr, ok := nodeArray(ia.X)
						if !ok || ld.Referrers() == nil {
							return
						}
						src := path(nd)
						// is the loaded entry put into another node?
						moved := false
						for _, ref := range *ld.Referrers() {
							switch u := ref.(type) {
							case *ssa.Store:
								if u.Val != ssa.Value(ld) {
									continue
								}
								if ia2, ok := u.Addr.(*ssa.IndexAddr); ok {
									if nd2, _, ok := nodeArray(ia2.X); ok && path(nd2) != src {
										moved = true
									}
								}
							case *ssa.Call:
								if cal := staticCallee(&u.Call); cal != nil && fname(cal) == "insertOne" && len(u.Call.Args) > 0 {
									if nd2, _, ok := nodeArray(u.Call.Args[0]); ok && path(nd2) != src {
										moved = true
									}
								}
							}
						}
						if !moved {
							return
						}
						k++
						var first ssa.Instruction
						for _, t := range touches {
							if t.nd != src || (t.arr != arr && t.arr != "n") {
								continue
							}
							tb := t.in.Block()
							before := (tb == b && idxIn(t.in) < i) || (tb != b && tb.Dominates(b))
							if before && first == nil {
								first = t.in
							}
						}
						r.ok(first == nil, name+"|moved-entry#"+itoa(k)+":"+src+"."+arr, ld.Pos(), "the entry moved out of "+src+"."+arr+" is read after "+src+" was already modified ("+func() string {
							if first == nil {
								return ""
							}
							return c.pos(first.Pos())
						}()+"): the index now names another slot, so the wrong entry moves and the right one is lost")
					})
				}
			}})
	}
})

// isChildAtSearchResult: v is X.children[idx] with idx the position the given search call returned.
func isChildAtSearchResult(v ssa.Value, searches ...*ssa.Call) bool {
	ld, ok := resolveVal(v).(*ssa.UnOp)
	if !ok || ld.Op != token.MUL {
		return false
	}
	ia, ok := ld.X.(*ssa.IndexAddr)
	if !ok {
		return false
	}
	if _, arr, ok := nodeArray(ia.X); !ok || arr != "children" {
		return false
	}
	var isPos func(x ssa.Value, d int) bool
	isPos = func(x ssa.Value, d int) bool {
		x = stripConvs(resolveVal(x))
		switch y := x.(type) {
		case *ssa.Extract:
			for _, search := range searches {
				if y.Tuple == ssa.Value(search) && y.Index == 0 {
					return true
				}
			}
			return false
		case *ssa.Phi:
			if d > 3 {
				return false
			}
			for _, e := range y.Edges {
				if e != ssa.Value(y) && !isPos(e, d+1) {
					return false
				}
			}
			return len(y.Edges) > 0
		}
		return false
	}
	return isPos(ia.Index, 0)
}
