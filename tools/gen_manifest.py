#!/usr/bin/env python3
"""Generates /verif/MANIFEST.json from the table below (kept next to the rules so it stays current)."""
import json,subprocess
CLAIMS = {
 # id: (level text, level note, technique)
}
exec(open('/verif/tools/claims.py').read())
props=[json.loads(l) for l in open('/verif/properties.jsonl')]
import os,re
RULES={}
try:
    out=subprocess.run(['/verif/bin/verif-sa','-describe'],capture_output=True,text=True,env=dict(os.environ,GOFLAGS='-mod=vendor')).stdout
    cur=None
    for line in out.splitlines():
        m=re.match(r'### (C\d+)',line)
        if m: cur=m.group(1); RULES[cur]=[]
        m=re.match(r'\| `(C\d+\.[^`]+)`',line)
        if m and cur: RULES[cur].append(m.group(1))
except Exception as e:
    pass
checks=[];na=[]
for p in props:
    i=p['id']
    if i in CLAIMS:
        text,note,tech=CLAIMS[i]
        # the authoritative list of decided clauses is the analyser's own rule catalogue
        ids=RULES.get(i,[])
        if ids:
            text=text+" Rules (clause of each in DESIGN.md §4 and in the evidence file): "+", ".join(ids)+"."
        checks.append({
          "property_id":i,
          "quick_cmd":"./check %s"%i,
          "thorough_cmd":"./check %s --thorough"%i,
          "evidence_file":"/verif/evidence/%s.json"%i,
          "replay_cmd_template":"./check %s --replay {path}"%i,
          "engine":"verif-sa",
          "level_claimed":{"category":"other","text":text,"design_ref":"DESIGN.md §4 "+i},
          "level_note":note,
          "technique":tech})
    else:
        na.append({"property_id":i,"reason":NOT_APPLICABLE.get(i,"no static rule for this property is implemented in this snapshot of /verif; nothing is claimed")})
m={"version":1,
 "setup_cmd":"cd /verif/sa && GOFLAGS=-mod=vendor GOPROXY=off GOSUMDB=off GOTOOLCHAIN=local CGO_ENABLED=0 go build -o /verif/bin/verif-sa .",
 "hooks":{"guard":"verif","enable":"none: the static analysis needs no hooks or instrumentation in /repo; no build tag is used","baseline_off_cmd":"/verif/tools/baseline.sh /repo","source_commits":[],"add_only":True},
 "engines":[{"name":"verif-sa","path":"/verif/sa","serves_properties":sorted(CLAIMS.keys()),"kind_free_text":"repository-specific static analyser (go/packages + go/types + go/ssa of x/tools v0.29.0, vendored): path-fact/typestate dataflow with (result-sensitive) call summaries, dominating-guard queries, value provenance and symbolic expressions with helper inlining, lockset, channel-operation classifier, stream-ownership rules, parameter write-effects, loop-phi induction, shape/mirror checks over the AST, rename normalisation. Decides structural necessary conditions on every CFG path of every function; executes nothing."}],
 "checks":checks,
 "not_applicable":na,
 "notes":"Technique family: static analysis only. Every claim is at level 'other': the check decides named structural clauses (necessary conditions) of the property on all paths of the current source, listed in the evidence file together with what is not covered. Genuine defects found on the pinned tree were repaired by 'fix:' commits in /repo and are recorded in /verif/known_findings.json; see DESIGN.md §5."}
json.dump(m,open('/verif/MANIFEST.json','w'),indent=1)
print(len(checks),'checks',len(na),'not applicable')
