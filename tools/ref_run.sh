#!/bin/bash
# usage: ref_run.sh Cnn [rK ...] — apply each behaviour-preserving refactoring of ${REF_SRC:-/tmp/refout}/Cnn to a scratch worktree of /repo,
# make sure it builds and the suite passes, and run ALL property checks against it. Any VIOLATION is a false alarm.
cd /verif
export GOFLAGS=-mod=mod GOPROXY=off GOSUMDB=off GOTOOLCHAIN=local; unset GOWORK
P=$1; shift
rs=("$@"); [ ${#rs[@]} -eq 0 ] && rs=($(ls ${REF_SRC:-/tmp/refout}/$P 2>/dev/null))
for r in "${rs[@]}"; do
  [ -f ${REF_SRC:-/tmp/refout}/$P/$r/patch.diff ] || continue
  WT=/tmp/refrun-$P-$r
  git -C /repo worktree add -q --detach $WT HEAD || continue
  if git -C $WT apply ${REF_SRC:-/tmp/refout}/$P/$r/patch.diff 2>/dev/null; then
    if (cd $WT && go build ./... 2>&1 | head -3 | grep -q .); then echo "$P $r: does not build"; else
      out=$(GOFLAGS=-mod=vendor ./bin/verif-sa -prop all -repo $WT -verif /verif -no-evidence 2>&1)
      if echo "$out" | grep -q "^VIOLATION"; then
        echo "$P $r: FALSE ALARM"; echo "$out" | grep -E "violated:|undecided:" | cut -c1-330
        mkdir -p /verif/refactorings/$P-$r; cp ${REF_SRC:-/tmp/refout}/$P/$r/patch.diff ${REF_SRC:-/tmp/refout}/$P/$r/meta.json /verif/refactorings/$P-$r/ 2>/dev/null
      else
        echo "$P $r: quiet ($(echo "$out" | grep -c ' quick: ') properties checked)"
        mkdir -p /verif/refactorings/$P-$r; cp ${REF_SRC:-/tmp/refout}/$P/$r/patch.diff ${REF_SRC:-/tmp/refout}/$P/$r/meta.json /verif/refactorings/$P-$r/ 2>/dev/null
      fi
    fi
  else
    echo "$P $r: patch does not apply"
  fi
  git -C /repo worktree remove --force $WT
done
