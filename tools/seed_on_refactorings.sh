#!/bin/bash
# usage: seed_on_refactorings.sh <seed-dir-name> <Cnn> - composition test: apply the seeded mutation on top of every kept refactoring of
# that property (scratch worktrees) where the patch still applies and builds, and run the property's rules. Refactorings that alarm on
# their own (the open false alarms) are skipped: a report there would prove nothing. Prints caught / missed counts.
export GOFLAGS=-mod=mod GOPROXY=off GOSUMDB=off GOTOOLCHAIN=local; unset GOWORK
S=$1; P=$2
one() {
  n=$1; S=$2; P=$3; WT=/tmp/so-$n-$$
  git -C /repo worktree add -q --detach $WT HEAD 2>/dev/null || return
  if git -C $WT apply /verif/refactorings/$n/patch.diff 2>/dev/null && ! GOFLAGS=-mod=vendor /verif/bin/verif-sa -prop $P -repo $WT -verif /verif -no-evidence 2>&1 | grep -q "^VIOLATION" && git -C $WT apply /verif/seeded/$S/patch.diff 2>/dev/null; then
    if (cd $WT && go build ./... 2>&1 | head -1 | grep -q .); then echo "$n: nobuild"; else
      out=$(GOFLAGS=-mod=vendor /verif/bin/verif-sa -prop $P -repo $WT -verif /verif -no-evidence 2>&1)
      if echo "$out" | grep -q "^VIOLATION"; then echo "$n: caught"; else echo "$n: MISSED"; fi
    fi
  else echo "$n: n/a"; fi
  git -C /repo worktree remove --force $WT
}
export -f one
ls /verif/refactorings | grep "^$P-" | xargs -P 8 -I{} bash -c "one {} $S $P" | grep -E "MISSED|caught" | sort | awk "{c[\$2]++; if (\$2==\"MISSED\") m=m\" \"\$1} END{print \"caught=\"c[\"caught\"]+0, \"missed=\"c[\"MISSED\"]+0, m}"
