#!/bin/bash
# usage: seed_import.sh Cnn mK   — verify a sub-agent's mutation in a scratch worktree and, if it holds up,
# keep it under /verif/seeded/Cnn-mK/. Verifies: patch applies to /repo HEAD, module builds, existing suite
# passes with the mutation, demo fails with the mutation, demo passes without it.
set -u
export GOFLAGS=-mod=mod GOPROXY=off GOSUMDB=off GOTOOLCHAIN=local; unset GOWORK
P=$1; M=$2; TAG=${3:-$M}; SRC=${SEED_SRC:-/tmp/seedout}/$P/$M; WT=/tmp/seedverify-$P-$M
[ -f $SRC/patch.diff ] || { echo "no patch in $SRC"; exit 2; }
git -C /repo worktree add -q --detach $WT HEAD || exit 2
trap 'git -C /repo worktree remove --force $WT >/dev/null 2>&1' EXIT
PKG=$(python3 -c "import json;print(json.load(open('$SRC/meta.json'))['demo']['package_dir'])")
RUN=$(python3 -c "import json;print(json.load(open('$SRC/meta.json'))['demo']['run_cmd'])")
DEMO=$(ls $SRC/*_test.go | head -1)
cd $WT
cp $DEMO $PKG/zz_seed_demo_test.go
clean_out=$(timeout 300 bash -c "$RUN" 2>&1); clean_rc=$?
git apply $SRC/patch.diff || { echo "patch does not apply"; exit 2; }
go build ./... || { echo "does not build"; exit 2; }
mut_out=$(timeout 300 bash -c "$RUN" 2>&1); mut_rc=$?
rm $PKG/zz_seed_demo_test.go
suite_rc=0; fails=""
for i in 1 2; do
  for attempt in 1 2 3; do
    out=$(timeout 300 go test -vet=off -count=1 -timeout 120s ./... 2>&1) && break
    f=$(echo "$out" | grep -E '^--- FAIL' | grep -v TestJitterTicker)
    # xtime.TestJitterTicker is a wall-clock test that flakes under load (also on the clean tree): retry when it is the only failure
    if [ -n "$f" ] || [ $attempt -eq 3 ]; then suite_rc=1; fails="$fails $(echo "$out" | grep -E '^(FAIL|--- FAIL)' | tr '\n' ' ')"; break; fi
  done
done
echo "$P $M: demo clean rc=$clean_rc, demo mutated rc=$mut_rc, suite rc=$suite_rc $fails"
if [ $clean_rc -eq 0 ] && [ $mut_rc -ne 0 ] && [ $suite_rc -eq 0 ]; then
  D=/verif/seeded/$P-$TAG; mkdir -p $D
  cp $SRC/patch.diff $D/patch.diff; cp $DEMO $D/zz_seed_demo_test.go
  python3 - "$SRC/meta.json" "$D/meta.json" "$P" <<PY
import json,sys
m=json.load(open(sys.argv[1]))
m['property']=sys.argv[3]
m['confirmed_by_me']={"worktree":"scratch git worktree of /repo HEAD (removed afterwards)","ran":["demo on clean tree: pass","git apply patch.diff; go build ./...: ok","demo with mutation: FAIL","go test -vet=off -count=1 ./... x2 with mutation: pass"]}
json.dump(m,open(sys.argv[2],'w'),indent=1)
PY
  echo "KEPT $D"
else
  echo "REJECTED $P $M"; echo "--- mutated demo output:"; echo "$mut_out" | tail -5; echo "--- clean demo output:"; echo "$clean_out" | tail -5
fi
