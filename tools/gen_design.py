#!/usr/bin/env python3
"""Generates /verif/DESIGN.md: fixed prose + the rule catalogue printed by the analyser (verif-sa -describe) + the seed matrix."""
import subprocess,os
rules=subprocess.run(['/verif/bin/verif-sa','-describe'],capture_output=True,text=True,env=dict(os.environ,GOFLAGS='-mod=vendor')).stdout
seeds=open('/verif/SEEDS.md').read().split('\n\n',2)[2]
doc = r'''# Static verification of the juniper properties C01–C20 — design and what was built

Technique family: **static analysis only**. Every verdict below is computed from
the source text of `/repo` (parsed, type-checked with go/types, lowered to SSA
with go/ssa) on every run; nothing in `/repo` is executed, no path is handed to a
solver, no test is run and relabelled. Where a property (or a clause of one)
quantifies over runtime values that no sound static argument in reach can bound,
this document says so and the clause is *not* claimed.

Contents

1. What static analysis can and cannot reach in this code base
2. Architecture of the machinery (`/verif/sa`, one Go program)
3. The engines
4. Rule catalogue per property (generated from the analyser) and what is not covered
5. Genuine defects found on the pinned tree, their repair, the one known finding
6. Limits, honest non-coverage, tooling limits, known false-alarm surface
7. Interface (commands, exit codes, evidence, known findings, thorough tier)
8. Validation of the machinery: twelve rounds of seeded mutations, controls, twelve
   rounds of behaviour-preserving refactorings; which check catches which change;
   what was missed; false alarms met and how they were removed

All twenty properties are claimed at level `other`: each check decides named
**structural necessary conditions** of its property on every control-flow path
of every function concerned. None of the claims is a proof of the behavioural
property; what is *not* covered is listed per property (§4) and in every evidence
file (`coverage.not_covered`).

---------------------------------------------------------------------------

## 1. What static analysis can and cannot reach here

All twenty properties are behavioural ("for every history / schedule / input
…"). The existing suite samples a handful of histories per package (and, as the
sub-agents that seeded mutations found independently, several of its fuzz
corpora decode to no operations at all). Static analysis does not sample: a rule
of the form *"on every control-flow path of this function, X is followed by Y"*
or *"no function outside this set writes this field"* is decided for **all**
inputs and schedules at once, because it is a statement about the shape of the
code, not about a run. That is the only reason this family can say anything the
tests cannot.

The price is that only those clauses of a property whose truth *is* visible in
the shape of the code can be decided. Every property was therefore split into
clauses and, for each, a **structural necessary condition** was looked for:

* a pairing / ordering on all paths (mutation ⇒ generation bump; store ⇒
  notify; publish before signal; cancel before wait; spawn ⇒ barrier; pull ⇒
  use; place child ⇒ set parent; snapshot ⇒ unlock ⇒ wait),
* an ownership / who-may-call / who-may-write restriction (every owned `Stream`
  is closed or handed on; only `spawn` starts goroutines; only the sender closes
  `senderDone`; only Close and the first failing worker cancel Merge's context;
  no helper writes through an argument unless documented as in-place),
* a lock / atomic discipline (guarded-by, mixed atomic access),
* an error discipline (an error obtained from a source is returned unchanged;
  state is committed only after the call it depends on succeeded),
* a cancellability discipline (every blocking operation of a context-taking or
  background function can be interrupted by the right context; the cancel arm
  leaves the loop),
* type-level facts (a `Map` value holds nothing but a pointer; a type assertion
  that can meet `nil` is in comma-ok form; an `errors.Is` target is comparable),
* guard/effect agreement where the direction of a comparison is derivable from
  something *independent* of the line itself (the meaning of an error type, the
  sign convention of a three-way compare, a documented bound kind, min-heap),
* agreement between sibling implementations (mirror-image functions, the 2- and
  3-way merge, the validation blocks of `JitterTicker`, the four `rSample*`
  tails, keys/values lockstep, every front-vs-back comparison of the deque),
* small inductive facts about loops (edge-by-edge comparison of loop-header phis
  with linear offsets: consecutive runs are adjacent).

Each such condition is *necessary* for the property: breaking it breaks the
behaviour for some input/schedule (the argument is in the rule's message, which
is what a violation prints). None of them is *sufficient*.

Cross-reference run of generic linters (done once, never as a verdict):
`go vet` (`lostcancel`) and `staticcheck` (`U1000` on `mergeStream`) both landed
on `stream.Merge`, i.e. on the same defect the ownership rule found (F2).
`errcheck`, `deadcode`, `nilaway` gave nothing property-relevant.

---------------------------------------------------------------------------

## 2. Architecture

```
/verif/sa/                 Go module "verifsa" (go 1.23, golang.org/x/tools v0.29.0, vendored), package main
    main.go                CLI: verif-sa -prop Cnn|all [-tier quick|thorough] [-repo dir] [-replay file] [-list] [-describe] [-dump-layout]
    load.go                go/packages loader (+ Overlay for controls), SSA build, function index
    core.go                obligations, rules, properties, known findings, evidence writer
    ssah.go deep.go        SSA helpers: access paths, guards (edge dominance, short-circuit expansion), closure cells, local
                           variables incl. fields of local structs (lvar), deep (interprocedural) instruction views incl. deferred
                           calls, facts implied by boolean helpers
    prov.go sym.go         value provenance (through spills, captures, struct literals, helper parameters, bound receivers,
                           function-literal parameters), value leaves, symbolic expressions with helper inlining
    layout.go layout_pinned.go   rename normalisation against the struct layouts the rules were written for
    effects.go             interprocedural parameter write-effect analysis
    pf.go                  E-PF  path-fact / typestate dataflow: call summaries, defers, edge facts, boolean-result-sensitive
                           summaries, flag jump-threading, deep visits
    lockset.go             E-LS  must-held lockset with call-site entry contexts
    chanops.go bg.go       E-CB  channel-operation classifier; background-goroutine context/cancellability rules
    own.go own2.go         E-OWN stream ownership (transfer / forward / close / lend; per-field typestate with helper entries)
    mirror.go variants.go  E-SH  AST mirror/duality and lockstep cross-checks; dual pairs merged under a flag
    rules_cNN.go rules_round3.go rules_pull.go …   per-property rule instances (§4 is generated from them)
    controls.go thorough.go      thorough tier: alternative build configurations + in-memory controls/seeds
/verif/check               wrapper: (re)builds the analyser from vendored sources, runs it on /repo's working tree
/verif/known_findings.json open and fixed findings (§5, §7)
/verif/evidence/Cnn.json   rewritten by every run
/verif/reports/            violation reports named in "VIOLATION … replay=<path>" (git-ignored)
/verif/controls/Cnn/*.diff 121 one-line control edits (tools/gen_controls.py)
/verif/seeded/*/           659 sub-agent mutations with demonstration tests and meta.json
/verif/refactorings/*/     behaviour-preserving refactorings used as false-alarm tests
/verif/tools/              baseline.sh, seed_import.sh, seed_confirm.sh, seed_run.sh, ref_run.sh, ref_all.sh, regress.sh, seed_on_refactorings.sh,
                           gen_manifest.py, gen_matrix.py, gen_design.py, validate.py
```

**Loading.** `packages.Load` with `LoadAllSyntax`, `Dir=/repo` (or `VERIF_REPO`),
pattern `./...`, `Tests=false`, environment `GOFLAGS=-mod=mod GOPROXY=off
GOSUMDB=off GOTOOLCHAIN=local GOWORK=off`. The loader fails the check (never
"held") on any type error or when no package loads. SSA is built with
`ssa.GlobalDebug`; rules run on the **generic (uninstantiated) bodies**, so one
source function is one obligation site and a verdict holds for every
instantiation. go/ssa facts that the loader and helpers respect (each was hit
while building): `ssautil.AllFunctions` misses methods of generic types;
callees inside generic bodies are *instances* with `Pkg == nil`; constants
compared with type-parameter values carry the type parameter as their type; a
statically dispatched `s.curr.Next(ctx)` is not an `invoke`; variables captured
by closures are `Alloc` cells; a function literal that captures nothing is the
`*ssa.Function` itself, not a `MakeClosure`; functions with `defer` spill
results into cells before `rundefers`; `a && b` in a `switch` case or a `return`
is a boolean phi, not control flow; `f(g())` passes a tuple.

**Obligations.** Every rule enumerates *obligations* — (rule id, construct key,
file:line) — with a status `discharged`, `violated`, `excepted` (listed with a
one-line reason in the rule) or `undecided`. Construct keys are `rule +
function + normalised construct`, never line numbers. `violated` **and**
`undecided` fail the check; so do load/type-check failures and panics of the
analyser. A rule that finds fewer than 60 % of the obligations confirmed by
reading (its **floor**) fails as *vacuous*: a rule matching nothing must not
pass forever (the margin exists because merging duplicated code into a helper
legitimately lowers counts — §8.3).

**Cost.** One quick check ≈ 3–4 s (load dominates, rules are milliseconds);
thorough ≈ 10–20 s per property.

---------------------------------------------------------------------------

## 3. Engines (as built)

* **E-PF path-fact / typestate dataflow** (`pf.go`). Forward may-analysis over the
  SSA CFG with a powerset of ≤ 32 automaton states. Instruction events, *edge
  facts* (each atomic branch fact implied by an edge, short-circuit boolean phis
  expanded), call summaries (fix-point over recursion, closures resolved through
  cells), `defer` replayed LIFO at `rundefers`. Added during hardening:
  *boolean-result-sensitive summaries* (a branch on `ok := helper()` keeps only
  the states in which the helper can return that value, per entry state),
  *flag jump-threading* (a block that only merges a boolean set to constants on
  its incoming edges and branches on it forwards each edge to the successor its
  constant selects), *deep visits* (the rule's observer also sees the
  instructions of summarised helpers with the states of the call contexts).
* **E-GD dominating guards** (`ssah.go`, `deep.go`). `guardsOf(b)`: atomic branch
  facts on every path to `b` (edge dominance), comparison normalisation, tiny
  boolean helpers inlined; `factStrings`: the comparisons implied by
  `if helper()` when the helper returns a conjunction; guards of the call sites
  along a deep instruction's chain.
* **Provenance / symbolic values** (`prov.go`, `sym.go`). `valueProv`: root value +
  field path of an operand, through spilled parameters, captured variables, local
  struct literals, helper parameters (mapped to the caller's arguments along a
  call chain), bound-method receivers. `valueLeaves`: the alternatives a value
  can stand for (phis, helper results, variables, parameters of function
  literals handed to helpers that call them). `symOf`: an operand as an
  expression over the root function's values with single-expression helpers
  inlined (`d.after(i)` ≡ `(i+1) % len(d.a)`).
* **Rename normalisation** (`layout.go`). A table of the struct layouts the rules
  were written against (generated, `-dump-layout`); at load time renamed
  unexported types (same field-type sequence) and fields (same type, matched in
  declaration order) are translated back, for `fieldName`, `isNamedType`, the
  function index and AST rendering. Nothing is claimed through the table.
* **E-LS lockset**, **E-CB channel operations / background goroutines**, **E-OWN
  ownership**, **E-SH mirror / lockstep** as in the first design, extended with
  helper awareness: entry locksets from call sites; context origins through
  helper parameters; blocking through context-aware module helpers
  (`chans.SendContext`); borrowed streams (an unexported helper that only reads);
  function literals that are only called in place; dual field pairs and mirrored
  argument positions of helpers (`newNode(value, prev, next)`).
* **Round-4 additions.** *Nil-result-sensitive summaries* (`nilExits`: a branch on
  `err != nil` of a summarised helper keeps the states of the returns that can
  produce that outcome; `ctx.Err()` inside a `<-ctx.Done()` arm is non-nil).
  *Locksets along call chains* (`deepLocks`) and *lock wrappers*: a function
  literal or bound method handed to `locked(f)` starts with what the wrapper
  holds around the call of its parameter; deep views descend into literals handed
  to helpers that only call them. *Variables through methods* (`paramCell`,
  `cellHelpers`): a field of a local struct is still one variable inside the
  methods that only ever receive that struct's address. *Goroutine launchers*
  (`goLauncher`, `selfAccountedGoroutines`): `out.spawn(func(){…})` and helper
  methods that start an accounted goroutine join the background-goroutine
  analysis; *channel identity by make site*. *Ownership form "held"* (streams in
  a field of a local helper object whose one method closes element i).
  *Dual pairs by role with flag specialisation* (`variants.go`): two sibling
  implementations merged into one type with a constant boolean field are analysed
  once per flag value - dead blocks are hidden from instrs/deep views/PF, the AST
  mirror compares the two specialised declarations.
* **Round-7/8 additions.** *Specialisation of the typestate engine*: a deferred
  function literal that tests captured boolean locals is analysed once per exit of
  its parent, under the value the one reaching (constant) store gives each flag
  (`deferFlagSpec`); a callee handed a constant boolean argument is analysed for
  that value (`constBoolArgs`) - both reuse the dead-block hiding of `variants.go`;
  *enum-result-sensitive summaries* (`constExits`: a test of a summarised helper's
  integer result against a constant keeps the exits that can return it, minus the
  constants earlier case tests ruled out; only along a pure comparison chain from
  the call). *Names that moved*: generated tables `pinnedCallers` /
  `pinnedParamTypes` (which functions called an unexported helper; the types of its
  parameters) find a helper that was renamed *and* re-parameterised (the one new
  function all its former callers now call) and keep parameter names attached to
  parameter types when the order changes; a function that only loads fields, calls
  one otherwise unused unexported helper and returns its results denotes that
  helper (`aliasOutlinedBodies`). *Values across frames*: the parameters of a
  literal that is started / called with arguments stand for those arguments
  (`literalCallArg`); a driver's call of its func parameter links a literal's
  parameter and result to the driver's frame (`closureCallSites`); a func-typed
  field assigned one literal resolves to it; symbolic expressions gained element
  access and induction variables. *Goroutine bodies* may be unexported named
  functions (`go out.forward(ctx, i)`); module helpers that block only under the
  context they are handed (`chans.RecvContext`) belong to deep views, typestates
  and channel binding; locks taken on a `sync.Locker` parameter are renamed to
  the caller's mutex (read mode through `RLocker()`), also for an intermediate
  frame; two channel fields set from one value are aliases.
* **Round-9 additions.** *Decision by cases* (`bycases.go`): a value that is only
  ever compared with 0 has three observable values; for each (and for the constant
  flags a forwarder passes) the code after the comparison is walked with every such
  test decided - used for "steps exactly when compare(k, c.k) OP 0" when the four
  seeks share one decision-table helper. *Flag-correlated merges*
  (`feasibleAlternatives`): a value carried to a single exit together with a boolean
  flag keeps, under a test of the flag, the alternatives that arrive over edges on
  which the flag has the tested value; the typestate engine already forwards such
  flag tests per incoming edge, so "inside the arm" rules have a typestate fallback
  ("every path to here has passed the arm"). *Values across structs*: a field of a
  struct that a module helper filled in is what the helper stored there
  (`chanThroughStruct`); embedded by-value structs are left out of access paths
  (`isPromotedHop`: `l.front` is `l.ends.front`); a func-typed field holding one
  bound method value resolves to the method, a state-function field to every
  method ever stored in it (`stateFuncTargets`); a literal handed back by its maker
  runs under the locks every call site holds (`returnedLiteralLocks`). *Mirror
  rendering*: comparisons with named boolean constants are rendered as the operand
  or its negation; a helper that is its own mirror image with two parameters
  exchanged has its arguments swapped in the dual (`dualSwapParams`).
  *Must-held lockset rules over whole packages*: no Lock / RLock of a mutex that
  is certainly held along the static call chain (`no-recursive-lock`), no channel
  operation / WaitGroup.Wait with a mutex held.
* **Round-10 additions.** *Flag-selected helpers everywhere*: constant boolean
  arguments select the live part of a callee not only in typestate summaries but in
  every deep view and in the typestate engine's visits (`withChainFlags`,
  `blocksReachableUnder`): `offer(ctx, x, wait)` is `Send`'s select for one caller
  and `TrySend`'s for the other. *Final function variables*
  (`bindFinalFuncGlobals`): an unexported package-level function variable set once in
  its declaration and never assigned or address-taken is another name for the
  function; calls through it are re-pointed at the callee before any rule runs.
  *Correlated results*: where the boolean result of a helper is true, its other
  result is what the one `return …, true` yields, under that return's guards; one of
  several results of a constructor is followed like a single one. *Field-wise struct
  flow* (`structFieldLeaves`): a local struct variable whose fields are assigned one
  by one, passed by value to a method (through the spill of a value receiver).
  *State fields by role* (`stateEnumOf`): two boolean flags folded into one field of
  a named integer type. *Nested state*: fields of structs nested by value belong to
  the outer struct (`fieldBaseIs`); a wrapper held under its own concrete type by the
  returned wrapper is the latter's to close (`enclosingReturnedAlloc`,
  `ownsStreams`); cancel-then-wait may live in a method of a state type. *Merged
  stores and returns*: a store (return) of a merge is judged per alternative on the
  edge it arrives over. *Unlock balance* (`unlock-held`): on the must-held lockset of
  each function, every release of a mutex the function locked itself finds it held,
  and no return leaves it held. *Thin atomic accessors* (`atomicOp`, round 11): a
  method of a type defined on an integer whose body is one `sync/atomic` call on the
  receiver is that operation, its arguments in the caller's terms. *Thin accessors*
  (`thinGetter`, round 12): a method whose whole body is `return recv.f` reads as the
  field in every access path.
* **Effects** (`effects.go`). May a function write through a slice/map argument?
  (stores, map updates, copy/append/clear/delete, sort and `slices.*` writers,
  module callees, closures; fix-point).

---------------------------------------------------------------------------

## 4. Rule catalogue (generated by `verif-sa -describe`)

"floor" = number of obligations confirmed by reading on the reference tree.

''' + rules + r'''
---------------------------------------------------------------------------

## 5. Genuine defects on the pinned tree and their handling

Each of these is what the named rule reports on the pinned tree (`ec837c5`) or,
for F12-F14, on the tree before their fixes, and each was confirmed against the real
code with a concrete witness before it was repaired. All repairs are single
unguarded `fix:` commits in `/repo`; after each, the 322 baseline tests pass
(`tools/baseline.sh`) and the rule passes **without the rule being touched**.
`known_findings.json` records them as `fixed` (which suppresses nothing: the
rule reports again if the defect returns — the controls re-introduce most of
them and are reported).

| id | property | rule | construct | witness | handling |
|----|----------|------|-----------|---------|----------|
| F1 | C09 | C09.own-param | `stream.One` | source never sees `Close` | fix c48711a |
| F2 | C09, C12 | C09.own-param, C12.zero-trip, C12.bg-ctx, C12.wg-count | `stream.Merge` | inputs never closed; `Close` neither cancels nor waits; `Merge()` with zero inputs never ends | fix df76066 |
| F3 | C10 | C10.drain-before-terminal | `pipeStream.Next` | buffered `Send`+`Close(nil)`: `End` before the value in ~48% of runs | fix d7ddd4b |
| F4 | C11 | C11.bg-cancellable | `BatchFunc` producer `c <- item` | `Close` hangs when the batcher has already left | fix 5b0c58e |
| F5 | C15 | C15.gen-bump.deque / .heap | `Deque.PopFront/PopBack` (to empty), `Grow`, `Shrink`, `Set`; `heap.UpdateAt` | iterator silently yields wrong items | fix e007039, 538a648 |
| F6 | C16 | C16.signal-capacity | `ContextCond.Signal` | 2 waiters between unlock and park + 2 Signals ⇒ 1 wakes (`findings/F6_…`) | **open known finding** (repair = redesign with per-waiter channels) |
| F7 | C18 | C18.assert-safe | `xsync.Map.Load/LoadAndDelete/LoadOrStore/Range/Swap` | `Swap` on an absent key panics | fix 5a8e3ef |
| F8 | C19 | C19.is-target, C19.withstack-idempotent | `xerrors.WithStack` | `errors.Is` against a non-comparable target is constantly false ⇒ wraps twice | fix 44e8242 |
| F9 | C20 | C20.deadline-direction, C20.positive-arg | `SleepContext`; `JitterTicker.schedule` | inverted deadline test; `jitter == 0` panics | fix db6abc7, 264889f |
| F10 | C07 | C07.nonzero-divisor | `iterator.Last`, `stream.Last` | `n == 0` divides by zero | fix 47f1b98 |
| F11 | C11 | C11.batch-timer | `BatchFunc` waiting arm flushes without `stopTimer()` | stale timer later delivers an empty batch | fix 4f66ace |
| F12 | C19 (C07) | C19.runs-adjacent | `xslices.Runs` | `Runs([1,2,3]) = [[] [2] [3]]`, `Runs([1]) = []` (`findings/F12_…`) | fix 81e9519 |

| F13 | C12 | C12.assert-nil-safe | `chans.Merge`, reflect path (>= 4 inputs) | a nil value of an interface element type (`chan error`) panics at `item.Interface().(T)` while 1-3 inputs forward it (`findings/F13_…`) | fix f07bcc6 |
| F14 | C07 | C07.source-items-readonly | `stream.FlattenSlices` (`flattenSlicesStream.Next`) | `s.buffer[0] = zero` clears the slice the source yielded: a source yielding one slice twice gives `[1 2 0 0]` for `[[1 2] [1 2]]`, and the caller's slice is wiped (`findings/F14_…`) | fix 894b351 |

F14 was likewise a remark of a round-5 sub-agent on the clean tree; confirmed with a
test, repaired (the zeroing line removed), and the ownership rule
`C07.source-items-readonly` written: no combinator in `iterator`/`stream` stores
through a container it pulled from its source (followed through wrapper fields,
locals, phis, re-slicing, `append(x[:0], …)`, `copy`). It reports the defect on the
tree before the fix (control `flattenslices-zeroes-source`).

F13 was pointed out by a seed-round-5 sub-agent as a remark on the clean tree (it
is the sibling of F7: a single-result assertion to a type parameter on a value
that came through `any`). It was confirmed with a test against the real code,
repaired, and the rule `C12.assert-nil-safe` (every assertion to a type parameter
in package `chans` uses the two-result form) was written; it reports the defect on
the tree before the fix (control `merge-single-result-assert`). Six kept patches
that touched the adjacent lines were re-diffed against the fixed tree.

F12 had first been noted by reading as "outside the technique's reach"; the
loop-phi induction rule (`C19.runs-adjacent`) was then written, reports both
halves of the defect on the tree before the fix, and is quiet on the fix and on
an alternative cleaner rewrite.

Listed, not claimed: `JitterTicker.Stop` on an already stopped ticker
dereferences the nil timer (`C20.nilable-timer` lists the site as excepted: a
second `Stop` is outside C20's statement).

---------------------------------------------------------------------------

## 6. Limits

No property is wholly not-applicable: each has clauses whose truth is in the
shape of the code, and `MANIFEST.json.not_applicable` is empty. What is **not**
decided, by anything here:

* value-level functional correctness: C01 (B-tree algorithms), C03 (that
  cascades restore the invariants), C04 (ring arithmetic), C05 (heap order after
  sifting), C06 (that a symmetric pair is also right), C07 (sequence functions,
  cross-package agreement), C19 (results of Partition, Chunk, Search, Merge,
  MinK, set algebra beyond the listed clauses);
* statistical clauses: C19 sampling uniformity;
* wall-clock clauses: C11 `maxWait`, C17 cadence, C20 elapsed time and spacing;
* liveness/fairness beyond "every blocking operation has a cancellation arm and
  that arm leaves the loop".

Tooling limits: x/tools v0.29.0 has no pointer analysis — alias questions are
answered by provenance over access paths, single-assignment locals, closure
cells and call-site mapping, and anything outside that is `undecided` (fails)
rather than guessed; `*_old.go` (`!go1.21`) variants cannot be type-checked by
any installed toolchain; generic bodies are analysed uninstantiated.

**Known false-alarm surface.** The rules are written against idioms; §8.3
describes how they were hardened against behaviour-preserving refactorings, but
a sufficiently different (still correct) rewrite of an anchored function can
make a rule report `violated`/`undecided`/`vacuous`: in round 4 (fresh
refactorings after three rounds of hardening) 44 of 80 still alarmed at first, so
the honest expectation for an unseen restructuring of an anchored function is
"about even" - rounds 5 (46 of 80) and 6 (40 of 80) confirmed it; round 7 (31 of
80) was better, round 8 (36 of 80, right after thirty new rules) and round 9 (40 of 80) were
not; rounds 10 (32 of 80), 11 (16 of 40) and 12 (15 of 40) were better again: two in five. Of the 801
kept refactorings (rounds 1-12) 775 are quiet today; 26 (two of round 6, five of round 8, five of round 9,
four of round 10, five of round 11, five of round 12) still alarm and are documented as open in section 8.3. The mirror and
lockstep rules would fire on an asymmetric-but-equivalent rewrite of one twin.
Refactorings that rename exported API or change a struct's field *types* are
outside the rename normalisation.

---------------------------------------------------------------------------

## 7. Interface

* `setup_cmd`: builds `/verif/bin/verif-sa` from the vendored module (offline).
* `quick_cmd`: `./check Cnn` — (re)builds if needed, loads `/repo`'s working tree,
  runs the property's rules, writes `/verif/evidence/Cnn.json`, exit 0 / 1.
* `thorough_cmd`: `./check Cnn --thorough` — additionally (a) re-runs the rules
  under `GOOS/GOARCH` = linux/386, darwin/arm64, windows/amd64 (a violation
  there fails the check), (b) applies every control (`controls/Cnn/*.diff`) and
  every kept seeded mutation (`seeded/Cnn-*/patch.diff`) **in memory** through
  `packages.Config.Overlay`, requires it to type-check and the property's rules
  to report a violation. Controls never change the exit status (a stale control
  after someone edited `/repo` is not a property violation); outcomes are in the
  evidence (`coverage.controls`: applied / fired / missed / stale, with the
  rules that fired).
* Exit codes: 0 held (possibly with `KNOWN-FINDING:` lines); 1 with
  `VIOLATION property=Cnn replay=/verif/reports/Cnn-<hash>.json` for each
  violated or undecided obligation not listed as an open known finding, and for
  load/type-check/build failures.
* `./check Cnn --replay <report>` re-evaluates just the obligations of a report
  on the current tree; `./check Cnn --list` prints every obligation.
* `known_findings.json`: `{status: open|fixed, property, rule, construct, what,
  commit?}`. An open entry whose (property, construct key) matches a violated
  obligation turns it into a `KNOWN-FINDING:` line; anything else still fails.
  The file is never written at run time.
* Hooks: none are needed by this technique (`hooks.guard = "verif"`, no source
  commits; `baseline_off_cmd` = the repository's own suite via
  `tools/baseline.sh`).

---------------------------------------------------------------------------

## 8. Validation of the machinery

### 8.1 Seeded mutations (fresh sub-agents, property text only)

Three rounds. Each sub-agent got only the text of one property and its own scratch
worktree of `/repo` and was asked for changes that break the property, still
compile, pass the existing suite, and need something specific to manifest, with
a demonstration test (rounds 2 and 3 also got one-line summaries of what earlier
contributors had submitted, to push them elsewhere). Every change was
re-verified by me in a fresh worktree (`tools/seed_import.sh`: demo passes on
the clean tree, patch applies and builds, demo fails with the patch, suite
passes twice with the patch) before it was kept under `/verif/seeded/<id>/`
(`patch.diff`, `zz_seed_demo_test.go`, `meta.json`), and each was then applied
to `/repo` itself, checked, and undone (`tools/seed_confirm.sh`, recorded in
`meta.json: check_against_repo`). 659 kept (40 in round 1, 60 in each of rounds 2-10, 40 in round 11, 39 in round 12).

* Round 1 (40): all caught by the rules that existed when each seed arrived,
  several of which (`C03.split-halves` rewrite direction, `C19.tail-cleared`
  `MergeSlices`, `C01.cmp-zero-only`, `C01/C03.parent-links`,
  `C04.expand-floor`) were *written after* reading the seed that needed them.
* Round 2 (60): 46 caught at once, 14 missed; 13 led to new or tightened rules
  (`C07.no-discarded-pull`, `C07.end-provenance`, `C07.runs-inner-sticky`,
  `C10.trysend-order`, `C05.notify-pair` guard exactness,
  `C08.batch-error-delivered`, `C04/C15.iter-termination`,
  `C03.children-one-more`, `C03.cmp-zero-only`, `C14.bg-ctx` required context,
  `C15.snapshot-atomic`, `C17.timer-rearmed`, `C19.sample-siblings`,
  `C20.store-before-schedule`); the 14th (`C19-r2m1`, Shrink's capacity bound)
  was caught later by `C19.shrink-capacity`.
* Round 3 (60, aimed at "less obvious places"): 35 caught at once, 25 missed.
  24 of them led to rules (all in `rules_round3.go` or named there):
  `C04.contiguity-siblings`, `C07.equal-universal`, `C07.runs-adjacent`,
  `C17.barrier`, `C05.capacity-ops-keep-len`, `C05.restore-order` (conditions),
  `C10.no-discarded-recv`, `C19.merge-source-tag`, `C18/C20.ctx-interruptible`
  (and the extension of `C10.ctx-arm` to blocking calls), `C20.rearm-gated`,
  `C20.nilable-timer`, `C03.root-test-target`, `C01/C03.found-before-descend`,
  `C11.cancel-arm-exits`, `C11.stop-drains`, `C12.err-propagate`,
  `C12.who-may-cancel`, `C12.replicate-until-closed`,
  `C01.kv-carried-together`, `C01.children-one-more`, `C01.reseek-direction`,
  `C14.normalise-first`, `C02.seek-always-positions`.
  The last one, `C19-r3m3` (`xslices.Chunk` rewritten as a peel-off loop
  returns `[[]]` for an empty input), was first recorded as out of reach (a
  value-level fact about `(len(s)+c-1)/c`); it is now reported by
  `C19.empty-in-empty-out`, which decides only the necessary condition that is
  structural: no exported slice→slice function of xslices may return a result
  that is non-empty on *every* path (an unconditional `append(out, x)`).

* Round 4 (60, after the round-4 refactoring hardening; prompts listed all eight
  earlier mutations per property and asked for untouched functions, boundary
  values, constructor/teardown paths): **35 caught at once, 25 missed**. The
  misses fell into four groups. (a) *The rule existed under a sibling property*
  (a seed filed under C01 breaks what `C02.cursor-validated` checks, a C11/C14
  seed breaks what `C09.own-param` checks, C08 ← `C12.who-may-cancel`, C15 ←
  `C05.initial-dedup`, C07 ← `C19.empty-in-empty-out`): the rules are now shared
  (`C01.cursor-validated`, `C11/C14.source-closed`, `C08.first-error-wins`,
  `C15.initial-dedup`, `C07.empty-in-empty-out`). (b) *A rule checked existence
  where it must check every path*: `C03.shrink-zero` (slot cleared on every path
  through the lowering of n, typestate), `C10.publish-before-signal` (every End
  is decided by reading the close error), `C18.map-delegates` (the sync.Map call
  precedes every return), `C09.own-param` (no return that skips the spawn),
  `C08/C07.commit-after-success` (a pending-outcome typestate replaces "no
  fallible call follows"; a simultaneous assignment needs a dead old value),
  `C13.error-contract` (f's error is not swallowed on any path),
  `C19.empty-in-empty-out` (per return: reachable by the empty input).
  (c) *A missing necessary condition*: `C04` sign-aware modulo (Go's `%` keeps
  the dividend's sign: `(back-1) % len` is not a reduction), `C04.canonical-empty`,
  `C04.guard-tests-argument`, `C13.bounded|caller-does-not-work`,
  `C16|send-under-lock`, `C18.lazy-once|read-after-init`, `C11.who-may-cancel`,
  `C12|reflect-loop-exit`, `C18/C10.ctx-arm-returns-err`.
  (d) *New function-specific rules*: `C19.intersect-universal` (typestate over
  the loop nest with flag threading), `C19.heap-nonempty` (Pop/Peek evidence).
  After these, all 60 are reported. The new rules then alarmed on 7 of the 240
  kept refactorings (checks living in a helper frame, a background helper that
  returns nil when the library's own context is cancelled, a send inside a
  literal handed to a lock wrapper, the quantifier extracted into `inAll`); each
  was removed by making the rule follow the helper / the caller's context only.

* Round 5 (60, after the round-5 refactoring hardening; prompts listed all
  eleven earlier mutations per property): **34 caught at once, 26 missed** - the
  hit rate of a fresh round stays near 57%. Two sub-agents also remarked on the
  *clean* tree; both remarks were genuine defects (F13, F14, section 5). The
  misses: (a) *sibling property again* - `C01.tree-gen`, `C01.unlink-mark`,
  `C02.range-stays-bounded` (from `C01.bounds`), `C08.group-ctx` (from
  `C14.bg-ctx`), `C09.wg-count`. (b) *existence where every path is needed* -
  `C09.own-param` (the wrapper / the hand-over on every return: `First(s, 0)`
  returning `Empty()` drops `s`), `C01.bounds` (the plain iterator only under the
  Unbounded kind), `C14.order|i-only-incremented`. (c) *missing necessary
  conditions, now rules*: `C01/C03.index-own-count` (a node's arrays are indexed
  with the node's own `n`), `C01.kv-lockstep` extended to reads into locals (key
  and value of one entry come from one node and one index),
  `C04|upper-limit-is-len` (the index guard's limit is `Len()`, not the buffer
  size), `C04/C15.iter-reads-live`, `C15.iter-watches-container` (pointer
  receiver stored into the iterator), `C05|follows-element` (the sink continues at
  the slot swapped into), `C04/C05/C19.copy-moves-items` (a `make(.., 0, n)`
  destination receives nothing), `C07.yielded-items-handed-over` (a buffer field
  that is handed out is replaced before the return), `C07.counter-bound` (order
  test, not equality), `C11|armed-timer-watched` and `C17|armed-at-wait`
  (typestates: an armed timer's channel is in the select; a consumed tick is
  followed by a Reset before the next wait), `C12|closed-case-removed`,
  `C14.no-foreign-call-under-lock`, `C14.who-may-cancel`,
  `C16|consumes-only-its-wakeup`, `C19.empty-input-safe` (conditional constant
  propagation under "every slice argument is empty": the definite path indexes
  no argument), `C19.length-mismatch-panics`, `C19.namesake-delegation`,
  `C20|fresh-timer`. One earlier seed (`C20-r4m1`, pooled timer) turned out to
  have been reported only through an artefact (its `defer` spilled the results,
  which an unrelated rule could not read); when `returnedValue` removed the
  artefact the regression run showed the loss, and `C20|fresh-timer` now reports
  it for the right reason. This is why `tools/regress.sh` is re-run after every
  hardening step.

* Round 6 (60, after the round-6 refactoring hardening; prompts listed all
  fourteen earlier mutations per property): **36 caught at once, 24 missed** (60%).
  (a) *sibling property*: `C01.split-halves`, `C07.reducer-errors` (from
  `C08.err-propagate`), `C08.bg-cancellable`, `C09.bg-cancellable`,
  `C11.no-discarded-recv`, `C12.no-discarded-recv`. (b) *every path*:
  `C05.pq-map|delete-on-every-removing-path`, `C05.update-stores`,
  `C11|no-items-dropped-at-exit` (the batch typestate gained "offered to the
  consumer since the last append"), `C18.range-forwards` (f called exactly once
  on every path, with the entry it was handed), `C20.reset-rearms`,
  `C19.namesake-delegation|answer-is-the-delegate's`. (c) *new necessary
  conditions*: `C02/C15/C20.gen-width` (a generation counter compared for
  equality is at least 32 bits wide), `C03/C01.read-before-vacate` (an entry
  moved to another node is read before the source node is touched),
  `C03|append` (child one slot right of the key when appending by direct
  stores), `C04.contiguity-siblings` on distance tests (`back - front + 1 < 0`
  normalised to the cut it makes), `C07.constructor-siblings` (all literals of one
  wrapper type set the same non-zero flags), `C10.delivered-means-nil`,
  `C11.batch-age-from-first-item`, `C12|forward-unconditional-on-conversion`,
  `C14|signal-tests-new-count`, `C17|trigger-send-unconditional`,
  `C19.callers-skip-advances`, `C19.written-maps-are-made`.

* Round 7 (60, after the round-7 refactoring hardening; prompts listed all
  seventeen earlier mutations per property): **36 caught at once, 24
  missed**. Every miss was a function or a clause no rule had looked at yet (the
  agents were told to go where nobody had been), so all the new rules are of kind
  (c), *new necessary conditions*: `C01/C03.merge-after-failed-steal` (merge(x)
  only on paths on which steal(x) has just returned false - by guard, or per
  incoming edge of a merge of alternatives), `C01/C03.sibling-bounds` (strict
  bound on `children[idx+1]`), `C01/C02.cursor-lands-on-leaf` (stepping off a
  separator goes through leftmostLeaf / rightmostLeaf), `C03.remove-zeroes-tail`
  (typestate: every exit of removeOne has cleared the vacated slot),
  `C03/C01.split-reads-before-writes` (no right-half read through the amalgam view
  is reachable from a left-half write without passing the block that builds the
  view), `C04.grow-capacity`, `C04/C15.iter-end-is-equality` (ring positions are
  not ordered), `C05.new-notifies-all` (every return of heap.New is dominated by
  the notification loop or is under `len(initial) == 0`), `C07.param-effects`
  (the C19 rule for the xslices namesakes), `C09.close-waits-on-every-path`,
  `C10.signal-channels-fixed`, `C10.ctx-err-only-after-done` and
  `C20.sleep-returns` (`ctx.Err()` is nil until Done is closed: it may be
  returned only inside the Done arm or under a non-nil test; nil only where the
  work was done), `C11.fresh-batch-after-handover`, `C12.merge-defer-order`,
  `C14.bg-ctx-arm-returns-err`, `C14.default-covers-negatives`,
  `C15.gen-only-incremented` (also a whole-value replacement must carry the
  counter over), `C17.done-after-f`, `C18.set-always-publishes`,
  `C19.backward-scan-reaches-zero`, `C19.mink-allocation`,
  `C19.merge-result-in-out`, and `C02.children-one-more` (the C03 rule, for the
  iterator that walks into a dropped child).

* Round 8 (60, after the round-8 refactoring hardening; prompts listed all
  twenty earlier mutations per property): **42 caught at once, 18 missed** (70%,
  the best rate so far). (a) *sibling property*: `C09.owner-ctx` (the context
  rule of C11/C12/C14 - a reader that runs under the caller's context cannot be
  stopped by Close, and it is the only one who closes the source),
  `C01.root-replacement`. (b) *a clause the rule's text promised but did not
  check*: `C18.range-forwards|returns-f-result` (the callback answers
  sync.Map.Range with f's own answer), `C04.validate-first` on normal returns (no
  early return above the argument check), `C03.search-cost|compares-only-in-searchNode`
  (Get / Contains call the comparator nowhere else on their way).
  (c) *new necessary conditions*: `C16/C17/C20.no-recursive-lock` (must-held
  lockset along the static call chain: no Lock / RLock of a mutex the goroutine
  certainly holds - a recursive read lock deadlocks once a writer queues between
  the two), `C17.no-wait-under-lock`, `C14.no-blocking-under-lock` (no channel
  operation in `parallel` with a mutex held), `C17.period-formula` (the wait
  handed to the timer depends on both duration parameters and is built from
  signed / floating arithmetic only: no unsigned conversion, remainder or bounded
  integer draw), `C20.armed-interval` (the wait handed to `time.AfterFunc` is the
  period, plus a draw, minus the jitter and nothing else: no lateness
  compensation, no `Truncate`), `C18.published-immutable` (no field of an object
  is written after it was handed to `atomic.Pointer` Store / Swap /
  CompareAndSwap, a retry loop's fresh object excepted), `C18.lazy-once|panic-safe`
  (a hand-written once must test a completion mark, or a panicking f becomes a
  silent zero value for later callers - which is what the `!go1.21` variant
  `xsync_old.go`, not buildable here, does), `C02/C01.root-replacement` (the old
  root stays in the tree or has n == 0), `C15.arm-once` (an iterator never writes
  its not-started sentinel back), `C07.recv-channel-fixed` (a channel field Next
  receives from is assigned at construction only: the closed channel keeps
  reporting the end), `C19.total-map-builders` (the loop that fills a result map
  in xmaps has no exit from its middle), `C12.const-index-guarded` (`in[k]` only
  under a test that makes `len(in) > k`), `C12.send-failure-exits`.
  The new rules alarmed on 8 kept refactorings when first run (`growRoot` helper
  without the caller's `x == t.root` test, `offset` as zero-or-draw phi, the
  period kept in a small struct or a timer wrapper, a retry loop around the
  placeholder's CAS, Union / Intersection storing conditionally, an iterator that
  snapshots eagerly); each was removed by following the helper / the call sites /
  the stored fields, or by dropping a condition that was not necessary ("every
  round stores" is not implied by totality).

* Round 9 (60, after the round-9 refactoring hardening; prompts listed all
  twenty-three earlier mutations per property): **42 caught at once, 18
  missed**. (a) *sibling property* (the rule existed under the property next door):
  `C08.results-in-order` (from `C14.order`), `C08.no-empty-batch` (from
  `C11.batch-timer`), `C15.position-mod-reduced` (from `C04.index-discipline`),
  `C14.worker-err-first` (from `C08.err-propagate`), `C01.seek-always-positions`,
  `C12.publish-before-signal`. (b) *every path / every instance*: `C09/C11.own-param`
  (an explicit Close next to the deferred one in the goroutine that owns the source
  is a second Close on that path). (c) *new necessary conditions*:
  `C10.halves-wired` (every channel / pointer field of the two halves Pipe builds is
  set where they are built - a select arm on a nil channel never fires),
  `C07.chunk-full-test` (typestate: every append to the chunk is followed by the
  comparison with chunkSize before the next pull), `C18.typed-results-from-map` (the
  V a typed Map method hands back is the asserted sync.Map result or the zero value,
  never the caller's argument), `C16.lock-order` (c.L is never acquired with the
  cond's own mutex held), `C19.withstack-no-interception` (the wrapper defines
  neither Is nor As), `C19.intersect-covers-all` (the membership loop covers every
  set other than the one ranged over), `C19.false-only-for-no-sets`,
  `C01/C03.tail-clear-lockstep` (the vacated child slot is the vacated key slot + 1,
  stores to n in between accounted for), `C02.cursor-tree-fixed` (a cursor's tree
  pointer is written at construction only; an iterator's cursor is only replaced by
  a copy of another cursor), `C02/C01.range-wrappers-live` (Map / Set Range,
  RangeReverse and Iterate return the tree's live cursor iterator on every path,
  never data collected at creation), `C03/C01.split-left-guards-agree` (in overfill
  the left half's children are rewritten under the same condition as its keys: over
  the left half both are disturbed by the new entry in exactly the same cases). The
  new rules alarmed on 7 kept refactorings when first
  run (halves sharing an embedded `pipeShared` value, the membership test in
  `inAll(sets[1:], k)` / `forEachCommon`, `removeOne` used for the tail, a
  `pinChan()` / `unpinChan()` pair around the read lock, the fill loops of the split in
  `fillFrom`); each was removed by
  following the helper / the embedded struct (`releasedByCallee`).

* Round 10 (60, after the round-10 refactoring hardening; prompts listed all
  twenty-six earlier mutations per property): **42 caught at once, 18 missed**.
  (a) *sibling property*: `C08.publish-before-signal` (from C10: `PipeSender.Close`
  stores the error before it closes `senderDone` - Merge reports an input's error
  through that pipe), `C01.thresholds` (from C03: `removeRightmost` reports the leaf
  it drained), `C04.resize-bumps-gen` (from `C15.gen-bump.deque`, for Grow / Shrink:
  `Iterate` is part of C04's histories). (b) *every path / every instance*: the
  index callback of `NewPriorityQueue` stores unconditionally (`if h.m[x.K] != i`
  reads an absent key as 0 and drops the first notification for slot 0); no way
  through `PriorityQueue.Update` avoids both `UpdateAt` and `Push` (a "same priority"
  shortcut compares with `==`: panic for an uncomparable P, identity for a pointer
  P); `PriorityQueue.Len` is the inner heap's (the key map over-counts NaN keys);
  `C11.elapsed-direction` is now a must-pass (`else if timer == nil { startTimer() }`
  left a way through the branch without arming); `C16 … every-signal-sends` (no
  condition in front of Signal's send: a "wake-up pending" flag beside the channel
  goes stale when Broadcast replaces the channel); `C15 … every-return-watches` (every
  return of `Iterate` hands out an object that holds the container - not
  `iterator.Slice(d.a[front:back+1])` for an unwrapped deque);
  `C02 … slot-read-for-every-node` (`lost()` compares the slot under no test of the
  node's kind); `C02/C01.range-wrappers-live` extended to `btree.Range` /
  `RangeReverse` themselves (no early `Empty()` for a tree that is empty now);
  `C17 … trigger-is-nonblocking-send` (the trigger function does nothing but the send:
  `g.Do(f)` in its default branch runs f beside the worker);
  `C20 … no-extra-condition` (no further test of d in front of the deadline test).
  (c) *new necessary conditions*: `C16/C17/C20.unlock-held` (on the must-held lockset
  of each function: a release - written out or deferred - of a mutex the function
  locked itself finds it held, and no return leaves it held: the double unlock on the
  stale path of the timer callback, the read lock leaked on `spawn`'s refusing path),
  `C03/C01.insert-where-searched` (typestate in `Put`: no structural change between
  the search that placed the key and the insertion that is handed it - a rotation "to
  avoid the split" moves the separator past the key), `C04.wrapped-copy-nonempty` (in
  `resize` the new buffer is sliced at an offset computed from the old length only
  under a test that the deque holds items - an empty deque reads as "wrapped" too),
  `C19.sort-wrappers` (`xsort.Slice` / `SliceStable` / `SliceIsSorted` are the `sort`
  functions of the same name applied to x and `less(x[i], x[j])`). The new rules
  alarmed on 9 kept refactorings when first run (`newDequeIterator(d)`, an iterator
  object positioned in place, `Put` as a wrapper around `insert`, `copyTo(newA)` under
  `!d.isEmpty()`, `copy(newA[len(head):], tail)`, `byIndex(x, less)`, a deferred-unlock
  style with fewer release sites, two refactorings whose membership loop runs over
  `sets[1:]`); each was removed by following the constructor / the wrapper / the call
  site's guards, or by narrowing the rule to what the defect needs (an offset computed
  from `len(d.a)`).

* Round 11 (40: two per property, after the round-11 refactoring hardening; prompts
  listed all twenty-nine earlier mutations per property): **35 caught at once,
  5 missed** - the best rate so far. (a) *sibling property*: `C14.prefill-full`
  (MapStream's pre-fill loop sends exactly as many tokens as the channel's capacity;
  the condition was known to `C10.ctx-arm` only - now a rule of its own that also
  finds the loop in `filledTokenChan(n)` / `newTokens(n)` helpers). (b) *new necessary
  conditions*: `C07.collect-drains` (every return of `iterator.Collect` / `Reduce`
  follows the exhaustion of the iterator or a hand-over to a reducer that drains it:
  no shortcut that copies the items out of a known iterator type without pulling
  them), `C19.chunk-panics-first` (every return of `xslices.Chunk` comes after the
  division by `chunkSize` - the documented panic - or an explicit test of it),
  `C08.failed-next-hands-out-nothing` (no `Next` of package stream returns, with an
  error that may be non-nil, a slice kept in a field of its receiver: `Chunk`'s
  partial chunk handed out with the error is emitted by `FlattenSlices`, which stores
  both results before testing the error, and delivered again by the retry),
  `C03.cmp-constructors-direct` (`NewMapCmp` / `NewSetCmp` hand the comparison they
  are given to `newBtree` itself: wrapped into a less function and turned back, every
  probe that is not "smaller" costs two comparisons - more than 15 per level). The
  new rules alarmed on 3 kept refactorings when first run (`for item, ok := it.Next();
  ok; …` in `Reduce`, the pre-fill inside `newTokens(n)` through `t.release()`); both
  shapes are followed now.

* Round 12 (39: two per property - one for C14 -, after the round-12 refactoring hardening; prompts
  listed all thirty-one earlier mutations per property): **30 caught at once,
  9 missed**. What arrives now is mostly concurrency (a value receiver that
  copies a node, a generator shared between goroutines, a pull handed to a goroutine
  nobody waits for) and "fast paths" in front of correct code. New rules, all
  necessary conditions read off the shape of the code: `C01.no-node-copy` (nodes are
  used through their pointer only - a value-receiver `leaf()` copies every value slot
  next to a concurrent overwriting `Put`), `C07.reducers-drain` (every successful
  return of `stream.Collect` / `Reduce` / `Last` follows the source's `End` or a
  hand-over to a reducer that drains it; a helper that is handed the source is
  summarised by the same typestate - `drain(ctx, s)`, `item, ok, err := nextItem(ctx, s)`,
  `each(ctx, s, f)` - so `Last(ctx, s, 0)` returning at once is reported and the
  refactored reducers are not), `C07.buffer-index-guarded` (a constant index into a
  slice kept in a wrapper's field sits under a still-valid test of its length:
  `FlattenSlices` refilling once instead of until something came), `C08.ctx-failure-costs-nothing`
  (where a `Next` of package stream returns `ctx.Err()` itself, it has not written its
  own fields on that path: `peekable.Next` testing the context after it has thrown the
  buffered item away), `C09.own-param` extended (the goroutine that owns an input does
  not let a goroutine of its own, which no WaitGroup covers, pull from it: `Merge`'s
  worker selecting on a detached `Next` and `ctx.Done()`), `C18.published-immutable`
  extended (no store through the cell obtained from `Load` / `Swap`), `C19.std-namesake-forwarders`
  (a helper that hands its parameters unchanged to its standard-library namesake does
  so in its entry block and returns that result on every path: `Grow`'s `n <= cap(s)`
  shortcut), `C19.no-shared-generator` (xrand keeps no package-level `*rand.Rand` used
  outside a held mutex), `C20.tick-chan-open` (nothing in xtime closes a `chan time.Time`:
  `close(t.c)` in `Stop` turns into zero ticks after `Stop` and a send on a closed
  channel after `Reset`). The new rules alarmed on 5 kept refactorings when first run
  (reducers that drain through `drain` / `nextItem` / `advance` / `each` helpers or a
  `for ; err == nil; item, err = s.Next(ctx)` loop; a loop-header length test judged
  stale because of the store at the loop's end); all five shapes are followed now.
  Spot checks on the refactored reducers (`nextItem` answering `false, nil` on an
  expired context before it pulls, `drain` stopping after the first item): reported.
  *Composition test* (`tools/seed_on_refactorings.sh`): each of the 39 seeds applied
  on top of every kept refactoring of its property on which the patch still applies
  and builds, the refactorings that alarm on their own left out: 1,210 compositions,
  all reported. The same test with the 40 seeds of round 11: 1,262 compositions, one
  not reported and then fixed - `rSampleSlice` shuffling the caller's slice (C19-r11m1)
  on top of the refactoring that hands `swappable[T](a).swap` to `r.Shuffle` (C19-r22):
  the effects analysis of `C19.param-effects` now follows a method value bound to the
  argument (the method writes through its receiver). With the 60 seeds of round 10
  (1,890 compositions) two more gaps showed and were closed: the separator read
  behind the rewrite of the left half in `overfill` (C03-r10m1) went unreported where
  the separator is handed to `growRoot` / `insertSeparator` helpers instead of being
  stored into the fresh root on the spot (C03-r5, C03-r35) - every entry read through
  the view that is not simply copied down into the left half now counts as a read that
  must come first; and `runsInnerIterator.Next` pulling without the `Peek` (C07-r10m2)
  where `inner` is kept as `*peekable[T]` (C07-r39) - a pull through a field is the
  same pull as a static method call. Of round 9 the first third (20 seeds, 616
  compositions): one not reported, and rightly: `Stop` returning early without the lock
  (C17-r9m1) on top of C17-r3, where `StopAndWait` locks, cancels and waits itself and no
  longer goes through `Stop` - the property is about `StopAndWait`. The rest of rounds
  2-9 has not been composed yet.
  One of the new rules is stricter than the property: `C19.std-namesake-forwarders`
  would also report a *correct* shortcut in front of the forwarded call (`if len(s) == 0
  { return -1 }` in `Index`); none of the kept refactorings of C19 has one.

A rule written after seeing a seed says so above; that is the honest reading of
"caught": all 659 seeds are reported today; in rounds 2-12, 413 of 619 were
reported by the rules that existed when the seed arrived.

### 8.2 Controls

121 one-line edits of my own (`tools/gen_controls.py`), at least three per
property, each aimed at one rule's clause; all type-check and all fire.

### 8.3 Behaviour-preserving refactorings (false-alarm test)

Because a static rule is only useful if it stays quiet on correct code, further
sub-agents (property text + worktree only) produced behaviour-preserving
refactorings, each building and passing the suite. All 20 checks are run against
each (`tools/ref_run.sh`, `tools/ref_all.sh`). Every alarm was a defect of my
rules, not of the code, and was removed by making the rule more semantic, never
by loosening what it demands (the seeds and controls are re-run after every
change, `tools/regress.sh`):

* Rounds 1–2 (80 mild refactorings: renames, if↔switch, small helpers, loop
  reshaping, hoisting): first pass 34 of 80 alarmed. Fixes: names replaced by
  roles (channels, generation fields, counters discovered by type and use);
  tail-called arm bodies and tiny boolean helpers followed; short-circuit
  conditions as values; floors per semantic unit; hoisted expressions resolved.
* Round 3 (76 bolder refactorings: functions split into helpers, closures ↔
  methods, locals grouped into structs, fields and types renamed, loops ↔
  recursion, flags instead of early returns, library helpers instead of
  hand-written selects): first pass **57 of 76 alarmed**. This forced the
  general mechanisms of §3: provenance and symbolic values with helper inlining
  (deque, tree bounds, heap indices), deep views incl. deferred calls (heap
  notify/restore with self-sufficient units, Merge's workers, Pipe, Watchable,
  Future, sync.Map wrappers), rename normalisation (7 refactorings at once),
  interprocedural evidence instead of name-keyed exceptions (every deque
  divisor is now *decided*: `len(d.a) > 0` after `maybeExpand` or under
  `Len() > 0`, at the site or at every call site), typestate reformulations
  (ContextCond.Wait as one interprocedural typestate; Group's loops; TrySend;
  field discipline with real helper entry states), result-sensitive summaries,
  flag jump-threading, function-literal parameter resolution, lent streams,
  local-struct fields as variables, the floor margin. After hardening: 75 of
  76 quiet (`C09-r5` stayed open until round 4).
* Round 4 (fresh refactorings requested after all of the above, as a measure of
  how far the hardening generalises): see the table at the end of this section.

`tools/ref_all.sh` re-runs every kept refactoring against the current analyser.

ROUND4_PLACEHOLDER

### 8.4 Which check catches which change

Generated by `tools/gen_matrix.py` from the thorough-tier evidence (also in
`/verif/SEEDS.md`). `kind` = `seeded` (sub-agent) or `control` (mine).

''' + seeds
r4='/verif/tools/round4.md'
r5='/verif/tools/round5.md'
r6='/verif/tools/round6.md'
r7='/verif/tools/round7.md'
r8='/verif/tools/round8.md'
r9='/verif/tools/round9.md'
r10='/verif/tools/round10.md'
r11='/verif/tools/round11.md'
r12='/verif/tools/round12.md'
doc=doc.replace('ROUND4_PLACEHOLDER', (open(r4).read() if os.path.exists(r4) else '(round 4 results pending)') + '\n' + (open(r5).read() if os.path.exists(r5) else '') + '\n' + (open(r6).read() if os.path.exists(r6) else '') + '\n' + (open(r7).read() if os.path.exists(r7) else '') + '\n' + (open(r8).read() if os.path.exists(r8) else '') + '\n' + (open(r9).read() if os.path.exists(r9) else '') + '\n' + (open(r10).read() if os.path.exists(r10) else '') + '\n' + (open(r11).read() if os.path.exists(r11) else '') + '\n' + (open(r12).read() if os.path.exists(r12) else ''))
open('/verif/DESIGN.md','w').write(doc)
print(len(doc.splitlines()),'lines')
