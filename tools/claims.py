NOT_APPLICABLE = {}
CLAIMS = {
 "C15": ("Decides, for every exported method of deque.Deque and internal/heap.Heap and on every control-flow path (callees summarised), that a store to the container's storage is accompanied by a generation bump, and that both iterators validate the generation before any read of storage. The iterators detect change only through gen, so this is a necessary condition of snapshot-or-panic for all histories; it is not sufficient (value-level iteration order is not decided).",
         "Trusts go/types+go/ssa; assumes single-goroutine use as the property states; only the default build configuration is analysed.",
         "typestate (MUT=>BUMP) dataflow over SSA with call summaries; check-before-use typestate"),
}
