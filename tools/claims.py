NOT_APPLICABLE = {}
CLAIMS = {
 "C15": ("Decides, for every exported method of deque.Deque and internal/heap.Heap and on every control-flow path (callees summarised), that a store to the container's storage is accompanied by a generation bump, and that both iterators validate the generation before any read of storage. The iterators detect change only through gen, so this is a necessary condition of snapshot-or-panic for all histories; it is not sufficient (value-level iteration order is not decided).",
         "Trusts go/types+go/ssa; assumes single-goroutine use as the property states; only the default build configuration is analysed.",
         "typestate (MUT=>BUMP) dataflow over SSA with call summaries; check-before-use typestate"),
 "C09": ("Decides the library's side of the close-exactly-once contract over the complete universe of owning functions (every Stream/Peekable parameter in stream, parallel, xrand) and wrapper types: each owned parameter has exactly one discharge form (closed on all paths / wrapped / handed on / goroutine-owned with deferred Close ordered before wg.Done and a cancelling+waiting Close), every wrapper Close forwards to every stream field on all paths, and no wrapper method drops, double-closes, or uses a stream field after Close. All-paths and all-functions, so it holds for normal end, error and abandonment alike; necessary, not sufficient.",
         "Trusts go/types+go/ssa; assumes the consumer closes what it was returned exactly once and does not call Next concurrently with Close; sources are assumed to honour context cancellation.",
         "type-directed ownership analysis (transfer/forward/close) + per-field typestate dataflow over SSA"),
}
