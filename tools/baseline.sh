#!/bin/bash
# Runs the repository's own test suite (no hooks exist, so "guard off" is the plain build) and
# compares the set of passing tests with /root/.vp/BASELINE.json's stable_pass.
# usage: baseline.sh [repo-dir]
export GOFLAGS=-mod=mod GOPROXY=off GOSUMDB=off GOTOOLCHAIN=local; unset GOWORK
R=${1:-/repo}
T=$(mktemp)
(cd "$R" && go test -json -vet=off -count=1 -timeout 25m ./... ) > "$T" 2>&1
python3 - "$T" <<'P'
import json,sys
passed=set();failed=set()
for l in open(sys.argv[1],errors='replace'):
    l=l.strip()
    if not l.startswith('{'): continue
    try: e=json.loads(l)
    except Exception: continue
    if e.get('Test') is None: continue
    t=e['Package']+'::'+e['Test']
    if e.get('Action')=='pass': passed.add(t)
    elif e.get('Action')=='fail': failed.add(t)
passed-=failed
try:
    base=set(json.load(open('/root/.vp/BASELINE.json'))['stable_pass'])
except Exception:
    base=None
print('passed',len(passed),'failed',len(failed))
if base is not None:
    miss=sorted(base-passed)
    print('baseline',len(base),'missing',len(miss))
    for m in miss[:20]: print('  MISSING',m)
    sys.exit(1 if miss else 0)
P
rc=$?
rm -f "$T"
exit $rc
