#!/bin/bash
# usage: tools/regress.sh [Cnn ...] — regression of the analyser against every control and kept seeded mutation (thorough tier,
# in-memory overlays) and the unchanged tree; prints one line per property plus every missed / stale control.
cd "$(dirname "$0")/.."
mkdir -p bin reports
props=("$@"); [ ${#props[@]} -eq 0 ] && props=(C01 C02 C03 C04 C05 C06 C07 C08 C09 C10 C11 C12 C13 C14 C15 C16 C17 C18 C19 C20)
for p in "${props[@]}"; do
  out=$(./check $p --thorough 2>&1); rc=$?
  echo "$p rc=$rc $(echo "$out" | grep -oE '[0-9]+ controls/seeded mutations applied through Overlay: [0-9]+ fired, [0-9]+ missed, [0-9]+ stale')"
  echo "$out" | grep -E "^VIOLATION|missed:|stale:" | head -5
  python3 - "$p" <<'PY'
import json,sys
p=sys.argv[1]
try:
    d=json.load(open(f'evidence/{p}.json'))
    for c in d.get('coverage',{}).get('controls',{}).get('controls',[]):
        if c.get('outcome') not in ('fired',):
            print('   ',p,c.get('name'),c.get('outcome'))
except Exception as e:
    print('   evidence read error',e)
PY
done
