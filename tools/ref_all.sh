#!/bin/bash
# usage: ref_all.sh [binary] — apply every kept behaviour-preserving refactoring (/verif/refactorings/*/patch.diff) to a scratch
# worktree of /repo and run ALL property checks on it; any VIOLATION is a false alarm. Prints one line per refactoring.
cd /verif
export GOFLAGS=-mod=mod GOPROXY=off GOSUMDB=off GOTOOLCHAIN=local; unset GOWORK
BIN=${1:-/verif/bin/verif-sa}
q=0; fa=0; na=0
for d in refactorings/*/; do
  n=$(basename $d)
  WT=/tmp/refall-$n
  git -C /repo worktree add -q --detach $WT HEAD 2>/dev/null || continue
  if git -C $WT apply /verif/$d/patch.diff 2>/dev/null; then
    out=$(GOFLAGS=-mod=vendor $BIN -prop all -repo $WT -verif /verif -no-evidence 2>&1)
    if echo "$out" | grep -q "^VIOLATION"; then
      fa=$((fa+1)); echo "$n: FALSE ALARM"; echo "$out" | grep -E "violated:|undecided:" | cut -c1-260
    else
      q=$((q+1)); echo "$n: quiet"
    fi
  else
    na=$((na+1)); echo "$n: patch does not apply to the current /repo HEAD"
  fi
  git -C /repo worktree remove --force $WT
done
echo "SUMMARY quiet=$q false_alarms=$fa not_applicable=$na"
