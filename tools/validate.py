#!/usr/bin/env python3
"""Validate MANIFEST.json and evidence/*.json against the schemas (uses the tooling venv's jsonschema)."""
import json,sys,glob
import jsonschema
ok=True
m=json.load(open('/verif/MANIFEST.json'))
jsonschema.validate(m,json.load(open('/root/.vp/MANIFEST.schema.json')))
print('MANIFEST valid: %d checks, %d not_applicable'%(len(m['checks']),len(m.get('not_applicable',[]))))
es=json.load(open('/root/.vp/EVIDENCE.schema.json'))
for f in sorted(glob.glob('/verif/evidence/*.json')):
    try:
        jsonschema.validate(json.load(open(f)),es); print('ok',f)
    except Exception as e:
        ok=False; print('INVALID',f,str(e)[:300])
props=[json.loads(l)['id'] for l in open('/verif/properties.jsonl')]
claimed={c['property_id'] for c in m['checks']}; na={n['property_id'] for n in m.get('not_applicable',[])}
for p in props:
    if (p in claimed)==(p in na): ok=False; print('property',p,'must be exactly one of claimed / not_applicable')
sys.exit(0 if ok else 1)
