#!/bin/bash
# usage: seed_confirm.sh [seed-dir-name ...] — the recorded confirmation: for each kept seeded mutation, apply its patch to
# /repo itself (git -C /repo apply), run the quick check of its property from /verif against /repo (no evidence written),
# undo the patch at once (git -C /repo checkout -- .), and record the outcome in seeded/<id>/meta.json ("check_against_repo").
# Refuses to start if /repo has uncommitted changes. Never commits to /repo.
cd /verif
[ -z "$(git -C /repo status --porcelain)" ] || { echo "/repo is dirty; refusing"; exit 2; }
seeds=("$@"); [ ${#seeds[@]} -eq 0 ] && seeds=($(ls seeded))
head=$(git -C /repo rev-parse --short HEAD)
for s in "${seeds[@]}"; do
  P=${s%%-*}
  if ! git -C /repo apply /verif/seeded/$s/patch.diff; then echo "$s: patch does not apply"; continue; fi
  out=$(./check $P --no-evidence 2>&1); rc=$?
  git -C /repo checkout -- .
  [ -z "$(git -C /repo status --porcelain)" ] || { echo "/repo not clean after undo of $s"; exit 2; }
  if [ $rc -ne 0 ] && echo "$out" | grep -q "^VIOLATION property=$P"; then verdict=caught; else verdict=missed; fi
  rules=$(echo "$out" | grep -oE ': (violated|undecided|vacuous): C[0-9]+\.[A-Za-z0-9._-]+' | awk '{print $3}' | sort -u | tr '\n' ' ')
  echo "$s: $verdict rc=$rc $rules"
  python3 - "$s" "$verdict" "$rc" "$head" "$rules" <<'PY'
import json,sys
s,verdict,rc,head,rules=sys.argv[1:6]
p=f'/verif/seeded/{s}/meta.json'
m=json.load(open(p))
m['check_against_repo']={'how':'git -C /repo apply patch.diff; ./check %s --no-evidence; git -C /repo checkout -- .'%s.split('-')[0],
  'repo_head':head,'verdict':verdict,'exit_code':int(rc),'rules_reporting':rules.split()}
json.dump(m,open(p,'w'),indent=1)
PY
done
