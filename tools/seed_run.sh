#!/bin/bash
# usage: seed_run.sh [seed-dir-name ...]  — apply each kept seeded mutation to a scratch worktree of /repo and run
# the quick check of its property against that worktree (VERIF_REPO). Prints CAUGHT / MISSED per seed.
# (Development loop only; the recorded confirmation applies the patch to /repo itself, see seed_confirm.sh.)
cd /verif
seeds=("$@"); [ ${#seeds[@]} -eq 0 ] && seeds=($(ls seeded))
for s in "${seeds[@]}"; do
  P=${s%%-*}
  python3 -c "import json;m=json.load(open('/verif/MANIFEST.json'));import sys;sys.exit(0 if any(c['property_id']=='$P' for c in m['checks']) else 1)" || { echo "$s: property $P not claimed yet"; continue; }
  WT=/tmp/seedrun-$s
  git -C /repo worktree add -q --detach $WT HEAD || continue
  if git -C $WT apply /verif/seeded/$s/patch.diff; then
    out=$(VERIF_REPO=$WT ./check $P --no-evidence 2>&1); rc=$?
    if [ $rc -ne 0 ] && echo "$out" | grep -q "^VIOLATION property=$P"; then
      echo "$s: CAUGHT  $(echo "$out" | grep -E 'violated:|undecided:' | head -2 | cut -c1-260 | tr '\n' ' ')"
    else
      echo "$s: MISSED (rc=$rc)"
    fi
  else
    echo "$s: patch does not apply"
  fi
  git -C /repo worktree remove --force $WT
done
